(* WsCheck.v — the tie for C12/C13, definitions only: the case type written by
   harness/cmd/wsdrv, the outcome of a real run, the set of outcomes the model allows for
   the scenario's class (computed from the model by exhaustive exploration of the class's
   configuration, once, when this file is compiled), and the two check functions.

   code 1   = the real run's outcome is not among the outcomes the model allows
   codes>=10 = the property's monitor (Ws.mon12 / Ws.mon13 and the trace monitors below)
               fails on the implementation's own observations. *)
From Coq Require Import List Bool Arith NArith PArith FMapPositive.
From Ship Require Import Base Closure Ws.
From ShipGen Require Import WsTable.
Import ListNotations.
Local Open Scope N_scope.

(* closing-event classes of the driver (harness/cmd/wsdrv/scen.go) *)
Inductive skind :=
  | KNone | KLocal | KPeerClose | KEof | KBadFrame | KReadFault | KWriteFault | KSlowFail
  | KFullLocal | KLocalPeer | KLocalWrite | KLocalEof | KSlowLocal.

Record wcall := mkW { wc_g : N; wc_i : N; wc_start : N; wc_end : N; wc_res : N }.  (* res: 0 nil, 1 error, 2 panic, 3 never returned *)

Record ws_case := mkCase {
  c_kind : skind; c_reason : bool; c_react : bool; c_out : bool; c_in : bool; c_nin : N;
  c_calls : list wcall;
  c_closed_seq : N;              (* stamp taken after the closed-query first said closed; 0 = never *)
  c_wire : list (N * N);         (* data frames the peer received: (writer, index) *)
  c_foreign : N;                 (* frames the peer received that nobody wrote *)
  c_events : list N;             (* reader callbacks in order: 0 deliver, 1 report with closed-query (true, non-nil), 2 report otherwise *)
  c_delivered : list N;          (* ids of the delivered frames *)
  c_closed : bool; c_closed_err : bool; c_conn_close : bool; c_exited : bool;
  c_local : bool;                (* the driver issued CloseDataConnection *)
  c_peer : bool;                 (* the driver issued the peer-side event (close frame / EOF / invalid frame) *)
  c_fault : bool;                (* an injected read/write fault was returned to the library *)
  c_crash : bool                 (* the child process died inside this scenario *)
}.

(* compact form written by the driver: the variable-length parts as byte strings (a long
   Gallina list literal of records is very slow to parse).  calls: g(2) i(2) start(2) end(2)
   res(1) per call, big endian; wire: g(2) i(2) per frame; events: 1 byte; delivered: 2 bytes *)
Fixpoint dec_calls (b : bytes) : list wcall :=
  match b with
  | g1 :: g2 :: i1 :: i2 :: s1 :: s2 :: e1 :: e2 :: r :: rest =>
      mkW (g1 * 256 + g2) (i1 * 256 + i2) (s1 * 256 + s2) (e1 * 256 + e2) r :: dec_calls rest
  | _ => []
  end.
Fixpoint dec_wire (b : bytes) : list (N * N) :=
  match b with
  | g1 :: g2 :: i1 :: i2 :: rest => (g1 * 256 + g2, i1 * 256 + i2) :: dec_wire rest
  | _ => []
  end.
Fixpoint dec_u16 (b : bytes) : list N :=
  match b with
  | x1 :: x2 :: rest => (x1 * 256 + x2) :: dec_u16 rest
  | _ => []
  end.
Definition mkCaseS (k : skind) (reason react out inc : bool) (nin : N) (calls : bytes) (closed_seq : N) (wire : bytes)
    (foreign : N) (events delivered : bytes) (closed closed_err conn_close exited loc peer fault crash : bool) : ws_case :=
  mkCase k reason react out inc nin (dec_calls calls) closed_seq (dec_wire wire) foreign events (dec_u16 delivered)
         closed closed_err conn_close exited loc peer fault crash.

(* ------------------------------------------------------------------ scenario class -> model configuration *)
Definition has_local (k : skind) : bool :=
  match k with KLocal | KFullLocal | KLocalPeer | KLocalWrite | KLocalEof | KSlowLocal => true | _ => false end.
Definition has_rfail (k : skind) : bool :=
  match k with KPeerClose | KEof | KBadFrame | KReadFault | KLocalPeer | KLocalEof => true | _ => false end.
Definition has_wfail (k : skind) : bool :=
  match k with KPeerClose | KEof | KWriteFault | KSlowFail | KLocalPeer | KLocalWrite | KLocalEof => true | _ => false end.

(* any traffic in both directions is always allowed (a scenario without writers or without
   incoming frames is a schedule that does not pick those labels); the ping ticker (50 s)
   never fires within a scenario *)
Definition cfg_of (k : skind) (reason react : bool) : config :=
  {| can_write := true; can_recv := true; can_tick := false;
     allow_rfail := has_rfail k; allow_wfail := has_wfail k;
     allow_plain := has_local k && negb reason; allow_reason := has_local k && reason;
     may_react := react; may_ignore := negb react; track := true |}.

Definition cfg_code (c : config) : N :=
  b2n (allow_rfail c) + 2 * b2n (allow_wfail c) + 4 * b2n (allow_plain c) + 8 * b2n (allow_reason c) + 16 * b2n (may_react c).

(* ------------------------------------------------------------------ outcomes *)
Definition pack (o : outcome) : N :=
  if o_panic o then 1
  else 2 * (b2n (o_hang o) + 2 * (b2n (o_late_ok o) + 2 * (b2n (o_any_err o) + 2 * (b2n (o_lost o) + 2 * (code_cnt (o_rep o)
       + 4 * (b2n (o_closed o) + 2 * (b2n (o_connc o) + 2 * (b2n (o_exited o) + 2 * code_cnt (o_dafter o))))))))).

Definition outcomes (V : variant) (c : config) : list N :=
  let r := explore_from V 400 c in
  if snd r then
    let set := fold_left (fun (acc : PositiveMap.t unit) s =>
                            if is_quiescent V s then PositiveMap.add (N.succ_pos (pack (outcome_of s))) tt acc else acc)
                         (members (fst r)) (PositiveMap.empty unit) in
    map (fun kv => Pos.pred_N (fst kv)) (PositiveMap.elements set)
  else [].

Definition all_kinds : list skind :=
  [KNone; KLocal; KPeerClose; KEof; KBadFrame; KReadFault; KWriteFault; KSlowFail; KFullLocal; KLocalPeer; KLocalWrite; KLocalEof; KSlowLocal].

Definition class_cfgs : list config :=
  let all := flat_map (fun k => flat_map (fun r => map (fun a => cfg_of k r a) [false; true]) [false; true]) all_kinds in
  (* one per code *)
  fold_left (fun acc c => if existsb (fun d => N.eqb (cfg_code d) (cfg_code c)) acc then acc else c :: acc) all [].

(* the outcome sets of what the source says now, computed when this file is compiled *)
Definition allowed_tbl : list (N * list N) :=
  Eval vm_compute in map (fun c => (cfg_code c, outcomes source_variant c)) class_cfgs.

Definition allowed (c : config) : list N :=
  match find (fun e => N.eqb (fst e) (cfg_code c)) allowed_tbl with Some e => snd e | None => [] end.

(* ------------------------------------------------------------------ the outcome of a real run *)
Definition has_res (r : N) (c : ws_case) : bool := existsb (fun w => N.eqb (wc_res w) r) (c_calls c).
Definition n_ok (c : ws_case) : N := N.of_nat (length (filter (fun w => N.eqb (wc_res w) 0) (c_calls c))).

Fixpoint count_reports (l : list N) : cnt :=
  match l with [] => C0 | x :: r => if N.eqb x 0 then count_reports r else cinc (count_reports r) end.
Fixpoint after_first_report (l : list N) : list N :=
  match l with [] => [] | x :: r => if N.eqb x 0 then after_first_report r else r end.
Fixpoint count_deliveries (l : list N) : cnt :=
  match l with [] => C0 | x :: r => if N.eqb x 0 then cinc (count_deliveries r) else count_deliveries r end.

Definition case_outcome (c : ws_case) : outcome :=
  {| o_panic := c_crash c || has_res 2 c;
     o_hang := has_res 3 c;
     o_late_ok := (0 <? c_closed_seq c) && existsb (fun w => (c_closed_seq c <? wc_start w) && N.eqb (wc_res w) 0) (c_calls c);
     o_any_err := has_res 1 c;
     o_lost := N.of_nat (length (c_wire c)) <? n_ok c;
     o_rep := count_reports (c_events c);
     o_closed := c_closed c; o_connc := c_conn_close c; o_exited := c_exited c;
     o_dafter := count_deliveries (after_first_report (c_events c)) |}.

Definition class_of_case (c : ws_case) : cclass :=
  match c_local c, c_peer c || c_fault c with
  | false, false => NoCause
  | true, false => ByLocal
  | false, true => ByLoss
  | true, true => Either
  end.

(* ------------------------------------------------------------------ trace monitors *)
Definition wid (g i : N) : N := g * 65536 + i.

Fixpoint pos_of (x : N) (l : list N) (i : N) : option N :=
  match l with [] => None | y :: r => if N.eqb x y then Some i else pos_of x r (i + 1) end.

Fixpoint has_dup (l : list N) : bool :=
  match l with [] => false | x :: r => existsb (N.eqb x) r || has_dup r end.

(* C12 on the trace.  The acceptance order of concurrent calls is not observable, their
   real-time order is (stamps from one atomic counter at call and at return): call a
   precedes call b if a returned before b started; then a was accepted before b.
   13 a frame arrived twice; 14 a frame arrived that no successful call wrote;
   15 b arrived before a although a precedes b; 16 b arrived, a did not, although a precedes b *)
Definition wire_codes (c : ws_case) : codes :=
  let wire := map (fun p => wid (fst p) (snd p)) (c_wire c) in
  let ok := filter (fun w => N.eqb (wc_res w) 0) (c_calls c) in
  let okp := map (fun w => (w, pos_of (wid (wc_g w) (wc_i w)) wire 0)) ok in
  let okids := map (fun w => wid (wc_g w) (wc_i w)) ok in
  (if has_dup wire then [13] else [])
  ++ (if (0 <? c_foreign c) || existsb (fun x => negb (existsb (N.eqb x) okids)) wire then [14] else [])
  ++ (if existsb (fun a => existsb (fun b =>
           (wc_end (fst a) <? wc_start (fst b)) &&
           match snd a, snd b with Some pa, Some pb => pb <? pa | _, _ => false end) okp) okp then [15] else [])
  ++ (if existsb (fun a => existsb (fun b =>
           (wc_end (fst a) <? wc_start (fst b)) &&
           match snd a, snd b with None, Some _ => true | _, _ => false end) okp) okp then [16] else []).

Fixpoint is_iota (l : list N) (i : N) : bool :=
  match l with [] => true | x :: r => N.eqb x i && is_iota r (i + 1) end.

(* ------------------------------------------------------------------ the checks *)
Definition corr_codes (c : ws_case) : codes :=
  (if existsb (N.eqb (pack (case_outcome c))) (allowed (cfg_of (c_kind c) (c_reason c) (c_react c))) then [] else [1])
  (* frames are delivered in the order the peer sent them, none twice, none invented *)
  ++ (if is_iota (c_delivered c) 0 && (N.of_nat (length (c_delivered c)) <=? c_nin c) then [] else [1]).

Definition check_c12 (c : ws_case) : codes :=
  corr_codes c ++ mon12 (case_outcome c) ++ wire_codes c.

(* 29: the closed-query did not say (closed, non-nil error) at a report, or at the end of a closed connection *)
Definition check_c13 (c : ws_case) : codes :=
  corr_codes c ++ mon13 (class_of_case c) (case_outcome c)
  ++ (if existsb (N.eqb 2) (c_events c) || (c_closed c && negb (c_closed_err c)) then [29] else []).
