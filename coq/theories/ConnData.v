(* ConnData.v — the data layer on top of Conn.cstep: concrete events as the harness delivers
   them (a view of the message bytes with every decoder's result), concrete observations
   with payload ids, SHIP ids, waiting values and close codes.  Definitions only. *)
From Ship Require Import Base Conn ConnEvents.
From ShipGen Require Import ConnTable.

(* what the access-phase handler sees *)
Inductive accv := VAccReq | VAccErr | VAccNoId | VAccId (id : bytes) | VAccNeither.

(* a received frame: the result of every test / decoder the handlers may apply to it.
   The harness computes it with encoding/json on the repository's public model structs
   and ship.JsonFromEEBUSJson, independently of the handlers. *)
Record view := mkView {
  v_dg : dgc; v_payload : N;                              (* "datagram" test, ShipData decode, payload id *)
  v_cl : clc;                                             (* len > 2 and ConnectionClose decode *)
  v_init : initc;                                         (* header byte / second byte *)
  v_hello : option (hphase * option N * pro);             (* ConnectionHello decode *)
  v_prot : protc; v_pin : pinc; v_acc : accv }.

Inductive event :=
| ERun | ERecv (v : view) | ETimeout | EConnErr | EWClosed | EApprove | EAbort
| EClose (safe : bool) (code : N) (reason : bool)
| ESpineWrite (p : N)
| EDeferred.

Record eventx := mkX { x_ev : event; x_paired : bool; x_auto : bool; x_allow : bool; x_wf : option nat }.

(* time.Duration(uint) * time.Millisecond with Go's wrap-around, then the thresholds *)
Definition wait_ns (w : N) : Z :=
  (let z := ((Z.of_N w mod 18446744073709551616) * 1000000) mod 18446744073709551616 in
   if 9223372036854775808 <=? z then z - 18446744073709551616 else z)%Z.

Definition wcls_of (w : option N) : wcls :=
  match w with
  | None => WNone
  | Some w =>
      let d := wait_ns w in
      if (Z.of_N tHelloProlongThrInc_ns <=? d)%Z then WGe30
      else if (d <? Z.of_N tHelloProlongMin_ns)%Z then WLt1 else WMid
  end.

Definition is_nil (b : bytes) : bool := match b with [] => true | _ => false end.

(* which decoder consults a message received in a state of kind k, and what it sees *)
Definition comp_for (k : skind) (stored : bytes) (v : view) : msg :=
  match k with
  | KInit => MInit (v_init v)
  | KHello =>
      MHello (match v_hello v with
              | None => HelloErr
              | Some (p, w, pr) => Hello p (wcls_of w) pr
              end)
  | KProt => MProt (v_prot v)
  | KPin => MPin (v_pin v)
  | KAcc =>
      MAcc (match v_acc v with
            | VAccReq => AccReq | VAccErr => AccMethodsErr | VAccNoId => AccNoId
            | VAccId id => AccId (is_nil stored || bytes_eqb stored id) (is_nil id)
            | VAccNeither => AccNeither
            end)
  | KNone => MGarbage
  end.

(* the control event of a concrete event in control state c (ConnEvents explains the
   canonicalisation and the realisability conditions) *)
Definition abs_ev (c : cs) (stored : bytes) (e : eventx) : cevx :=
  let k := skind_of (st c) in
  let ce := match x_ev e with
            | ERun => if ran c then CNop else CRun
            | ERecv v =>
                match v_dg v with
                | NotDatagram =>
                    match v_cl v with
                    | NoClose => CRecv NotDatagram NoClose (comp_for k stored v)
                    | cl => CRecv NotDatagram cl MGarbage
                    end
                | dg => CRecv dg NoClose MGarbage
                end
            | ETimeout => CTimeout | EConnErr => CConnErr | EWClosed => CWClosed
            | EApprove => CApprove | EAbort => CAbort
            | EClose safe _ _ => CClose safe
            | ESpineWrite _ => if reader c then CSpineWrite else CNop
            | EDeferred => CDeferred
            end in
  mkEv ce (trust_rel k && x_paired e) (trust_rel k && x_auto e) (negb (allow_rel k) || x_allow e)
       (cap_wf (x_wf e)).

(* ---------------------------------------------------------------- concrete observations *)
Inductive frame :=
| FInit | FHello (p : hphase) (w : option N) (pr : pro) | FProt (t : ptype) | FProtErr (n : N)
| FPin | FAccReq | FAcc (id : bytes) | FData (p : N) | FClose (announce : bool) | FUnknown.

Inductive obs :=
| OReport (s : N) (e : bool) | OWrite (f : frame) (ok : bool)
| OPairedQ (a : bool) | OAutoQ (a : bool) | OAllowQ (a : bool) | OSetup | OShipId (id : bytes) | ODeliver (p : N)
| OCloseData (code : N) (reason : bool) | OClosedCb (completed : bool)
| OPanic | OHang | OFuel
| OSnap (s : N) (e : bool) (armed : bool) (tty : N) (rd : bool) (buflen : N).

Record dstate := mkD { d_stored : bytes; d_local : bytes; d_buf : list N }.

Definition hello_ms : N := tHelloInit_ns / 1000000.

Definition ev_payload (e : event) : N :=
  match e with ERecv v => v_payload v | ESpineWrite p => p | _ => 0 end.
Definition ev_presented (e : event) : bytes :=
  match e with ERecv v => match v_acc v with VAccId id => id | _ => [] end | _ => [] end.

Definition frame_of (d : dstate) (e : event) (m : smsg) : frame :=
  match m with
  | SInit => FInit
  | SHelloReady => FHello HReady (Some hello_ms) PNone
  | SHelloPending => FHello HPending (Some hello_ms) PNone
  | SHelloProlong => FHello HPending None PTrue
  | SHelloAborted => FHello HAborted None PNone
  | SProtAnnounce => FProt PAnnounce
  | SProtSelect => FProt PSelect
  | SProtErr n => FProtErr n
  | SPin => FPin | SAccReq => FAccReq
  | SAcc => FAcc (d_local d)
  | SData => FData (ev_payload e)
  | SCloseAnnounce => FClose true
  | SCloseConfirm => FClose false
  | SUnknown => FUnknown
  end.

Definition close_args (e : event) (k : ccode) : N * bool :=
  match k with
  | K4001 r => (4001, r)
  | K4452 => (4452, true)
  | KUser => match e with
             | EClose _ code reason => ((if N.eqb code 0 then 4001 else code), reason)
             | _ => (4001, false)
             end
  end.

(* fill the data into one control observation *)
Definition conc1 (d : dstate) (e : event) (o : cobs) : dstate * list obs :=
  match o with
  | BEv _ => (d, [])
  | BReport s er => (d, [OReport s er])
  | BWrite m ok => (d, [OWrite (frame_of d e m) ok])
  | BPairedQ a => (d, [OPairedQ a]) | BAutoQ a => (d, [OAutoQ a]) | BAllowQ a => (d, [OAllowQ a])
  | BSetup => (d, [OSetup])
  | BShipId => (mkD (ev_presented e) (d_local d) (d_buf d), [OShipId (ev_presented e)])
  | BDeliver => (d, [ODeliver (ev_payload e)])
  | BBuffer => (mkD (d_stored d) (d_local d) (d_buf d ++ [ev_payload e]), [])
  | BFlush => (mkD (d_stored d) (d_local d) [], map ODeliver (d_buf d))
  | BCloseData k => (d, [OCloseData (fst (close_args e k)) (snd (close_args e k))])
  | BClosedCb b => (d, [OClosedCb b])
  | BPanic => (d, [OPanic]) | BHang => (d, [OHang]) | BFuel => (d, [OFuel])
  | BSnap s er a t rd => (d, [OSnap s er a t rd (N.of_nat (length (d_buf d)))])
  end.

(* ... and into one event's control observations, in order *)
Fixpoint conc (d : dstate) (e : event) (l : list cobs) : dstate * list obs :=
  match l with
  | [] => (d, [])
  | o :: r =>
      let '(d1, os) := conc1 d e o in
      let '(d2, os2) := conc d1 e r in
      (d2, os ++ os2)
  end.

Definition state := (cs * dstate)%type.

Definition init_state (r : role) (stored local : bytes) : state :=
  (init_cs r (negb (is_nil stored)), mkD stored local []).

Definition step (s : state) (e : eventx) : state * list obs :=
  let '(c, d) := s in
  let ce := abs_ev c (d_stored d) e in
  let '(c', l) := cstep c ce in
  let '(d', os) := conc d (x_ev e) l in
  ((c', d'), os).

(* the whole run: per event, the observations it caused *)
Fixpoint run (s : state) (es : list eventx) : list (list obs) :=
  match es with
  | [] => []
  | e :: r => let '(s', os) := step s e in os :: run s' r
  end.

(* ---------------------------------------------------------------- equality tests *)
Definition hphase_eqb (a b : hphase) : bool :=
  match a, b with HReady, HReady | HPending, HPending | HAborted, HAborted | HOther, HOther => true | _, _ => false end.
Definition pro_eqb (a b : pro) : bool :=
  match a, b with PNone, PNone | PTrue, PTrue | PFalse, PFalse => true | _, _ => false end.
Definition ptype_eqb (a b : ptype) : bool :=
  match a, b with PAnnounce, PAnnounce | PSelect, PSelect | POtherT, POtherT => true | _, _ => false end.

Definition frame_eqb (a b : frame) : bool :=
  match a, b with
  | FInit, FInit | FPin, FPin | FAccReq, FAccReq | FUnknown, FUnknown => true
  | FHello p w pr, FHello p' w' pr' => hphase_eqb p p' && option_eqb N.eqb w w' && pro_eqb pr pr'
  | FProt t, FProt t' => ptype_eqb t t'
  | FProtErr n, FProtErr n' => N.eqb n n'
  | FAcc i, FAcc i' => bytes_eqb i i'
  | FData p, FData p' => N.eqb p p'
  | FClose x, FClose y => Bool.eqb x y
  | _, _ => false
  end.

Definition obs_eqb (a b : obs) : bool :=
  match a, b with
  | OReport s e, OReport s' e' => N.eqb s s' && Bool.eqb e e'
  | OWrite f ok, OWrite f' ok' => frame_eqb f f' && Bool.eqb ok ok'
  | OPairedQ a, OPairedQ b | OAutoQ a, OAutoQ b | OAllowQ a, OAllowQ b => Bool.eqb a b
  | OSetup, OSetup => true
  | OShipId i, OShipId i' => bytes_eqb i i'
  | ODeliver p, ODeliver p' => N.eqb p p'
  | OCloseData c r, OCloseData c' r' => N.eqb c c' && Bool.eqb r r'
  | OClosedCb b, OClosedCb b' => Bool.eqb b b'
  | OPanic, OPanic | OHang, OHang | OFuel, OFuel => true
  | OSnap s e a t rd n, OSnap s' e' a' t' rd' n' =>
      N.eqb s s' && Bool.eqb e e' && Bool.eqb a a' && N.eqb t t' && Bool.eqb rd rd' && N.eqb n n'
  | _, _ => false
  end.

(* index of the first event whose observations differ (for the replay), if any *)
Fixpoint first_diff (i : N) (a b : list (list obs)) : option N :=
  match a, b with
  | [], [] => None
  | x :: a', y :: b' => if list_eqb obs_eqb x y then first_diff (i + 1) a' b' else Some i
  | _, _ => Some i
  end.

(* ---------------------------------------------------------------- correspondence case *)
Record conn_case := mkConnCase {
  cc_role : role; cc_stored : bytes; cc_local : bytes;
  cc_events : list eventx; cc_obs : list (list obs) }.

Definition model_obs (c : conn_case) : list (list obs) :=
  run (init_state (cc_role c) (cc_stored c) (cc_local c)) (cc_events c).

(* the implementation stops a scenario at the first panic / hang; compare up to there *)
Definition corr_ok (c : conn_case) : bool :=
  match first_diff 0 (firstn (length (cc_obs c)) (model_obs c)) (cc_obs c) with
  | None => true
  | Some _ => false
  end.

Definition check_conn_corr (c : conn_case) : codes := if corr_ok c then [] else [1].
