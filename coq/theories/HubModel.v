(* HubModel.v — model of the hub's pairing / dial bookkeeping over several SKIs
   (hub/hub.go, hub_pairing.go, hub_mdns.go, hub_connections.go, hub_shipconnection.go),
   DESIGN.md Appendix D.  Definitions only (model, monitor, check function).

   SKIs are indices (N): spelling is C15's matter, every entry point normalises first.
   Granularity: one label = one hub entry point executed by one goroutine, or one of the
   internal steps of a delayed dial:
     LFire k      the pending dial goroutine of k runs prepareConnectionInitation up to
                  the websocket Dial (running := false, counter check, trust/queued check,
                  connected check, initateConnection's check, connectFoundService's check)
     LDialOk k c  a dial in flight connects: SKI checks, keepThisConnection, the client
                  connection c is created, Run, registered
     LDialFail k  a dial in flight fails: initateConnection returns false, checkAutoReannounce
   Between LFire and LDialOk/LDialFail every other label may occur: that is the window in
   which the user may unregister while the TCP/TLS/websocket handshake is under way.
   Which of the four places consult the shut-down flag, and the highest attempt counter,
   are regenerated from the Go source (gen/HubTable.v). *)
From Ship Require Import Base.
From ShipGen Require Import StateTable.

(* ---- per-SKI state ---- *)
Record sk := mkSk {
  s_trusted : bool;            (* ServiceDetails.trusted *)
  s_pst : N;                   (* ConnectionStateDetail.state *)
  s_perr : bool;               (* ConnectionStateDetail.error != nil *)
  s_shipid : N;                (* ServiceDetails.shipID, 0 = "" *)
  s_reg : option N;            (* Hub.connections[ski]: identity of the registered connection *)
  s_counter : option N;        (* Hub.connectionAttemptCounter[ski] *)
  s_pend : option N;           (* a dial goroutine waits for its delay (connectionAttemptRunning),
                                  with the counter value it captured *)
  s_dialing : N                (* dials past their last check, websocket Dial in progress *)
}.
Definition sk0 : sk := mkSk false 0 false 0 None None None 0.

Definition set_trusted (s : sk) v := mkSk v (s_pst s) (s_perr s) (s_shipid s) (s_reg s) (s_counter s) (s_pend s) (s_dialing s).
Definition set_pst (s : sk) v := mkSk (s_trusted s) v (s_perr s) (s_shipid s) (s_reg s) (s_counter s) (s_pend s) (s_dialing s).
Definition set_perr (s : sk) v := mkSk (s_trusted s) (s_pst s) v (s_shipid s) (s_reg s) (s_counter s) (s_pend s) (s_dialing s).
Definition set_shipid (s : sk) v := mkSk (s_trusted s) (s_pst s) (s_perr s) v (s_reg s) (s_counter s) (s_pend s) (s_dialing s).
Definition set_reg (s : sk) v := mkSk (s_trusted s) (s_pst s) (s_perr s) (s_shipid s) v (s_counter s) (s_pend s) (s_dialing s).
Definition set_counter (s : sk) v := mkSk (s_trusted s) (s_pst s) (s_perr s) (s_shipid s) (s_reg s) v (s_pend s) (s_dialing s).
Definition set_pend (s : sk) v := mkSk (s_trusted s) (s_pst s) (s_perr s) (s_shipid s) (s_reg s) (s_counter s) v (s_dialing s).
Definition set_dialing (s : sk) v := mkSk (s_trusted s) (s_pst s) (s_perr s) (s_shipid s) (s_reg s) (s_counter s) (s_pend s) v.

Record hub := mkHub {
  h_started : bool;            (* Hub.hasStarted *)
  h_down : bool;               (* the shut-down flag (never set when Shutdown sets none) *)
  h_auto : bool;               (* Hub.autoaccept *)
  h_sks : N -> sk
}.

Definition get (h : hub) (k : N) : sk := h_sks h k.
Definition upd (h : hub) (k : N) (s : sk) : hub :=
  mkHub (h_started h) (h_down h) (h_auto h) (fun j => if N.eqb j k then s else h_sks h j).
Definition hub0 (started : bool) : hub := mkHub started false false (fun _ => sk0).

(* ---- static configuration of a run ---- *)
Record cfg := mkCfg {
  c_univ : list N;             (* the SKIs that have a ServiceDetails record at all *)
  c_localgt : N -> bool;       (* local SKI > this SKI (string order), for keepThisConnection *)
  c_maxc : N;                  (* len(connectionInitiationDelayTimeRanges) - 1 *)
  c_flag : bool;               (* Shutdown sets a flag *)
  c_gcoord : bool;             (* ... consulted by coordinateConnectionInitations *)
  c_gprep : bool;              (* ... by prepareConnectionInitation *)
  c_ginit : bool;              (* ... by initateConnection *)
  c_grean : bool;              (* ... by checkAutoReannounce *)
  c_stale : bool;              (* a stale attempt (counter check) calls checkAutoReannounce *)
  c_regcheck : bool            (* ServeHTTP / connectFoundService register through registerCheckedConnection *)
}.

Inductive label :=
| LRegister (k : N) | LUnregister (k : N) | LCancel (k : N) | LDisconnect (k : N)
| LSetAuto (b : bool) | LShutdown
| LSetStarted (b : bool)                   (* driver hook: the started flag, without web server and mDNS *)
| LSetShipID (k v : N)                     (* the application stores a SHIP ID: ServiceForSKI(k).SetShipID *)
| LReport (ks : list N)                    (* ReportMdnsEntries: the visible SKIs *)
| LInbound (k c : N)                       (* ServeHTTP past the certificate checks; c = new connection *)
| LFakeReg (k c : N)                       (* registerConnection(c) (driver hook) *)
| LState (k st : N) (err : bool)           (* HandleShipHandshakeStateUpdate *)
| LClosed (k c : N) (completed : bool)     (* HandleConnectionClosed(c, completed) *)
| LFire (k : N) | LDialOk (k c : N) | LDialFail (k : N).

Inductive obs :=
| OApprove (c : N) | OAbort (c : N) | OClose (c : N) (safe : bool) (code : N)
| OPairUpd (k st : N)                      (* synchronous ServicePairingDetailUpdate only *)
| OMdnsRequest | OMdnsAnnounce | OMdnsShutdown
| OVisible (n : N) | ODisc (k : N)
| OAuto (b : bool)                         (* what IsAutoAcceptEnabled answers right after SetAutoAccept *)
| ODial (k : N)                            (* a websocket Dial to k starts *)
| OCreate (c k : N) (client : bool) (shipid : N).   (* ship.NewConnectionHandler(..., role, ..., remoteShipID) *)

Scheme Equality for obs.

Definition queued (s : sk) : bool := N.eqb (s_pst s) ConnectionStateQueued.
Definition may_dial (s : sk) : bool := s_trusted s || queued s.
Definition isSome {A} (o : option A) : bool := match o with Some _ => true | None => false end.

Section WithCfg.
Variable C : cfg.

Definition n_trusted (h : hub) : nat := length (filter (fun k => s_trusted (get h k)) (c_univ C)).
Definition n_conns (h : hub) : nat := length (filter (fun k => isSome (s_reg (get h k))) (c_univ C)).

(* checkAutoReannounce *)
Definition reannounce (h : hub) : list obs :=
  if c_grean C && h_down h then []
  else if Nat.ltb (n_conns h) (n_trusted h) then [OMdnsAnnounce; OMdnsRequest] else [].

(* coordinateConnectionInitations *)
Definition coordinate (h : hub) (k : N) : hub :=
  let s := get h k in
  if c_gcoord C && h_down h then h
  else match s_pend s with
  | Some _ => h
  | None =>
      let n := match s_counter s with
               | Some n => if c_maxc C <=? n + 1 then c_maxc C else n + 1
               | None => 0 end in
      upd h k (set_pend (set_counter s (Some n)) (Some n))
  end.

(* the loop body of ReportMdnsEntries *)
Definition report_one (h : hub) (k : N) : hub :=
  let s := get h k in
  if isSome (s_reg s) then h
  else if negb (may_dial s) then h
  else coordinate h k.

(* keepThisConnection: (proceed?, call on the existing connection) *)
Definition keep_this (h : hub) (k : N) (incoming : bool) : bool * list obs :=
  match s_reg (get h k) with
  | None => (true, [])
  | Some old =>
      let keep := if incoming then negb (c_localgt C k) else c_localgt C k in
      if keep then (true, [OClose old false 0]) else (false, [])
  end.

(* registerCheckedConnection takes the double-connection decision again, together with the
   registration: the displaced connection is told to close a second time (CloseConnection is
   once-guarded).  keepThisConnection and the registration belong to one label here, so the
   decision is the same. *)
Definition reg_close (o2 : list obs) : list obs := if c_regcheck C then o2 else [].

Definition closes_of (h : hub) : list obs :=
  flat_map (fun k => match s_reg (get h k) with Some c => [OClose c false 0] | None => [] end) (c_univ C).

Definition hstep (h : hub) (l : label) : hub * list obs :=
  match l with
  | LRegister k =>
      let s := get h k in
      if negb (h_started h) then
        let h1 := upd h k (set_trusted s true) in (h1, reannounce h1)
      else
        match s_reg s with
        | Some c => (upd h k (set_trusted s true), [OApprove c])
        | None => (upd h k (set_pst (set_trusted s true) ConnectionStateQueued),
                   [OPairUpd k ConnectionStateQueued; OMdnsRequest])
        end
  | LUnregister k =>
      let s := get h k in
      (upd h k (set_pst (set_counter (set_trusted s false) None) ConnectionStateNone),
       OPairUpd k ConnectionStateNone ::
       match s_reg s with Some c => [OClose c true 4500] | None => [] end)
  | LDisconnect k =>
      (h, match s_reg (get h k) with Some c => [OClose c true 0] | None => [] end)
  | LCancel k =>
      let s := get h k in
      (upd h k (set_trusted (set_pst (set_counter s None) ConnectionStateNone) false),
       match s_reg s with Some c => [OAbort c] | None => [] end ++ [OPairUpd k ConnectionStateNone])
  | LSetAuto b => (mkHub (h_started h) (h_down h) b (h_sks h), [OAuto b])
  | LSetStarted b => (mkHub b (h_down h) (h_auto h) (h_sks h), [])
  | LShutdown =>
      (mkHub (h_started h) (h_down h || c_flag C) (h_auto h) (h_sks h), OMdnsShutdown :: closes_of h)
  | LSetShipID k v => (upd h k (set_shipid (get h k) v), [])
  | LReport ks => (fold_left report_one ks h, [OVisible (N.of_nat (length ks))])
  | LInbound k c =>
      let s := get h k in
      let '(h1, o1) := if queued s
                       then (upd h k (set_pst s ConnectionStateReceivedPairingRequest),
                             [OPairUpd k ConnectionStateReceivedPairingRequest])
                       else (h, []) in
      let '(go, o2) := keep_this h1 k true in
      if go then (upd h1 k (set_reg (get h1 k) (Some c)), o1 ++ o2 ++ reg_close o2 ++ [OCreate c k false (s_shipid s)])
      else (h1, o1 ++ o2)
  | LFakeReg k c => (upd h k (set_reg (get h k) (Some c)), [])
  | LState k st err =>
      let s := get h k in
      let s1 := if N.eqb st SmeHelloStateOk then set_trusted s true else s in
      let ps := if err then ConnectionStateError else pair_state_of st in
      (upd h k (set_perr (set_pst s1 ps) err), [])
  | LClosed k c completed =>
      let s := get h k in
      let s1 := match s_reg s with
                | Some r => let s' := if N.eqb r c then set_reg s None else s in
                            if completed then set_counter s' None else s'
                | None => s end in
      let h1 := upd h k s1 in
      (h1, ODisc k :: if negb completed && negb (s_trusted s) then [] else reannounce h1)
  | LFire k =>
      let s := get h k in
      match s_pend s with
      | None => (h, [])
      | Some n =>
          let h1 := upd h k (set_pend s None) in
          if c_gprep C && h_down h then (h1, [])
          (* a dropped attempt looks at the known mDNS entries again (checkAutoReannounce) *)
          else if negb (option_eqb N.eqb (s_counter s) (Some n)) then (h1, if c_stale C then reannounce h1 else [])
          else if negb (may_dial s) then (h1, [])
          else if isSome (s_reg s) then (h1, [])
          else if c_ginit C && h_down h then (h1, reannounce h1)
          else (upd h k (set_dialing (set_pend s None) (s_dialing s + 1)), [ODial k])
      end
  | LDialFail k =>
      let s := get h k in
      if N.eqb (s_dialing s) 0 then (h, [])
      else let h1 := upd h k (set_dialing s (N.pred (s_dialing s))) in (h1, reannounce h1)
  | LDialOk k c =>
      let s := get h k in
      if N.eqb (s_dialing s) 0 then (h, [])
      else
        let s1 := set_dialing s (N.pred (s_dialing s)) in
        let h1 := upd h k s1 in
        let '(go, o2) := keep_this h1 k false in
        (* registerCheckedConnection takes the decision again: the displaced connection is
           told to close a second time (CloseConnection is once-guarded) *)
        if go then (upd h1 k (set_reg s1 (Some c)), o2 ++ reg_close o2 ++ [OCreate c k true (s_shipid s)])
        else (h1, o2 ++ reannounce h1)
  end.

Fixpoint hrun (h : hub) (ls : list label) : hub * list obs :=
  match ls with
  | [] => (h, [])
  | l :: r => let '(h1, o1) := hstep h l in let '(h2, o2) := hrun h1 r in (h2, o1 ++ o2)
  end.

End WithCfg.

(* ================= the monitor =================
   It looks at what an observer of the hub sees: the label (the call made), the
   observations of the step, and the per-SKI view before and after.  The theorems are
   stated with this definition on the model's own steps; check_c10 evaluates it on the
   implementation's observations. *)
Record sview := mkV {
  v_trusted : bool; v_pst : N; v_perr : bool; v_reg : option N; v_counter : option N; v_running : bool }.
Definition view_of (s : sk) : sview :=
  mkV (s_trusted s) (s_pst s) (s_perr s) (s_reg s) (s_counter s) (isSome (s_pend s)).
Definition sview_beq (a b : sview) : bool :=
  Bool.eqb (v_trusted a) (v_trusted b) && N.eqb (v_pst a) (v_pst b) && Bool.eqb (v_perr a) (v_perr b)
  && option_eqb N.eqb (v_reg a) (v_reg b) && option_eqb N.eqb (v_counter a) (v_counter b)
  && Bool.eqb (v_running a) (v_running b).

Record ghost := mkG {
  g_down : bool;               (* Shutdown was called *)
  g_unreg : N -> bool;         (* the user unregistered / cancelled k and nothing re-granted trust since *)
  g_ship : N -> N              (* the SHIP ID the application stored for k *)
}.
Definition ghost0 : ghost := mkG false (fun _ => false) (fun _ => 0).
Definition gset (f : N -> bool) (k : N) (v : bool) : N -> bool := fun j => if N.eqb j k then v else f j.
Definition gsetN (f : N -> N) (k : N) (v : N) : N -> N := fun j => if N.eqb j k then v else f j.

(* what re-grants trust / queues a dial: registration, a hello-ok report, and a report of a
   state that the hub maps to "queued" (only CmiStateInitStart, which a connection never
   sends: reports are state changes only and nothing returns to the initial state) *)
Definition grant_state (st : N) : bool :=
  N.eqb st SmeHelloStateOk || N.eqb (pair_state_of st) ConnectionStateQueued.
Definition regrants (l : label) (k : N) : bool :=
  match l with
  | LRegister j => N.eqb j k
  | LState j st _ => N.eqb j k && grant_state st
  | _ => false
  end.

Definition gstep (g : ghost) (l : label) : ghost :=
  match l with
  | LShutdown => mkG true (g_unreg g) (g_ship g)
  | LUnregister k | LCancel k => mkG (g_down g) (gset (g_unreg g) k true) (g_ship g)
  | LRegister k => mkG (g_down g) (gset (g_unreg g) k false) (g_ship g)
  | LState k st _ =>
      if grant_state st
      then mkG (g_down g) (gset (g_unreg g) k false) (g_ship g) else g
  | LSetShipID k v => mkG (g_down g) (g_unreg g) (gsetN (g_ship g) k v)
  | _ => g
  end.

Definition has_obs (o : obs) (l : list obs) : bool := existsb (obs_beq o) l.
Definition count_obs (o : obs) (l : list obs) : nat := length (filter (obs_beq o) l).
Definition dials_of (l : list obs) : list N :=
  flat_map (fun o => match o with ODial k => [k] | _ => [] end) l.
Definition creates_of (l : list obs) : list (N * N) :=
  flat_map (fun o => match o with OCreate _ k _ id => [(k, id)] | _ => [] end) l.
Definition client_creates_of (l : list obs) : list N :=
  flat_map (fun o => match o with OCreate _ k true _ => [k] | _ => [] end) l.
Definition label_ski (l : label) : option N :=
  match l with
  | LRegister k | LUnregister k | LCancel k | LDisconnect k | LSetShipID k _ | LInbound k _
  | LFakeReg k _ | LState k _ _ | LClosed k _ _ | LFire k | LDialOk k _ | LDialFail k => Some k
  | LSetAuto _ | LShutdown | LSetStarted _ | LReport _ => None
  end.

Definition vqueued (v : sview) : bool := N.eqb (v_pst v) ConnectionStateQueued.

Definition cond (b : bool) (code : N) : codes := if b then [] else [code].

(* failure classes (SPEC codes) *)
Definition mon_core (g : ghost) (before after : N -> sview) (l : label) (o : list obs) : codes :=
  (* C10 (a) / C01-hub: a dial starts only for a trusted or queued SKI *)
  cond (forallb (fun k => v_trusted (before k) || vqueued (before k)) (dials_of o)) 10 ++
  (* C10 (d): no dial after Shutdown *)
  cond (negb (g_down g) || match dials_of o with [] => true | _ => false end) 11 ++
  (* C10 (b): no dial to a SKI the user unregistered *)
  cond (forallb (fun k => negb (g_unreg g k)) (dials_of o)) 12 ++
  match l with
  | LUnregister k =>
      (* C10 (b): untrusted, not queued, counter dropped, registered connection told to close *)
      cond (negb (v_trusted (after k)) && negb (vqueued (after k)) && negb (isSome (v_counter (after k)))
            && match v_reg (before k) with Some c => has_obs (OClose c true 4500) o | None => true end) 13
  | LCancel k =>
      (* C10 (c): the pending request is aborted, trust cleared *)
      cond (negb (v_trusted (after k)) && negb (vqueued (after k))
            && match v_reg (before k) with Some c => has_obs (OAbort c) o | None => true end) 14
  | LClosed k c _ =>
      (* C11-hub: forget exactly the reporting connection, never a newer one *)
      cond (option_eqb N.eqb (v_reg (after k))
              (match v_reg (before k) with
               | Some r => if N.eqb r c then None else Some r | None => None end)) 15 ++
      (* C11-hub: every reported end is notified, once *)
      cond (Nat.eqb (count_obs (ODisc k) o) 1) 16
  | LSetAuto b =>
      (* C01-hub: auto-accept is what the user set last, whatever state the hub is in *)
      cond (has_obs (OAuto b) o) 20
  | _ => []
  end ++
  (* C01-hub: trusted becomes true only by registration or a hello-ok report *)
  cond (match label_ski l with
        | Some k => negb (v_trusted (after k)) || v_trusted (before k)
                    || match l with
                       | LRegister _ => true
                       | LState _ st _ => N.eqb st SmeHelloStateOk
                       | _ => false end
        | None => true end) 17 ++
  (* C09-hub: a new connection is given the stored SHIP ID of its SKI *)
  cond (forallb (fun p => N.eqb (snd p) (g_ship g (fst p))) (creates_of o)) 18.

(* C10 (b), the window: no client-role connection (trusted by construction) is created
   towards a SKI the user unregistered meanwhile *)
Definition mon_window (g : ghost) (o : list obs) : codes :=
  cond (forallb (fun k => negb (g_unreg g k)) (client_creates_of o)) 19.

Definition mon_step (g : ghost) (before after : N -> sview) (l : label) (o : list obs) : codes :=
  mon_core g before after l o ++ mon_window g o.

(* the monitor along a run of the model *)
Definition vw (h : hub) : N -> sview := fun k => view_of (get h k).
Fixpoint run_core (C : cfg) (g : ghost) (h : hub) (ls : list label) : codes :=
  match ls with
  | [] => []
  | l :: r => let '(h1, o) := hstep C h l in
              mon_core g (vw h) (vw h1) l o ++ run_core C (gstep g l) h1 r
  end.
Fixpoint run_window (C : cfg) (g : ghost) (h : hub) (ls : list label) : codes :=
  match ls with
  | [] => []
  | l :: r => let '(h1, o) := hstep C h l in
              mon_window g o ++ run_window C (gstep g l) h1 r
  end.
(* the region the window needs: the user unregisters / cancels k while a dial to k is in flight *)
Fixpoint window_free (C : cfg) (h : hub) (ls : list label) : bool :=
  match ls with
  | [] => true
  | l :: r =>
      match l with
      | LUnregister k | LCancel k => N.eqb (s_dialing (get h k)) 0
      | _ => true
      end && window_free C (fst (hstep C h l)) r
  end.

(* ---- the case stream ----
   A step is a group of labels the driver cannot separate by a snapshot: a report and the
   immediate (queued) dial preparations it spawns.  Every label has its own observations;
   the per-SKI views are taken after the group.  Views are packed into one number:
   trusted + 2*err + 4*running + 8*pstate + 128*(counter+1 | 0) + 1024*(conn id+1 | 0). *)
Definition unpack_view (p : N) : sview :=
  mkV (N.testbit p 0) ((p / 8) mod 16) (N.testbit p 1)
      (let r := p / 1024 in if N.eqb r 0 then None else Some (r - 1))
      (let c := (p / 128) mod 8 in if N.eqb c 0 then None else Some (c - 1))
      (N.testbit p 2).

Record c10_step := mkStep { st_group : list (label * list obs); st_views : list N }.
Record c10_case := mkCase {
  cc_started : bool;
  cc_n : N;                        (* number of SKIs with a record: 0 .. n-1 *)
  cc_localgt : list bool;          (* local SKI > SKI i *)
  cc_steps : list c10_step         (* labels, implementation's observations, views of SKIs 0.. after it *)
}.

Definition views_fn (l : list sview) : N -> sview :=
  fun k => nth (N.to_nat k) l (view_of sk0).
Definition univ_of (n : N) : list N := map N.of_nat (seq 0 (N.to_nat n)).

Section Check.
Variable T : cfg.   (* table part; universe and order are taken from the case *)

Definition cfg_of (c : c10_case) : cfg :=
  mkCfg (univ_of (cc_n c)) (fun k => nth (N.to_nat k) (cc_localgt c) false)
        (c_maxc T) (c_flag T) (c_gcoord T) (c_gprep T) (c_ginit T) (c_grean T) (c_stale T) (c_regcheck T).

(* model side of a group: run the labels, compare each label's observations *)
Fixpoint run_group (C : cfg) (h : hub) (grp : list (label * list obs)) : hub * bool :=
  match grp with
  | [] => (h, true)
  | (l, o) :: r =>
      let '(h1, om) := hstep C h l in
      let '(h2, ok) := run_group C h1 r in
      (h2, list_eqb obs_beq om o && ok)
  end.

(* monitor side of a group: every label with its own observations, the views around the group *)
Fixpoint mon_group (g : ghost) (prev cur : N -> sview) (grp : list (label * list obs)) : codes * ghost :=
  match grp with
  | [] => ([], g)
  | (l, o) :: r =>
      let '(cs, g2) := mon_group (gstep g l) prev cur r in
      (mon_step g prev cur l o ++ cs, g2)
  end.

Fixpoint check_steps (C : cfg) (h : hub) (g : ghost) (prev : N -> sview) (l : list c10_step) : codes :=
  match l with
  | [] => []
  | s :: r =>
      let '(h1, ok) := run_group C h (st_group s) in
      let iviews := map unpack_view (st_views s) in
      let mviews := map (fun k => view_of (get h1 k)) (firstn (length iviews) (c_univ C)) in
      let cur := views_fn iviews in
      let '(mc, g1) := mon_group g prev cur (st_group s) in
      (if ok && list_eqb sview_beq mviews iviews then [] else [1])
      ++ mc ++ check_steps C h1 g1 cur r
  end.

Definition dedup_codes (l : codes) : codes :=
  fold_right (fun c acc => if existsb (N.eqb c) acc then acc else c :: acc) [] l.

Definition check_c10_with (c : c10_case) : codes :=
  let C := cfg_of c in
  dedup_codes (check_steps C (hub0 (cc_started c)) ghost0 (fun _ => view_of sk0) (cc_steps c)).
End Check.

(* ---- instantiated with the tables regenerated from /repo/hub ---- *)
From ShipGen Require Import HubTable.
Definition table_cfg : cfg :=
  mkCfg [] (fun _ => false) hub_max_attempt hub_shutdown_flag hub_guard_coordinate
        hub_guard_prepare hub_guard_initiate hub_guard_reannounce
        hub_stale_attempt_reannounces hub_register_rechecks.
Definition with_table (u : list N) (lgt : N -> bool) : cfg :=
  mkCfg u lgt hub_max_attempt hub_shutdown_flag hub_guard_coordinate
        hub_guard_prepare hub_guard_initiate hub_guard_reannounce
        hub_stale_attempt_reannounces hub_register_rechecks.
Definition check_c10 (c : c10_case) : codes := check_c10_with table_cfg c.
