(* CertProofs.v — proofs about Cert.v (C02, peer identity). *)
From Ship Require Import Base Ski SkiProofs Cert.
From ShipGen Require Import SkiTable CertTable.

(* ================= hex ================= *)
Lemma hexdigit_inj a b : hexdigit a = hexdigit b -> a = b.
Proof.
  unfold hexdigit. intros H.
  destruct (a <? 10) eqn:Ea; destruct (b <? 10) eqn:Eb;
    try apply N.ltb_lt in Ea; try apply N.ltb_ge in Ea;
    try apply N.ltb_lt in Eb; try apply N.ltb_ge in Eb; lia.
Qed.

Lemma hexdigit_ge48 n : 48 <= hexdigit n.
Proof. unfold hexdigit. destruct (n <? 10); lia. Qed.

Lemma hexdigit_not_upper n : is_upper (hexdigit n) = false.
Proof.
  unfold hexdigit, is_upper. destruct (n <? 10) eqn:E.
  - apply N.ltb_lt in E. apply andb_false_iff. left. apply N.leb_gt. lia.
  - apply N.ltb_ge in E. apply andb_false_iff. right. apply N.leb_gt. lia.
Qed.

Lemma hexdigit_lower n : n < 16 -> is_lower_hex (hexdigit n) = true.
Proof.
  intros Hn. unfold hexdigit, is_lower_hex. destruct (n <? 10) eqn:E.
  - apply N.ltb_lt in E. apply orb_true_iff. left.
    apply andb_true_iff. split; apply N.leb_le; lia.
  - apply N.ltb_ge in E. apply orb_true_iff. right.
    apply andb_true_iff. split; apply N.leb_le; lia.
Qed.

Lemma hex_inj a : forall b, hex a = hex b -> a = b.
Proof.
  induction a as [|x a IH]; intros [|y b] H; cbn [hex] in H; try discriminate; [reflexivity|].
  inversion H as [[H1 H2 H3]].
  apply hexdigit_inj in H1. apply hexdigit_inj in H2.
  f_equal; [|apply IH; exact H3].
  rewrite (N.div_mod x 16) by lia. rewrite (N.div_mod y 16) by lia. rewrite H1, H2. reflexivity.
Qed.

Lemma hex_length l : length (hex l) = (2 * length l)%nat.
Proof. induction l as [|x l IH]; cbn [hex length]; [reflexivity|]. rewrite IH. lia. Qed.

Lemma hex_lower l : forallb is_byte l = true -> forallb is_lower_hex (hex l) = true.
Proof.
  induction l as [|x l IH]; cbn [hex forallb]; [reflexivity|].
  intros H. apply andb_true_iff in H as [Hx Hl]. unfold is_byte in Hx. apply N.ltb_lt in Hx.
  rewrite !hexdigit_lower, IH; [reflexivity|exact Hl| |].
  - apply N.mod_lt. lia.
  - apply N.div_lt_upper_bound; lia.
Qed.

(* no stripped character of util.NormalizeSKI (regenerated table) is a hex digit or above *)
Lemma stripped_below_48 : forallb (fun c => c <? 48) stripped_chars = true.
Proof. vm_compute. reflexivity. Qed.

Lemma hexdigit_not_stripped n : stripped (hexdigit n) = false.
Proof.
  unfold stripped. destruct (existsb (N.eqb (hexdigit n)) stripped_chars) eqn:E; [|reflexivity].
  apply existsb_exists in E as [c [Hin Heq]]. apply N.eqb_eq in Heq.
  pose proof stripped_below_48 as H. rewrite forallb_forall in H. specialize (H c Hin).
  apply N.ltb_lt in H. pose proof (hexdigit_ge48 n). lia.
Qed.

Lemma lower_hexdigit n : lower (hexdigit n) = hexdigit n.
Proof. unfold lower. rewrite hexdigit_not_upper. reflexivity. Qed.

(* api.NewServiceDetails / util.NormalizeSKI leaves a "%0x" string alone *)
Lemma normalize_hex l : normalize (hex l) = hex l.
Proof.
  rewrite normalize_eq. induction l as [|x l IH]; cbn [hex strip filter map]; [reflexivity|].
  unfold strip in *. cbn [filter]. rewrite !hexdigit_not_stripped. cbn [negb map].
  rewrite !lower_hexdigit, IH. reflexivity.
Qed.

(* ================= the code's configuration ================= *)
Lemma code_structure_ok : structure_ok = true.
Proof. vm_compute. reflexivity. Qed.

(* one named obligation per setting, so that a failing build names the line of the code that moved *)
Lemma code_min_version_at_least_tls12 : (tls12 <=? cf_min_version code_config) = true.
Proof. vm_compute. reflexivity. Qed.          (* tls.Config.MinVersion in startWebsocketServer *)
Lemma code_requires_ship_subprotocol :
  cf_sub_check code_config && bytes_eqb (cf_required_proto code_config) ship_proto = true.
Proof. vm_compute. reflexivity. Qed.          (* conn.Subprotocol() != api.ShipWebsocketSubProtocol in ServeHTTP *)
Lemma code_ski_length_is_20 : (cf_ski_len code_config =? 20) = true.
Proof. vm_compute. reflexivity. Qed.          (* len(subjectKeyId) != 20 in cert.SkiFromCertificate *)
Lemma code_ski_bound_to_key : cf_checks_key code_config = true.
Proof. vm_compute. reflexivity. Qed.          (* comparison with sha1.Sum of the public key in cert.SkiFromCertificate *)
Lemma code_outbound_compares_dialled_ski : cf_out_compares code_config = true.
Proof. vm_compute. reflexivity. Qed.          (* remoteSKI != remoteService.SKI() in connectFoundService *)

Lemma code_config_ok : config_ok code_config = true.
Proof.
  unfold config_ok.
  rewrite code_min_version_at_least_tls12, code_ski_length_is_20, code_ski_bound_to_key,
    code_outbound_compares_dialled_ski.
  pose proof code_requires_ship_subprotocol as H. apply andb_true_iff in H as [H1 H2].
  rewrite H1, H2. reflexivity.
Qed.

(* for "generator certificates pass": additionally the client-auth mode asks for a
   certificate without verifying a chain, "ship" is the only server sub-protocol, and the
   minimum version is not above TLS 1.2 *)
Definition config_gen_ok (cf : config) : bool :=
  config_ok cf && ((cf_client_auth cf =? 1) || (cf_client_auth cf =? 2))
  && list_eqb bytes_eqb (cf_server_protos cf) [ship_proto]
  && (cf_min_version cf <=? tls12).

Lemma code_config_gen_ok : config_gen_ok code_config = true.
Proof. vm_compute. reflexivity. Qed.

(* the weaker setting: everything but the key comparison in SkiFromCertificate *)
Definition config_ok_but_key (cf : config) : bool :=
  (tls12 <=? cf_min_version cf)
  && cf_sub_check cf && bytes_eqb (cf_required_proto cf) ship_proto
  && (cf_ski_len cf =? 20)
  && cf_out_compares cf.

Lemma config_ok_split cf : config_ok cf = true <-> config_ok_but_key cf = true /\ cf_checks_key cf = true.
Proof.
  unfold config_ok, config_ok_but_key. rewrite !andb_true_iff. tauto.
Qed.

Lemma list_eqb_bytes_eq a : forall b, list_eqb bytes_eqb a b = true -> a = b.
Proof.
  induction a as [|x a IH]; intros [|y b] H; cbn [list_eqb] in H; try discriminate; [reflexivity|].
  apply andb_true_iff in H as [H1 H2]. apply bytes_eqb_eq in H1. apply IH in H2. congruence.
Qed.

Section WithSha1.
Variable sha1 : bytes -> bytes.

Notation ski_from_cert := (ski_from_cert sha1).
Notation accept_inbound := (accept_inbound sha1).
Notation accept_outbound := (accept_outbound sha1).
Notation gen_cert := (gen_cert sha1).

(* ================= SkiFromCertificate ================= *)
Lemma ski_from_cert_some cf c k :
  ski_from_cert cf c = Some k ->
  exists s, ski_ext c = Some s /\ k = hex s /\ N.of_nat (length s) = cf_ski_len cf /\
            (cf_checks_key cf = true -> s = sha1 (pubkey c)).
Proof.
  unfold Cert.ski_from_cert. destruct (ski_ext c) as [s|]; [|discriminate].
  destruct (N.of_nat (length s) =? cf_ski_len cf) eqn:El; cbn [negb]; [|discriminate].
  destruct (cf_checks_key cf) eqn:Ek; cbn [andb].
  - destruct (bytes_eqb s (sha1 (pubkey c))) eqn:Eb; cbn [negb]; [|discriminate].
    intros H. inversion H. exists s. apply N.eqb_eq in El. apply bytes_eqb_eq in Eb. auto.
  - intros H. inversion H. exists s. apply N.eqb_eq in El.
    repeat split; auto. discriminate.
Qed.

Lemma ski_from_cert_length_only cf c s :
  cf_checks_key cf = false -> ski_ext c = Some s -> N.of_nat (length s) = cf_ski_len cf ->
  ski_from_cert cf c = Some (hex s).
Proof.
  intros Hk Hs Hl. unfold Cert.ski_from_cert. rewrite Hs, Hl, N.eqb_refl, Hk. reflexivity.
Qed.

Lemma ski_from_cert_gen cf pub :
  N.of_nat (length (sha1 pub)) = cf_ski_len cf ->
  ski_from_cert cf (gen_cert pub) = Some (hex (sha1 pub)).
Proof.
  intros Hl. unfold Cert.ski_from_cert, Cert.gen_cert. cbn [ski_ext pubkey].
  rewrite Hl, N.eqb_refl, bytes_eqb_refl. cbn [negb]. rewrite andb_false_r. reflexivity.
Qed.

(* ================= inbound ================= *)
Lemma tls_server_some cf ver certs cs :
  tls_server sha1 cf ver certs = Some cs ->
  cf_min_version cf <= ver /\ (cs = certs \/ cs = []).
Proof.
  unfold tls_server. destruct (ver <? cf_min_version cf) eqn:Ev; [discriminate|].
  apply N.ltb_ge in Ev.
  destruct ((ver <? tls12) && cf_suites_tls12_only cf); [discriminate|].
  destruct (cf_client_auth cf =? 0); [intros H; inversion H; auto|].
  destruct (((cf_client_auth cf =? 2) || (cf_client_auth cf =? 4)) && is_nil certs); [discriminate|].
  destruct ((3 <=? cf_client_auth cf) && negb (is_nil certs)); [discriminate|].
  destruct (cf_verify_peer cf && negb (verify_peer sha1 cf certs)); [discriminate|].
  intros H; inversion H; auto.
Qed.

Lemma select_subprotocol_in server offered sp :
  select_subprotocol server offered = sp -> sp <> [] -> In sp offered.
Proof.
  unfold select_subprotocol.
  destruct (filter (fun sp0 => existsb (bytes_eqb sp0) offered) server) as [|x r] eqn:E.
  - intros <- H. contradiction H. reflexivity.
  - intros <- _. assert (Hin : In x (x :: r)) by (left; reflexivity).
    rewrite <- E in Hin. apply filter_In in Hin as [_ Hex].
    apply existsb_exists in Hex as [y [Hy Heq]]. apply bytes_eqb_eq in Heq. subst y. exact Hy.
Qed.

Lemma serve_http_accept cf offered certs k :
  cf_sub_check cf = true -> cf_required_proto cf = ship_proto ->
  serve_http sha1 cf offered certs = Accept k ->
  In ship_proto offered /\
  exists c rest, certs = c :: rest /\ exists k0, ski_from_cert cf c = Some k0 /\ k = normalize k0.
Proof.
  intros Hsub Hreq. unfold serve_http. rewrite Hsub, Hreq. cbn [andb].
  destruct (bytes_eqb (select_subprotocol (cf_server_protos cf) offered) ship_proto) eqn:Es;
    cbn [negb]; [|discriminate].
  apply bytes_eqb_eq in Es.
  destruct certs as [|c rest]; [discriminate|].
  destruct (Cert.ski_from_cert sha1 cf c) as [k0|] eqn:Ek; [|discriminate].
  intros H. inversion H. split.
  - apply (select_subprotocol_in _ _ _ Es). discriminate.
  - exists c, rest. split; [reflexivity|]. exists k0. auto.
Qed.

(* (b) without the last conjunct: holds for the length-only SkiFromCertificate too *)
Lemma inbound_sound_but_key cf ver offered certs k :
  config_ok_but_key cf = true ->
  accept_inbound cf ver offered certs = Accept k ->
  tls12 <= ver /\ In ship_proto offered /\
  exists c rest s, certs = c :: rest /\ ski_ext c = Some s /\ k = hex s /\ length k = 40%nat /\
                   (cf_checks_key cf = true -> s = sha1 (pubkey c)).
Proof.
  intros Hok. unfold config_ok_but_key in Hok. rewrite !andb_true_iff in Hok.
  destruct Hok as [[[[Hmin Hsub] Hreq] Hlen] _].
  apply N.leb_le in Hmin. apply bytes_eqb_eq in Hreq. apply N.eqb_eq in Hlen.
  unfold Cert.accept_inbound. destruct (tls_server sha1 cf ver certs) as [cs|] eqn:Et; [|discriminate].
  apply tls_server_some in Et as [Hver Hcs]. intros Hs.
  apply (serve_http_accept cf offered cs k Hsub Hreq) in Hs as [Hin [c [rest [Hc [k0 [Hk0 Hk]]]]]].
  split; [lia|]. split; [exact Hin|].
  destruct Hcs as [Hcs|Hcs]; [|subst cs; discriminate].
  subst cs. apply ski_from_cert_some in Hk0 as [s [Hs [Hk0 [Hl Hb]]]].
  exists c, rest, s. subst k0. rewrite normalize_hex in Hk. subst k.
  repeat split; auto. rewrite hex_length. rewrite Hlen in Hl. lia.
Qed.

(* (b) *)
Lemma inbound_sound cf ver offered certs k :
  config_ok cf = true ->
  accept_inbound cf ver offered certs = Accept k ->
  tls12 <= ver /\ In ship_proto offered /\
  exists c rest s, certs = c :: rest /\ ski_ext c = Some s /\ k = hex s /\ length k = 40%nat /\
                   s = sha1 (pubkey c).
Proof.
  intros Hok H. apply config_ok_split in Hok as [Hw Hk].
  destruct (inbound_sound_but_key cf ver offered certs k Hw H) as [H1 [H2 [c [rest [s [H3 [H4 [H5 [H6 H7]]]]]]]]].
  split; [exact H1|]. split; [exact H2|]. exists c, rest, s. repeat split; auto.
Qed.

(* the refusals, read off (b) *)
Lemma inbound_refusals cf ver offered certs :
  config_ok_but_key cf = true ->
  (ver < tls12 \/ ~ In ship_proto offered \/ certs = [] \/
   (exists c rest, certs = c :: rest /\
      forall s, ski_ext c = Some s -> length s <> 20%nat)) ->
  exists st, accept_inbound cf ver offered certs = Refuse st.
Proof.
  intros Hok Hbad. destruct (accept_inbound cf ver offered certs) as [st|k] eqn:E; [exists st; reflexivity|].
  exfalso. destruct (inbound_sound_but_key cf ver offered certs k Hok E)
    as [H1 [H2 [c [rest [s [H3 [H4 [H5 [H6 _]]]]]]]]].
  destruct Hbad as [Hb|[Hb|[Hb|[c' [rest' [Hc Hb]]]]]].
  - lia.
  - contradiction.
  - subst certs. discriminate.
  - rewrite H3 in Hc. inversion Hc. subst c' rest'. apply (Hb s H4).
    subst k. rewrite hex_length in H6. lia.
Qed.

(* ================= outbound ================= *)
Lemma outbound_sound_but_key cf dialled certs :
  config_ok_but_key cf = true ->
  accept_outbound cf dialled certs = OAccept ->
  exists c rest s, certs = c :: rest /\ ski_ext c = Some s /\ hex s = dialled /\ length s = 20%nat /\
                   (cf_checks_key cf = true -> s = sha1 (pubkey c)).
Proof.
  intros Hok. unfold config_ok_but_key in Hok. rewrite !andb_true_iff in Hok.
  destruct Hok as [[[[_ _] _] Hlen] Hcmp]. apply N.eqb_eq in Hlen.
  unfold Cert.accept_outbound. destruct certs as [|c rest]; [discriminate|].
  destruct (ski_ext c) as [s|] eqn:Es; [|discriminate].
  destruct (Cert.ski_from_cert sha1 cf c) as [k0|] eqn:Ek; [|discriminate].
  rewrite Hcmp. cbn [andb].
  destruct (bytes_eqb (hex s) dialled) eqn:Ed; cbn [negb]; [|discriminate].
  intros _. apply bytes_eqb_eq in Ed.
  apply ski_from_cert_some in Ek as [s' [Hs' [_ [Hl Hb]]]].
  rewrite Es in Hs'. inversion Hs'. subst s'.
  exists c, rest, s. repeat split; auto. rewrite Hlen in Hl. lia.
Qed.

Lemma outbound_sound cf dialled certs :
  config_ok cf = true ->
  accept_outbound cf dialled certs = OAccept ->
  exists c rest s, certs = c :: rest /\ ski_ext c = Some s /\ hex s = dialled /\ length s = 20%nat /\
                   s = sha1 (pubkey c).
Proof.
  intros Hok H. apply config_ok_split in Hok as [Hw Hk].
  destruct (outbound_sound_but_key cf dialled certs Hw H) as [c [rest [s [H3 [H4 [H5 [H6 H7]]]]]]].
  exists c, rest, s. repeat split; auto.
Qed.

Lemma outbound_refuse_sends_nothing cf dialled certs n :
  accept_outbound cf dialled certs = ORefuse n -> n = 0.
Proof.
  unfold Cert.accept_outbound. destruct certs as [|c rest]; [intros H; inversion H; reflexivity|].
  destruct (ski_ext c) as [s|]; [|intros H; inversion H; reflexivity].
  destruct (Cert.ski_from_cert sha1 cf c); [|intros H; inversion H; reflexivity].
  destruct (cf_out_compares cf && negb (bytes_eqb (hex s) dialled)); intros H; inversion H; reflexivity.
Qed.

(* a mismatch is refused, whatever the certificate *)
Lemma outbound_mismatch_refused cf dialled c rest s :
  config_ok_but_key cf = true -> ski_ext c = Some s -> hex s <> dialled ->
  accept_outbound cf dialled (c :: rest) = ORefuse 0.
Proof.
  intros Hok Hs Hne. destruct (accept_outbound cf dialled (c :: rest)) as [n|] eqn:E.
  - apply outbound_refuse_sends_nothing in E as ->. reflexivity.
  - exfalso. destruct (outbound_sound_but_key cf dialled (c :: rest) Hok E)
      as [c' [rest' [s' [H3 [H4 [H5 _]]]]]].
    inversion H3. subst c' rest'. rewrite Hs in H4. inversion H4. subst s'. contradiction.
Qed.

(* a certificate carrying somebody else's SKI is refused, whatever else is right *)
Lemma inbound_foreign_refused cf ver offered c rest s :
  config_ok cf = true -> ski_ext c = Some s -> s <> sha1 (pubkey c) ->
  exists st, accept_inbound cf ver offered (c :: rest) = Refuse st.
Proof.
  intros Hok Hs Hne.
  destruct (accept_inbound cf ver offered (c :: rest)) as [st|k] eqn:E; [exists st; reflexivity|].
  exfalso. destruct (inbound_sound cf ver offered (c :: rest) k Hok E)
    as [_ [_ [c' [rest' [s' [H3 [H4 [_ [_ H7]]]]]]]]].
  inversion H3. subst c' rest'. rewrite Hs in H4. inversion H4. subst s'. contradiction.
Qed.

Lemma outbound_mismatch_nothing_sent cf dialled certs :
  config_ok cf = true ->
  (forall c rest s, certs = c :: rest -> ski_ext c = Some s -> hex s <> dialled) ->
  accept_outbound cf dialled certs = ORefuse 0.
Proof.
  intros Hok Hne.
  destruct (accept_outbound cf dialled certs) as [n|] eqn:E.
  - rewrite (outbound_refuse_sends_nothing cf dialled certs n E). reflexivity.
  - exfalso. destruct (outbound_sound cf dialled certs Hok E)
      as [c [rest [s [H3 [H4 [H5 _]]]]]]. exact (Hne c rest s H3 H4 H5).
Qed.

Lemma code_config_ok_but_key : config_ok_but_key code_config = true.
Proof. exact (proj1 (proj1 (config_ok_split _) code_config_ok)). Qed.

(* ================= generator certificates ================= *)
Section WithSpec.
Hypothesis sha1_ok : sha1_spec sha1.

Lemma sha1_len20 x : N.of_nat (length (sha1 x)) = 20.
Proof. destruct (sha1_ok x) as [H _]. rewrite H. reflexivity. Qed.

Lemma gen_ski_format pub :
  length (hex (sha1 pub)) = 40%nat /\ forallb is_lower_hex (hex (sha1 pub)) = true.
Proof.
  destruct (sha1_ok pub) as [H1 H2]. split.
  - rewrite hex_length, H1. reflexivity.
  - apply hex_lower. exact H2.
Qed.

Lemma select_single offered :
  In ship_proto offered -> select_subprotocol [ship_proto] offered = ship_proto.
Proof.
  intros Hin. unfold select_subprotocol. cbn [filter].
  assert (E : existsb (bytes_eqb ship_proto) offered = true).
  { apply existsb_exists. exists ship_proto. split; [exact Hin|apply bytes_eqb_refl]. }
  rewrite E. reflexivity.
Qed.

(* (d) *)
Lemma gen_accepted_inbound cf ver offered pub :
  config_gen_ok cf = true -> tls12 <= ver -> In ship_proto offered ->
  accept_inbound cf ver offered [gen_cert pub] = Accept (hex (sha1 pub)).
Proof.
  intros Hok Hver Hin. unfold config_gen_ok in Hok. rewrite !andb_true_iff in Hok.
  destruct Hok as [[[Hok Hauth] Hprotos] Hmin].
  unfold config_ok in Hok. rewrite !andb_true_iff in Hok.
  destruct Hok as [[[[[_ Hsub] Hreq] Hlen] _] _].
  apply N.leb_le in Hmin. apply bytes_eqb_eq in Hreq. apply N.eqb_eq in Hlen.
  apply list_eqb_bytes_eq in Hprotos.
  assert (Hski : ski_from_cert cf (gen_cert pub) = Some (hex (sha1 pub))).
  { apply ski_from_cert_gen. rewrite Hlen. apply sha1_len20. }
  unfold Cert.accept_inbound, tls_server.
  assert (Ev : ver <? cf_min_version cf = false) by (apply N.ltb_ge; lia). rewrite Ev.
  assert (Ev12 : ver <? tls12 = false) by (apply N.ltb_ge; lia). rewrite Ev12. cbn [andb].
  assert (Ea : (cf_client_auth cf =? 0) = false /\ (3 <=? cf_client_auth cf) = false).
  { apply orb_true_iff in Hauth as [Ha|Ha]; apply N.eqb_eq in Ha; rewrite Ha; split; reflexivity. }
  destruct Ea as [Ea0 Ea3]. rewrite Ea0, Ea3. cbn [is_nil andb negb]. rewrite andb_false_r. cbn [andb].
  assert (Evp : verify_peer sha1 cf [gen_cert pub] = true).
  { unfold verify_peer. cbn [existsb]. rewrite Hski. reflexivity. }
  rewrite Evp. cbn [negb]. rewrite andb_false_r.
  unfold serve_http. rewrite Hprotos, Hreq, (select_single offered Hin), bytes_eqb_refl.
  cbn [negb]. rewrite andb_false_r. rewrite Hski, normalize_hex. reflexivity.
Qed.

Lemma gen_accepted_outbound cf pub :
  config_gen_ok cf = true ->
  accept_outbound cf (hex (sha1 pub)) [gen_cert pub] = OAccept.
Proof.
  intros Hok. unfold config_gen_ok in Hok. rewrite !andb_true_iff in Hok.
  destruct Hok as [[[Hok _] _] _].
  unfold config_ok in Hok. rewrite !andb_true_iff in Hok.
  destruct Hok as [[[[[_ _] _] Hlen] _] _]. apply N.eqb_eq in Hlen.
  unfold Cert.accept_outbound. rewrite ski_from_cert_gen by (rewrite Hlen; apply sha1_len20).
  cbn [Cert.gen_cert ski_ext]. rewrite bytes_eqb_refl. cbn [negb]. rewrite andb_false_r. reflexivity.
Qed.

(* ================= the monitor holds of the model's output, for all inputs ================= *)
Lemma first_is_generated_eq c rest :
  first_is_generated sha1 (c :: rest) = true -> ski_ext c = Some (sha1 (pubkey c)).
Proof.
  unfold first_is_generated. destruct (ski_ext c) as [s|]; cbn [option_eqb]; [|discriminate].
  intros H. apply bytes_eqb_eq in H. congruence.
Qed.

Lemma cert_eta c : c = {| ski_ext := ski_ext c; pubkey := pubkey c |}.
Proof. destruct c. reflexivity. Qed.

Lemma inbound_monitor cf ver offered certs :
  config_gen_ok cf = true ->
  mon_inbound sha1 ver offered certs (accept_inbound cf ver offered certs) = [].
Proof.
  intros Hgen. assert (Hok : config_ok cf = true).
  { unfold config_gen_ok in Hgen. rewrite !andb_true_iff in Hgen. tauto. }
  destruct (accept_inbound cf ver offered certs) as [st|k] eqn:E; unfold mon_inbound.
  - (* refused: not a lone generator certificate under acceptable conditions *)
    destruct ((tls12 <=? ver) && existsb (bytes_eqb ship_proto) offered
              && Nat.eqb (length certs) 1 && first_is_generated sha1 certs) eqn:C; [|reflexivity].
    exfalso. rewrite !andb_true_iff in C. destruct C as [[[Cv Co] Cl] Cg].
    apply N.leb_le in Cv. apply existsb_exists in Co as [sp [Hsp Heq]].
    apply bytes_eqb_eq in Heq. subst sp.
    destruct certs as [|c [|c2 rest]]; try discriminate.
    apply first_is_generated_eq in Cg.
    assert (Hc : c = gen_cert (pubkey c)).
    { unfold Cert.gen_cert. rewrite <- Cg. apply cert_eta. }
    rewrite Hc in E. rewrite (gen_accepted_inbound cf ver offered (pubkey c) Hgen Cv Hsp) in E.
    discriminate.
  - destruct (inbound_sound cf ver offered certs k Hok E) as [H1 [H2 [c [rest [s [H3 [H4 [H5 [H6 H7]]]]]]]]].
    subst certs. rewrite H4.
    assert (E1 : (tls12 <=? ver) = true) by (apply N.leb_le; exact H1). rewrite E1.
    assert (E2 : existsb (bytes_eqb ship_proto) offered = true).
    { apply existsb_exists. exists ship_proto. split; [exact H2|apply bytes_eqb_refl]. }
    rewrite E2. cbn [app].
    assert (E3 : (N.of_nat (length s) =? 20) = true).
    { apply N.eqb_eq. subst k. rewrite hex_length in H6. lia. }
    rewrite E3. cbn [negb]. subst k. rewrite bytes_eqb_refl. cbn [negb].
    rewrite <- H7, bytes_eqb_refl. reflexivity.
Qed.

Lemma outbound_monitor cf dialled certs :
  config_gen_ok cf = true ->
  mon_outbound sha1 dialled certs (accept_outbound cf dialled certs) = [].
Proof.
  intros Hgen. assert (Hok : config_ok cf = true).
  { unfold config_gen_ok in Hgen. rewrite !andb_true_iff in Hgen. tauto. }
  destruct (accept_outbound cf dialled certs) as [n|] eqn:E; unfold mon_outbound.
  - pose proof (outbound_refuse_sends_nothing cf dialled certs n E) as ->. cbn [N.eqb app].
    destruct (Nat.eqb (length certs) 1 && first_is_generated sha1 certs
              && option_eqb bytes_eqb (option_map hex (first_ski certs)) (Some dialled)) eqn:C; [|reflexivity].
    exfalso. rewrite !andb_true_iff in C. destruct C as [[Cl Cg] Cd].
    destruct certs as [|c [|c2 rest]]; try discriminate.
    apply first_is_generated_eq in Cg. cbn [first_ski] in Cd. rewrite Cg in Cd.
    cbn [option_map option_eqb] in Cd. apply bytes_eqb_eq in Cd. subst dialled.
    assert (Hc : c = gen_cert (pubkey c)).
    { unfold Cert.gen_cert. rewrite <- Cg. apply cert_eta. }
    rewrite Hc in E. cbn [Cert.gen_cert pubkey] in E.
    rewrite (gen_accepted_outbound cf (pubkey c) Hgen) in E. discriminate.
  - destruct (outbound_sound cf dialled certs Hok E) as [c [rest [s [H3 [H4 [H5 [H6 H7]]]]]]].
    subst certs. rewrite H4, H5, bytes_eqb_refl. cbn [negb].
    rewrite <- H7, bytes_eqb_refl. reflexivity.
Qed.

End WithSpec.

(* ================= no slack: the length check alone does not bind the SKI ================= *)
(* With SkiFromCertificate checking only the length (the pinned tree), ANY 20-byte SKI can be
   claimed with ANY key, inbound and outbound. *)
Lemma length_only_accepts_any_ski cf ver offered ski pub :
  config_ok_but_key cf = true -> cf_checks_key cf = false ->
  ((cf_client_auth cf =? 1) || (cf_client_auth cf =? 2)) = true ->
  cf_server_protos cf = [ship_proto] -> cf_min_version cf <= ver -> tls12 <= ver -> In ship_proto offered ->
  length ski = 20%nat ->
  accept_inbound cf ver offered [{| ski_ext := Some ski; pubkey := pub |}] = Accept (hex ski)
  /\ accept_outbound cf (hex ski) [{| ski_ext := Some ski; pubkey := pub |}] = OAccept.
Proof.
  intros Hok Hk Hauth Hprotos Hver Hver12 Hin Hl.
  unfold config_ok_but_key in Hok. rewrite !andb_true_iff in Hok.
  destruct Hok as [[[[_ Hsub] Hreq] Hlen] Hcmp].
  apply bytes_eqb_eq in Hreq. apply N.eqb_eq in Hlen.
  set (c := {| ski_ext := Some ski; pubkey := pub |}).
  assert (Hski : ski_from_cert cf c = Some (hex ski)).
  { apply ski_from_cert_length_only; [exact Hk|reflexivity|]. rewrite Hl, Hlen. reflexivity. }
  split.
  - unfold Cert.accept_inbound, tls_server.
    assert (Ev : ver <? cf_min_version cf = false) by (apply N.ltb_ge; lia). rewrite Ev.
    assert (Ev12 : ver <? tls12 = false) by (apply N.ltb_ge; lia). rewrite Ev12. cbn [andb].
    assert (Ea : (cf_client_auth cf =? 0) = false /\ (3 <=? cf_client_auth cf) = false).
    { apply orb_true_iff in Hauth as [Ha|Ha]; apply N.eqb_eq in Ha; rewrite Ha; split; reflexivity. }
    destruct Ea as [Ea0 Ea3]. rewrite Ea0, Ea3. cbn [is_nil andb negb]. rewrite andb_false_r. cbn [andb].
    assert (Evp : verify_peer sha1 cf [c] = true).
    { unfold verify_peer. cbn [existsb]. rewrite Hski. reflexivity. }
    rewrite Evp. cbn [negb]. rewrite andb_false_r.
    unfold serve_http. rewrite Hprotos, Hreq.
    assert (Esel : select_subprotocol [ship_proto] offered = ship_proto).
    { unfold select_subprotocol. cbn [filter].
      assert (E : existsb (bytes_eqb ship_proto) offered = true).
      { apply existsb_exists. exists ship_proto. split; [exact Hin|apply bytes_eqb_refl]. }
      rewrite E. reflexivity. }
    rewrite Esel, bytes_eqb_refl. cbn [negb]. rewrite andb_false_r. rewrite Hski, normalize_hex. reflexivity.
  - unfold Cert.accept_outbound. rewrite Hski. cbn [c ski_ext]. rewrite bytes_eqb_refl. cbn [negb].
    rewrite andb_false_r. reflexivity.
Qed.

(* a 20-byte string different from a given one *)
Definition other20 (d : bytes) : bytes :=
  if bytes_eqb d (repeat 0 20) then repeat 1 20 else repeat 0 20.
Lemma other20_spec d : length (other20 d) = 20%nat /\ other20 d <> d.
Proof.
  unfold other20. destruct (bytes_eqb d (repeat 0 20)) eqn:E.
  - apply bytes_eqb_eq in E. subst d. split; [reflexivity|discriminate].
  - split; [reflexivity|]. intros H. rewrite <- H in E. rewrite bytes_eqb_refl in E. discriminate.
Qed.

End WithSha1.

(* the pinned tree's configuration: code_config with the key comparison switched off *)
Definition pinned_config : config := {|
  cf_min_version := cf_min_version code_config; cf_client_auth := cf_client_auth code_config;
  cf_suites_tls12_only := cf_suites_tls12_only code_config;
  cf_verify_peer := cf_verify_peer code_config; cf_server_protos := cf_server_protos code_config;
  cf_required_proto := cf_required_proto code_config; cf_sub_check := cf_sub_check code_config;
  cf_ski_len := cf_ski_len code_config; cf_checks_key := false;
  cf_out_compares := cf_out_compares code_config |}.

Lemma pinned_refuted (sha1 : bytes -> bytes) :
  exists ver offered certs k,
    accept_inbound sha1 pinned_config ver offered certs = Accept k /\
    exists c rest s, certs = c :: rest /\ ski_ext c = Some s /\ s <> sha1 (pubkey c) /\
                     accept_outbound sha1 pinned_config (hex s) certs = OAccept.
Proof.
  destruct (other20_spec (sha1 [])) as [Hl Hne].
  set (s := other20 (sha1 [])) in *.
  assert (H1 : config_ok_but_key pinned_config = true) by (vm_compute; reflexivity).
  assert (H2 : cf_checks_key pinned_config = false) by reflexivity.
  assert (H3 : ((cf_client_auth pinned_config =? 1) || (cf_client_auth pinned_config =? 2)) = true)
    by (vm_compute; reflexivity).
  assert (H4 : cf_server_protos pinned_config = [ship_proto]) by (vm_compute; reflexivity).
  assert (H5 : cf_min_version pinned_config <= tls12) by (vm_compute; discriminate).
  assert (H6 : In ship_proto [ship_proto]) by (left; reflexivity).
  assert (H7 : tls12 <= tls12) by lia.
  destruct (length_only_accepts_any_ski sha1 pinned_config tls12 [ship_proto] s [] H1 H2 H3 H4 H5 H7 H6 Hl)
    as [Hin Hout].
  exists tls12, [ship_proto], [{| ski_ext := Some s; pubkey := [] |}], (hex s).
  split; [exact Hin|].
  exists {| ski_ext := Some s; pubkey := [] |}, [], s.
  repeat split; auto.
Qed.

(* hypotheses of the theorems are satisfiable by a non-trivial state: a 20-byte "digest"
   function, a generator certificate for a 65-byte key, TLS 1.3, two offered sub-protocols *)
Definition toy_sha1 (x : bytes) : bytes := firstn 20 (map (fun b => b mod 256) x ++ repeat 7 20).

Lemma in_firstn {A} (x : A) n : forall l, In x (firstn n l) -> In x l.
Proof.
  induction n as [|n IH]; intros l H.
  - cbn [firstn] in H. contradiction.
  - destruct l as [|y l]; cbn [firstn] in H; [contradiction|].
    destruct H as [H|H]; [left; exact H|right; apply IH; exact H].
Qed.

Lemma toy_sha1_ok : sha1_spec toy_sha1.
Proof.
  intros x. unfold toy_sha1. split.
  - rewrite firstn_length, app_length, repeat_length. lia.
  - apply forallb_forall. intros b Hb. apply in_firstn in Hb.
    unfold is_byte. apply N.ltb_lt.
    apply in_app_or in Hb as [Hb|Hb].
    + apply in_map_iff in Hb as [z [<- _]]. apply N.mod_lt. lia.
    + apply repeat_spec in Hb. lia.
Qed.
