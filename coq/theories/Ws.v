(* Ws.v — interleaving model of ws/websocket.go (DESIGN.md Appendix B), definitions only.

   Threads: writer calls (WriteMessageToWebsocketConnection), the write pump, the read
   pump, a closer (CloseDataConnection) and the environment (peer data, peer close / EOF /
   read fault, write fault, ping tick, a new writer call, a local close).  One label = one
   atomic action of one thread.  Go channel semantics are explicit: a send on a closed
   channel, a second close of a channel, and a sender that is blocked on a channel when it
   gets closed all lead to the [panic] state.

   The model is parametric in a [variant]: seven syntactic facts about the source that
   harness/cmd/extract/ws.go reads from the Go AST on every run (coq/gen/WsTable.v).
   [pinned] is the tree as it was found, [source_variant] is what the source says now.

   What is bounded and what is not.  The queue capacity is WsTable.ws_queue_cap (read
   from `make(chan []byte, N)`).  Writer calls are NOT bounded: WriteMessage… holds
   muxShipWrite from its first to its last action, so at most one call is past the lock
   at any time; a call waiting for the mutex has no effect on anything and is represented
   by its start label not having happened yet.  Any number of calls is any number of
   [LWStart] labels in the schedule; the state holds the one call that owns the mutex.
   Local closes may be repeated without bound as well (the closer returns to [KIdle]); concurrent closers are represented by the closer thread plus the two
   reactions of the SHIP layer to a reported error, which run close() on the pumps.
   Message contents and the lists accepted / wire are unbounded and live in the [data]
   layer on top of the control state ([gstep]); their invariant is proved by induction in
   WsProofs.v, everything about the finite control state by the certified closure of
   Closure.v. *)
From Coq Require Import List Bool Arith NArith PArith FMapPositive Lia.
From Ship Require Import Base Closure.
From ShipGen Require Import WsTable.
Import ListNotations.
Local Open Scope nat_scope.

(* ------------------------------------------------------------------ variants *)
Record variant := {
  v_early_return : bool;  (* close(): `if w.isConnClosed() { return }` inside the once body *)
  v_cwe_closes : bool;    (* closeWithError calls w.close() before reporting *)
  v_tas : bool;           (* error paths report only if their setConnClosedError call was the one
                             that marked the connection closed (test-and-set) *)
  v_mark_first : bool;    (* CloseDataConnection marks the connection closed before it sends the close frame *)
  v_pump_closes_q : bool; (* writeShipPump closes shipWriteChannel when it exits *)
  v_send_select : bool;   (* the writer's channel send is a select against closeChannel *)
  v_read_recheck : bool   (* the read pump tests the flag again between ReadMessage and what it does with the result *)
}.

Definition pinned : variant :=
  {| v_early_return := true; v_cwe_closes := false; v_tas := false; v_mark_first := false;
     v_pump_closes_q := true; v_send_select := false; v_read_recheck := true |}.

Definition repaired : variant :=
  {| v_early_return := false; v_cwe_closes := true; v_tas := true; v_mark_first := true;
     v_pump_closes_q := false; v_send_select := true; v_read_recheck := true |}.

Definition source_variant : variant :=
  {| v_early_return := ws_close_early_return; v_cwe_closes := ws_cwe_calls_close;
     v_tas := ws_report_only_if_first; v_mark_first := ws_close_marks_first;
     v_pump_closes_q := ws_pump_closes_queue; v_send_select := ws_send_selects_close;
     v_read_recheck := ws_read_rechecks_closed |}.

Definition qcap : nat := ws_queue_cap.

(* ------------------------------------------------------------------ state *)
Inductive ostate := OFresh | ORunning | ODone.
(* who marked the connection closed first; [genuine] = the error was a transport / peer event,
   not a consequence of the local close (own close frame sent, own conn.Close) *)
Inductive cause_t := CLocal | CRead (genuine : bool) | CWrite (genuine : bool).
Inductive cnt := C0 | C1 | CMany.
Definition cinc (c : cnt) : cnt := match c with C0 => C1 | _ => CMany end.
Inductive pkind := KData | KPing.
(* position inside close(): once.Do entry (with the early-return test where the source has one),
   setConnClosedError(nil), close(closeChannel), conn.Close().  Taking the once and the first
   action of the body are one step: nobody can tell a once that is taken from one that is about to be. *)
Inductive cpc := CEnter | CB2 | CB3 | CB4.
Inductive wpc := WFree | WLocked (late : bool) | WSend (late : bool).
Inductive ppc :=
  | PSel | PGotClosed | PW1 (k : pkind) | PW2 (k : pkind) | PW3 (k : pkind)
  | PErr (k : pkind) (g : bool) | PCwClose (k : pkind) (g : bool) (c : cpc) | PRep (k : pkind) (g : bool)
  | PReact (k : pkind) (c : cpc) | PDefer | PExit.
Inductive rgot := GMsg | GErr (g : bool).
Inductive rpc :=
  | RSel | RChk1 | RRead | RChk2 (x : rgot) | RTas (g : bool) | RClose (g first : bool) (c : cpc)
  | RSetErr (g : bool) | RRep (g : bool) | RReact (c : cpc) | RDeliver | RExit.
Inductive kpc := KIdle | KFrame | KClose (c : cpc).

(* which environment events a scenario contains (constant along a run) *)
Record config := {
  can_write : bool; can_recv : bool; can_tick : bool;
  allow_rfail : bool;   (* a read may fail: peer close frame, EOF, read fault, invalid frame *)
  allow_wfail : bool;   (* a write may fail: write fault, EOF, own close echo after a peer close frame *)
  allow_plain : bool;   (* CloseDataConnection(code, "") *)
  allow_reason : bool;  (* CloseDataConnection(code, reason): a close frame is sent *)
  may_react : bool;     (* the reader reacts to a reported error with CloseDataConnection (ship.ShipConnection does) *)
  may_ignore : bool;    (* ... or does not *)
  track : bool          (* record the ghosts any_err / lost (only used for the outcome sets of the tie) *)
}.

Record shared := {
  flag : bool;      (* connectionClosed *)
  cch : bool;       (* closeChannel closed *)
  qclosed : bool;   (* shipWriteChannel closed *)
  qn : nat;         (* messages in shipWriteChannel *)
  once : ostate;    (* shutdownOnce *)
  connc : bool;     (* conn.Close() was called *)
  cfsent : bool     (* our own close frame is on the wire: gorilla fails later writes, the peer echoes *)
}.

Record ghost := {
  cause : option cause_t;
  reported : cnt;       (* calls of ReportConnectionError *)
  spurious : bool;      (* an error that was a consequence of the local close was reported *)
  deliv_after : cnt;    (* HandleIncomingWebsocketMessage calls after the first report *)
  late_ok : bool;       (* a call that took the mutex with the flag set returned nil *)
  any_err : bool;       (* some call returned an error *)
  lost : bool           (* an accepted message was dropped *)
}.

Record state := {
  cfg : config; sh : shared; gh : ghost;
  wr : wpc; pu : ppc; rd : rpc; cl : kpc;
  panic : bool
}.

Definition set_sh (s : state) (x : shared) : state :=
  {| cfg := cfg s; sh := x; gh := gh s; wr := wr s; pu := pu s; rd := rd s; cl := cl s; panic := panic s |}.
Definition set_gh (s : state) (x : ghost) : state :=
  {| cfg := cfg s; sh := sh s; gh := x; wr := wr s; pu := pu s; rd := rd s; cl := cl s; panic := panic s |}.
Definition set_wr (s : state) (x : wpc) : state :=
  {| cfg := cfg s; sh := sh s; gh := gh s; wr := x; pu := pu s; rd := rd s; cl := cl s; panic := panic s |}.
Definition set_pu (s : state) (x : ppc) : state :=
  {| cfg := cfg s; sh := sh s; gh := gh s; wr := wr s; pu := x; rd := rd s; cl := cl s; panic := panic s |}.
Definition set_rd (s : state) (x : rpc) : state :=
  {| cfg := cfg s; sh := sh s; gh := gh s; wr := wr s; pu := pu s; rd := x; cl := cl s; panic := panic s |}.
Definition set_cl (s : state) (x : kpc) : state :=
  {| cfg := cfg s; sh := sh s; gh := gh s; wr := wr s; pu := pu s; rd := rd s; cl := x; panic := panic s |}.
Definition set_panic (s : state) : state :=
  {| cfg := cfg s; sh := sh s; gh := gh s; wr := wr s; pu := pu s; rd := rd s; cl := cl s; panic := true |}.

Definition sh_flag (x : shared) (b : bool) : shared :=
  {| flag := b; cch := cch x; qclosed := qclosed x; qn := qn x; once := once x; connc := connc x; cfsent := cfsent x |}.
Definition sh_cch (x : shared) (b : bool) : shared :=
  {| flag := flag x; cch := b; qclosed := qclosed x; qn := qn x; once := once x; connc := connc x; cfsent := cfsent x |}.
Definition sh_qclosed (x : shared) (b : bool) : shared :=
  {| flag := flag x; cch := cch x; qclosed := b; qn := qn x; once := once x; connc := connc x; cfsent := cfsent x |}.
Definition sh_qn (x : shared) (n : nat) : shared :=
  {| flag := flag x; cch := cch x; qclosed := qclosed x; qn := n; once := once x; connc := connc x; cfsent := cfsent x |}.
Definition sh_once (x : shared) (o : ostate) : shared :=
  {| flag := flag x; cch := cch x; qclosed := qclosed x; qn := qn x; once := o; connc := connc x; cfsent := cfsent x |}.
Definition sh_connc (x : shared) (b : bool) : shared :=
  {| flag := flag x; cch := cch x; qclosed := qclosed x; qn := qn x; once := once x; connc := b; cfsent := cfsent x |}.
Definition sh_cfsent (x : shared) (b : bool) : shared :=
  {| flag := flag x; cch := cch x; qclosed := qclosed x; qn := qn x; once := once x; connc := connc x; cfsent := b |}.

Definition gh_cause (x : ghost) (c : option cause_t) : ghost :=
  {| cause := c; reported := reported x; spurious := spurious x; deliv_after := deliv_after x;
     late_ok := late_ok x; any_err := any_err x; lost := lost x |}.
Definition gh_report (x : ghost) (genuine : bool) : ghost :=
  {| cause := cause x; reported := cinc (reported x); spurious := spurious x || negb genuine;
     deliv_after := deliv_after x; late_ok := late_ok x; any_err := any_err x; lost := lost x |}.
Definition gh_deliver (x : ghost) : ghost :=
  {| cause := cause x; reported := reported x; spurious := spurious x;
     deliv_after := match reported x with C0 => deliv_after x | _ => cinc (deliv_after x) end;
     late_ok := late_ok x; any_err := any_err x; lost := lost x |}.
Definition gh_ret (tr : bool) (x : ghost) (late err : bool) : ghost :=
  {| cause := cause x; reported := reported x; spurious := spurious x; deliv_after := deliv_after x;
     late_ok := late_ok x || (late && negb err); any_err := any_err x || (tr && err); lost := lost x |}.
Definition gh_lost (x : ghost) : ghost :=
  {| cause := cause x; reported := reported x; spurious := spurious x; deliv_after := deliv_after x;
     late_ok := late_ok x; any_err := any_err x; lost := true |}.

(* setConnClosedError: mark closed; remember who did it first *)
Definition mark (who : cause_t) (s : state) : state :=
  if flag (sh s) then s
  else set_gh (set_sh s (sh_flag (sh s) true)) (gh_cause (gh s) (Some who)).

(* ------------------------------------------------------------------ close() *)
(* one action of close() by a thread that is at position c; None = blocked (another
   thread is inside the once body); Some (s', None) = close() has returned *)
Definition close_step (V : variant) (who : cause_t) (s : state) (c : cpc) : option (state * option cpc) :=
  match c with
  | CEnter =>
      match once (sh s) with
      | ODone => Some (s, None)
      | ORunning => None
      | OFresh =>
          if v_early_return V then
            if flag (sh s) then Some (set_sh s (sh_once (sh s) ODone), None)      (* returns without closing anything *)
            else Some (set_sh s (sh_once (sh s) ORunning), Some CB2)
          else
            let s1 := set_sh s (sh_once (sh s) ORunning) in Some (mark who s1, Some CB3)
      end
  | CB2 => Some (mark who s, Some CB3)
  | CB3 =>
      if cch (sh s) then Some (set_panic s, None)            (* close of a closed channel *)
      else Some (set_sh s (sh_cch (sh s) true), Some CB4)
  | CB4 => Some (set_sh s (sh_once (sh_connc (sh s) true) ODone), None)
  end.

(* ------------------------------------------------------------------ labels *)
Inductive label :=
  | LWStart        (* env: a writer call gets muxShipWrite *)
  | LWCheck | LWSend | LWAbort
  | LPumpSelClose | LPumpRecv | LPumpTick (* env: the ping ticker fires *) | LPump | LPumpAlt
  | LPumpFault     (* env: the transport write the pump is about to do fails *)
  | LRd | LRdAlt | LReadMsg (* env: a data frame arrives *) | LReadErr
  | LReadFault     (* env: the pending read fails: peer close frame, EOF, fault, invalid frame *)
  | LCloseStart (r : bool) (* env: CloseDataConnection(code, reason<>"" iff r) does its first action *)
  | LCloser
  | LCloserFault.  (* env: the write of the close frame fails *)

Definition all_labels : list label :=
  [LWStart; LWCheck; LWSend; LWAbort; LPumpSelClose; LPumpRecv; LPumpTick; LPump; LPumpAlt; LPumpFault;
   LRd; LRdAlt; LReadMsg; LReadErr; LReadFault; LCloseStart false; LCloseStart true; LCloser; LCloserFault].

Definition is_env (l : label) : bool :=
  match l with
  | LWStart | LPumpTick | LPumpFault | LReadMsg | LReadFault | LCloseStart _ | LCloserFault => true
  | _ => false
  end.

(* ------------------------------------------------------------------ writer call *)
Definition ret_writer (s : state) (late err : bool) : state :=
  set_wr (set_gh s (gh_ret (track (cfg s)) (gh s) late err)) WFree.

Definition writer_step (V : variant) (s : state) (l : label) : option state :=
  match l, wr s with
  | LWStart, WFree => if can_write (cfg s) then Some (set_wr s (WLocked (flag (sh s)))) else None
  | LWCheck, WLocked late =>
      (* if w.isConnClosed() || w.shipWriteChannel == nil { return error } *)
      if flag (sh s) then Some (ret_writer s late true) else Some (set_wr s (WSend late))
  | LWSend, WSend late =>
      if qclosed (sh s) then Some (set_panic s)                (* send on closed channel *)
      else if qn (sh s) <? qcap then Some (ret_writer (set_sh s (sh_qn (sh s) (S (qn (sh s))))) late false)
      else None                                                (* blocked: queue full *)
  | LWAbort, WSend late =>
      if v_send_select V && cch (sh s) then Some (ret_writer s late true) else None
  | _, _ => None
  end.

(* ------------------------------------------------------------------ write pump *)
(* the pump is done with what it had in hand: a data message is dropped and the loop
   returns (deferred function next); handlePing ignores the result and the loop goes on *)
Definition pump_after (s : state) (k : pkind) : state :=
  match k with
  | KData => set_pu (if track (cfg s) then set_gh s (gh_lost (gh s)) else s) PDefer
  | KPing => set_pu s PSel
  end.

Definition pump_step (V : variant) (s : state) (l : label) : option state :=
  match pu s, l with
  | PSel, LPumpSelClose => if cch (sh s) then Some (set_pu s PDefer) else None
  | PSel, LPumpRecv =>
      match qn (sh s) with
      | S n => Some (set_pu (set_sh s (sh_qn (sh s) n)) (PW1 KData))
      | O => if qclosed (sh s) then Some (set_pu s PGotClosed) else None
      end
  | PSel, LPumpTick => if can_tick (cfg s) then Some (set_pu s (PW1 KPing)) else None
  | PGotClosed, LPump => Some (set_pu s PDefer)
  (* `if w.isConnClosed() { return }` after the receive and again at the top of writeMessage:
     two reads of the flag with the same consequence and nothing in between are one read *)
  | PW1 k, LPump => if flag (sh s) then Some (pump_after s k) else Some (set_pu s (PW2 k))
  (* writeMessageWithoutErrorHandling reads the flag once more; this time "closed" is an error *)
  | PW2 k, LPump => if flag (sh s) then Some (set_pu s (PErr k false)) else Some (set_pu s (PW3 k))
  | PW3 k, LPump =>
      if connc (sh s) || cfsent (sh s) then Some (set_pu s (PErr k false))   (* fails as a consequence of the local close *)
      else Some (set_pu s PSel)                            (* written; a data message is now on the wire *)
  | PW3 k, LPumpFault => if allow_wfail (cfg s) then Some (set_pu s (PErr k true)) else None
  | PErr k g, LPump =>
      (* closeWithError: setConnClosedError(err) ... *)
      let first := negb (flag (sh s)) in
      let s1 := mark (CWrite g) s in
      if v_tas V && negb first then Some (pump_after s1 k)
      else if v_cwe_closes V then Some (set_pu s1 (PCwClose k g CEnter))
      else Some (set_pu s1 (PRep k g))
  | PCwClose k g c, LPump =>
      match close_step V (CWrite g) s c with
      | None => None
      | Some (s1, Some c') => Some (set_pu s1 (PCwClose k g c'))
      | Some (s1, None) => Some (set_pu s1 (PRep k g))
      end
  | PRep k g, LPump =>
      if may_react (cfg s) then Some (set_pu (set_gh s (gh_report (gh s) g)) (PReact k CEnter)) else None
  | PRep k g, LPumpAlt =>
      if may_ignore (cfg s) then Some (pump_after (set_gh s (gh_report (gh s) g)) k) else None
  | PReact k c, LPump =>
      match close_step V CLocal s c with
      | None => None
      | Some (s1, Some c') => Some (set_pu s1 (PReact k c'))
      | Some (s1, None) => Some (pump_after s1 k)
      end
  | PDefer, LPump =>
      if v_pump_closes_q V then
        if qclosed (sh s) then Some (set_panic s)             (* close of a closed channel *)
        else Some (set_pu (set_sh s (sh_qclosed (sh s) true)) PExit)
      else Some (set_pu s PExit)
  | _, _ => None
  end.

(* ------------------------------------------------------------------ read pump *)
Definition reader_step (V : variant) (s : state) (l : label) : option state :=
  match rd s, l with
  | RSel, LRd => if cch (sh s) then Some (set_rd s RExit) else Some (set_rd s RChk1)
  | RChk1, LRd => if flag (sh s) then Some (set_rd s RExit) else Some (set_rd s RRead)
  | RRead, LReadMsg =>
      if can_recv (cfg s) && negb (connc (sh s)) then Some (set_rd s (RChk2 GMsg)) else None
  | RRead, LReadFault => if allow_rfail (cfg s) then Some (set_rd s (RChk2 (GErr true))) else None
  (* our own conn.Close(), or the peer's echo of our own close frame, ends the read *)
  | RRead, LReadErr => if connc (sh s) || cfsent (sh s) then Some (set_rd s (RChk2 (GErr false))) else None
  | RChk2 x, LRd =>
      if v_read_recheck V && flag (sh s) then Some (set_rd s RExit)
      else match x with
           | GMsg => Some (set_rd s RDeliver)
           | GErr g => if v_tas V then Some (set_rd s (RTas g)) else Some (set_rd s (RClose g false CEnter))
           end
  | RTas g, LRd => Some (set_rd (mark (CRead g) s) (RClose g (negb (flag (sh s))) CEnter))
  | RClose g first c, LRd =>
      match close_step V (CRead g) s c with
      | None => None
      | Some (s1, Some c') => Some (set_rd s1 (RClose g first c'))
      | Some (s1, None) =>
          if v_tas V then Some (set_rd s1 (if first then RRep g else RExit))
          else Some (set_rd s1 (RSetErr g))
      end
  | RSetErr g, LRd => Some (set_rd (mark (CRead g) s) (RRep g))
  | RRep g, LRd =>
      if may_react (cfg s) then Some (set_rd (set_gh s (gh_report (gh s) g)) (RReact CEnter)) else None
  | RRep g, LRdAlt =>
      if may_ignore (cfg s) then Some (set_rd (set_gh s (gh_report (gh s) g)) RExit) else None
  | RReact c, LRd =>
      match close_step V CLocal s c with
      | None => None
      | Some (s1, Some c') => Some (set_rd s1 (RReact c'))
      | Some (s1, None) => Some (set_rd s1 RExit)
      end
  | RDeliver, LRd => Some (set_rd (set_gh s (gh_deliver (gh s))) RSel)
  | _, _ => None
  end.

(* ------------------------------------------------------------------ CloseDataConnection *)
Definition closer_step (V : variant) (s : state) (l : label) : option state :=
  match cl s, l with
  | KIdle, LCloseStart r =>
      if (if r then allow_reason (cfg s) else allow_plain (cfg s)) then
        if v_mark_first V then
          (* wasOpen := setConnClosedError(nil); the frame is sent only by the call that marked *)
          let first := negb (flag (sh s)) in
          Some (set_cl (mark CLocal s) (if first && r then KFrame else KClose CEnter))
        else if r then
          (* writeMessageWithoutErrorHandling: closed -> error (ignored), no frame *)
          Some (set_cl s (if flag (sh s) then KClose CEnter else KFrame))
        else Some (set_cl s (KClose CEnter))
      else None
  | KFrame, LCloser =>
      if connc (sh s) || cfsent (sh s) then Some (set_cl s (KClose CEnter))
      else Some (set_cl (set_sh s (sh_cfsent (sh s) true)) (KClose CEnter))
  | KFrame, LCloserFault => if allow_wfail (cfg s) then Some (set_cl s (KClose CEnter)) else None
  | KClose c, LCloser =>
      match close_step V CLocal s c with
      | None => None
      | Some (s1, Some c') => Some (set_cl s1 (KClose c'))
      | Some (s1, None) => Some (set_cl s1 KIdle)
      end
  | _, _ => None
  end.

Definition step (V : variant) (s : state) (l : label) : option state :=
  if panic s then None
  else match l with
       | LWStart | LWCheck | LWSend | LWAbort => writer_step V s l
       | LPumpSelClose | LPumpRecv | LPumpTick | LPump | LPumpAlt | LPumpFault => pump_step V s l
       | LRd | LRdAlt | LReadMsg | LReadErr | LReadFault => reader_step V s l
       | LCloseStart _ | LCloser | LCloserFault => closer_step V s l
       end.

Definition succs (V : variant) (ls : list label) (s : state) : list state :=
  flat_map (fun l => match step V s l with Some s' => [s'] | None => [] end) ls.

Definition next (V : variant) : state -> list state := succs V all_labels.
Definition quiet_labels : list label := filter (fun l => negb (is_env l)) all_labels.
Definition quiet (V : variant) : state -> list state := succs V quiet_labels.

(* a schedule is a list of labels; running it is partial (a label that is not enabled stops the run) *)
Fixpoint run (V : variant) (s : state) (ls : list label) : option state :=
  match ls with
  | [] => Some s
  | l :: r => match step V s l with Some s' => run V s' r | None => None end
  end.

Definition sh0 : shared :=
  {| flag := false; cch := false; qclosed := false; qn := 0; once := OFresh; connc := false; cfsent := false |}.
Definition gh0 : ghost :=
  {| cause := None; reported := C0; spurious := false; deliv_after := C0; late_ok := false; any_err := false; lost := false |}.
(* after InitDataProcessing: both pumps at the top of their loops *)
Definition init (c : config) : state :=
  {| cfg := c; sh := sh0; gh := gh0; wr := WFree; pu := PSel; rd := RSel; cl := KIdle; panic := false |}.

(* every environment event allowed, the reader may or may not react to a report *)
Definition cfg_all : config :=
  {| can_write := true; can_recv := true; can_tick := true; allow_rfail := true; allow_wfail := true;
     allow_plain := true; allow_reason := true; may_react := true; may_ignore := true; track := false |}.

(* ------------------------------------------------------------------ equality and hash *)
Scheme Equality for ostate.
Scheme Equality for cause_t.
Scheme Equality for cnt.
Scheme Equality for pkind.
Scheme Equality for cpc.
Scheme Equality for wpc.
Scheme Equality for ppc.
Scheme Equality for rgot.
Scheme Equality for rpc.
Scheme Equality for kpc.

Definition config_beq (a b : config) : bool :=
  Bool.eqb (can_write a) (can_write b) && Bool.eqb (can_recv a) (can_recv b) && Bool.eqb (can_tick a) (can_tick b)
  && Bool.eqb (allow_rfail a) (allow_rfail b) && Bool.eqb (allow_wfail a) (allow_wfail b)
  && Bool.eqb (allow_plain a) (allow_plain b) && Bool.eqb (allow_reason a) (allow_reason b)
  && Bool.eqb (may_react a) (may_react b) && Bool.eqb (may_ignore a) (may_ignore b) && Bool.eqb (track a) (track b).

Definition shared_beq (a b : shared) : bool :=
  Bool.eqb (flag a) (flag b) && Bool.eqb (cch a) (cch b) && Bool.eqb (qclosed a) (qclosed b)
  && Nat.eqb (qn a) (qn b) && ostate_beq (once a) (once b) && Bool.eqb (connc a) (connc b)
  && Bool.eqb (cfsent a) (cfsent b).

Definition ocause_beq (a b : option cause_t) : bool :=
  match a, b with
  | None, None => true
  | Some x, Some y => cause_t_beq x y
  | _, _ => false
  end.

Definition ghost_beq (a b : ghost) : bool :=
  ocause_beq (cause a) (cause b) && cnt_beq (reported a) (reported b) && Bool.eqb (spurious a) (spurious b)
  && cnt_beq (deliv_after a) (deliv_after b) && Bool.eqb (late_ok a) (late_ok b)
  && Bool.eqb (any_err a) (any_err b) && Bool.eqb (lost a) (lost b).

Definition state_beq (a b : state) : bool :=
  config_beq (cfg a) (cfg b) && shared_beq (sh a) (sh b) && ghost_beq (gh a) (gh b)
  && wpc_beq (wr a) (wr b) && ppc_beq (pu a) (pu b) && rpc_beq (rd a) (rd b) && kpc_beq (cl a) (cl b)
  && Bool.eqb (panic a) (panic b).

Local Open Scope N_scope.
Definition b2n (b : bool) : N := if b then 1 else 0.
Definition code_cpc (c : cpc) : N := match c with CEnter => 0 | CB2 => 1 | CB3 => 2 | CB4 => 3 end.
Definition code_pk (k : pkind) : N := match k with KData => 0 | KPing => 1 end.
Definition code_cnt (c : cnt) : N := match c with C0 => 0 | C1 => 1 | CMany => 2 end.
Definition code_once (o : ostate) : N := match o with OFresh => 0 | ORunning => 1 | ODone => 2 end.
Definition code_cause (c : option cause_t) : N :=
  match c with None => 0 | Some CLocal => 1 | Some (CRead g) => 2 + b2n g | Some (CWrite g) => 4 + b2n g end.
Definition code_wr (w : wpc) : N :=
  match w with WFree => 0 | WLocked l => 1 + b2n l | WSend l => 3 + b2n l end.
Definition code_pu (p : ppc) : N :=
  match p with
  | PSel => 0 | PGotClosed => 1 | PW1 k => 2 + code_pk k | PW2 k => 4 + code_pk k | PW3 k => 6 + code_pk k
  | PErr k g => 8 + 2 * code_pk k + b2n g
  | PCwClose k g c => 12 + 4 * (2 * code_pk k + b2n g) + code_cpc c
  | PRep k g => 28 + 2 * code_pk k + b2n g
  | PReact k c => 32 + 4 * code_pk k + code_cpc c
  | PDefer => 40 | PExit => 41
  end.
Definition code_rd (r : rpc) : N :=
  match r with
  | RSel => 0 | RChk1 => 1 | RRead => 2 | RChk2 GMsg => 3 | RChk2 (GErr g) => 4 + b2n g
  | RTas g => 6 + b2n g | RClose g f c => 8 + 4 * (2 * b2n g + b2n f) + code_cpc c
  | RSetErr g => 24 + b2n g | RRep g => 26 + b2n g | RReact c => 28 + code_cpc c | RDeliver => 32 | RExit => 33
  end.
Definition code_cl (k : kpc) : N :=
  match k with KIdle => 0 | KFrame => 1 | KClose c => 2 + code_cpc c end.

Definition mix (acc base c : N) : N := acc * base + c.
Definition hash_n (s : state) : N :=
  let x := sh s in let g := gh s in
  let h := b2n (flag x) in
  let h := mix h 2 (b2n (cch x)) in
  let h := mix h 2 (b2n (qclosed x)) in
  let h := mix h 4 (N.of_nat (qn x)) in
  let h := mix h 3 (code_once (once x)) in
  let h := mix h 2 (b2n (connc x)) in
  let h := mix h 2 (b2n (cfsent x)) in
  let h := mix h 6 (code_cause (cause g)) in
  let h := mix h 3 (code_cnt (reported g)) in
  let h := mix h 2 (b2n (spurious g)) in
  let h := mix h 3 (code_cnt (deliv_after g)) in
  let h := mix h 2 (b2n (late_ok g)) in
  let h := mix h 2 (b2n (any_err g)) in
  let h := mix h 2 (b2n (lost g)) in
  let h := mix h 5 (code_wr (wr s)) in
  let h := mix h 42 (code_pu (pu s)) in
  let h := mix h 34 (code_rd (rd s)) in
  let h := mix h 6 (code_cl (cl s)) in
  mix h 2 (b2n (panic s)).
Definition hash (s : state) : positive := N.succ_pos (hash_n s).
Local Close Scope N_scope.

(* ------------------------------------------------------------------ ranking (termination of quiet steps) *)
Definition rk_cpc (c : cpc) : nat := match c with CEnter => 4 | CB2 => 3 | CB3 => 2 | CB4 => 1 end.
Definition rk_wr (w : wpc) : nat := match w with WFree => 0 | WLocked _ => 31 | WSend _ => 30 end.
Definition rk_pu (p : ppc) : nat :=
  match p with
  | PExit => 0 | PDefer => 1 | PSel => 2 | PReact _ c => 3 + rk_cpc c | PRep _ _ => 10
  | PCwClose _ _ c => 11 + rk_cpc c | PErr _ _ => 17 | PW3 _ => 18 | PW2 _ => 19 | PW1 _ => 20
  | PGotClosed => 21
  end.
Definition rk_rd (r : rpc) : nat :=
  match r with
  | RExit => 0 | RReact c => 1 + rk_cpc c | RRep _ => 7 | RSetErr _ => 8 | RClose _ _ c => 9 + rk_cpc c
  | RTas _ => 15 | RChk2 (GErr _) => 16 | RRead => 17 | RChk1 => 18 | RSel => 19 | RDeliver => 20 | RChk2 GMsg => 21
  end.
Definition rk_cl (k : kpc) : nat :=
  match k with KIdle => 0 | KClose c => 1 + rk_cpc c | KFrame => 7 end.
Definition rank (s : state) : nat :=
  if panic s then 0 else 25 * qn (sh s) + rk_wr (wr s) + rk_pu (pu s) + rk_rd (rd s) + rk_cl (cl s).

(* ------------------------------------------------------------------ the properties as boolean monitors *)
Definition is_genuine (c : option cause_t) : bool :=
  match c with Some (CRead true) | Some (CWrite true) => true | _ => false end.
Definition is_local (c : option cause_t) : bool := match c with Some CLocal => true | _ => false end.
Definition cnt_le1 (c : cnt) : bool := match c with CMany => false | _ => true end.
Definition cnt_is0 (c : cnt) : bool := match c with C0 => true | _ => false end.
Definition cnt_is1 (c : cnt) : bool := match c with C1 => true | _ => false end.
Definition wr_late (w : wpc) : bool := match w with WLocked l | WSend l => l | WFree => false end.
Definition wr_free (w : wpc) : bool := match w with WFree => true | _ => false end.
Definition pu_exited (p : ppc) : bool := match p with PExit => true | _ => false end.
Definition rd_exited (r : rpc) : bool := match r with RExit => true | _ => false end.
Definition cl_rest (k : kpc) : bool := match k with KIdle => true | _ => false end.

(* C12, safety: holds in every reachable state *)
Definition c12_safe (s : state) : bool :=
  negb (panic s)                                              (* no send on / close of a closed channel *)
  && negb (late_ok (gh s))                                    (* no call that started closed returned nil *)
  && (negb (wr_late (wr s)) || flag (sh s))                   (* a late call sees the flag ... *)
  && match wr s with WSend true => false | _ => true end      (* ... and never gets to the send *)
  && (negb (any_err (gh s)) || flag (sh s))                   (* an error is only ever returned on a closed connection *)
  && (negb (cch (sh s)) || flag (sh s)).

(* C13, safety *)
Definition c13_safe (s : state) : bool :=
  cnt_le1 (reported (gh s))                                   (* at most one report *)
  && negb (spurious (gh s))                                   (* never a consequence of the local close *)
  && (cnt_is0 (reported (gh s)) || (flag (sh s) && is_genuine (cause (gh s))))   (* reported => closed-query is non-nil, cause is a loss *)
  && (negb (is_local (cause (gh s))) || cnt_is0 (reported (gh s)))                (* deliberate local close => never told *)
  && (negb (connc (sh s)) || cch (sh s))
  && (match cause (gh s) with None => true | Some _ => flag (sh s) end)   (* a cause is recorded exactly when the flag is set *)
  && (cnt_le1 (deliv_after (gh s)))                            (* at most the one in-flight delivery ... *)
  && (cnt_is0 (deliv_after (gh s)) || match cause (gh s) with Some (CWrite true) => true | _ => false end). (* ... and only when the write pump reported *)

Definition c13_strict_delivery (s : state) : bool := cnt_is0 (deliv_after (gh s)).

(* what must hold when nothing internal is left to do (all schedules end here once the
   environment stops): every call has returned; closed => reported iff not local, both pumps
   gone, transport closed *)
Definition settled (s : state) : bool :=
  negb (panic s) && wr_free (wr s) && cl_rest (cl s)
  && (if flag (sh s) then
        pu_exited (pu s) && rd_exited (rd s) && connc (sh s) && cch (sh s)
        && match once (sh s) with ODone => true | _ => false end
        && (if is_local (cause (gh s)) then cnt_is0 (reported (gh s)) else is_genuine (cause (gh s)) && cnt_is1 (reported (gh s)))
      else
        match pu s, rd s with PSel, RRead => true | _, _ => false end
        && Nat.eqb (qn (sh s)) 0 && cnt_is0 (reported (gh s)) && negb (lost (gh s)) && negb (any_err (gh s))).

(* ------------------------------------------------------------------ data layer: unbounded message lists *)
Record data := {
  d_pend : N;            (* message of the call that owns the mutex *)
  d_q : list N;          (* contents of shipWriteChannel *)
  d_mid : list N;        (* the message the pump took from the channel: in hand, or dropped *)
  d_acc : list N;        (* accepted: calls that returned nil, in the order of their channel sends *)
  d_wire : list N        (* data frames handed to conn.WriteMessage successfully, in order *)
}.
Definition data0 : data := {| d_pend := 0%N; d_q := []; d_mid := []; d_acc := []; d_wire := [] |}.

Definition dupd (s : state) (l : label) (m : N) (s' : state) (d : data) : data :=
  match l with
  | LWStart => {| d_pend := m; d_q := d_q d; d_mid := d_mid d; d_acc := d_acc d; d_wire := d_wire d |}
  | LWSend =>
      if panic s' then d
      else {| d_pend := d_pend d; d_q := d_q d ++ [d_pend d]; d_mid := d_mid d; d_acc := d_acc d ++ [d_pend d]; d_wire := d_wire d |}
  | LPumpRecv =>
      match d_q d with
      | x :: r => {| d_pend := d_pend d; d_q := r; d_mid := [x]; d_acc := d_acc d; d_wire := d_wire d |}
      | [] => d
      end
  | LPump =>
      match pu s, pu s' with
      | PW3 KData, PSel => {| d_pend := d_pend d; d_q := d_q d; d_mid := []; d_acc := d_acc d; d_wire := d_wire d ++ d_mid d |}
      | _, _ => d
      end
  | _ => d
  end.

Definition gstep (V : variant) (sd : state * data) (lm : label * N) : option (state * data) :=
  match step V (fst sd) (fst lm) with
  | Some s' => Some (s', dupd (fst sd) (fst lm) (snd lm) s' (snd sd))
  | None => None
  end.

Fixpoint grun (V : variant) (sd : state * data) (ls : list (label * N)) : option (state * data) :=
  match ls with
  | [] => Some sd
  | l :: r => match gstep V sd l with Some sd' => grun V sd' r | None => None end
  end.

(* the pump holds (or has dropped) a data message *)
Definition pu_holds (p : ppc) : bool :=
  match p with
  | PSel | PW1 KPing | PW2 KPing | PW3 KPing | PErr KPing _ | PCwClose KPing _ _ | PRep KPing _
  | PReact KPing _ => false
  | _ => true
  end.

Fixpoint is_prefix (a b : list N) : bool :=
  match a, b with
  | [], _ => true
  | x :: a', y :: b' => N.eqb x y && is_prefix a' b'
  | _ :: _, [] => false
  end.

(* ------------------------------------------------------------------ outcomes and monitors *)
(* What a settled run looks like from outside.  The same record is computed from a model
   state (outcome_of) and from the driver's observations of the real code (WsCheck.v); the
   monitors below are the functions the theorems of props/C12.v and props/C13.v are stated
   with, and the functions bin/check evaluates on the implementation's observations. *)
Record outcome := {
  o_panic : bool;      (* a write call panicked (or the process died) *)
  o_hang : bool;       (* a write call never returned *)
  o_late_ok : bool;    (* a call that started on a closed connection returned nil *)
  o_any_err : bool;    (* some call returned an error *)
  o_lost : bool;       (* an accepted message did not reach the peer *)
  o_rep : cnt;         (* ReportConnectionError calls *)
  o_closed : bool;     (* closed-query says closed *)
  o_connc : bool;      (* Close() called on the net.Conn *)
  o_exited : bool;     (* no goroutine left inside package ws *)
  o_dafter : cnt       (* HandleIncomingWebsocketMessage calls after the first report *)
}.

Definition outcome_of (s : state) : outcome :=
  {| o_panic := panic s; o_hang := negb (wr_free (wr s)); o_late_ok := late_ok (gh s);
     o_any_err := any_err (gh s); o_lost := lost (gh s) || (0 <? qn (sh s));
     o_rep := reported (gh s); o_closed := flag (sh s); o_connc := connc (sh s);
     o_exited := pu_exited (pu s) && rd_exited (rd s) && cl_rest (cl s) && wr_free (wr s);
     o_dafter := deliv_after (gh s) |}.

(* why the connection was closed, as far as the observer can tell *)
Inductive cclass := NoCause | ByLocal | ByLoss | Either.
Definition class_of_cause (c : option cause_t) : cclass :=
  match c with
  | None => NoCause
  | Some CLocal => ByLocal
  | Some (CRead true) | Some (CWrite true) => ByLoss
  | Some (CRead false) | Some (CWrite false) => ByLocal   (* an error that is a consequence of the local close *)
  end.

Local Open Scope N_scope.
(* C12 on an outcome: 10 a write panicked, 11 a write never returned, 12 a late write returned nil *)
Definition mon12 (o : outcome) : codes :=
  (if o_panic o then [10] else []) ++ (if o_hang o then [11] else []) ++ (if o_late_ok o then [12] else []).

(* C13 on an outcome *)
Definition mon13 (c : cclass) (o : outcome) : codes :=
  (if o_closed o && negb (o_connc o) then [20] else [])          (* transport never closed *)
  ++ (if o_closed o && negb (o_exited o) then [21] else [])      (* a pump (or a caller) is still inside the package *)
  ++ (match c, o_rep o with
      | ByLoss, C0 => [22]                                       (* loss not reported *)
      | _, CMany => [23]                                         (* reported more than once *)
      | ByLocal, C1 => [24]                                      (* error reported after a deliberate local close *)
      | NoCause, C1 => [25]
      | _, _ => []
      end)
  ++ (match c with NoCause => if o_closed o then [25] else []    (* closed without any cause *)
      | _ => if o_closed o then [] else [28] end)                (* a closing event did not close the connection *)
  ++ (match o_dafter o with C0 => [] | C1 => [26] | CMany => [27] end).   (* deliveries after the report *)
(* 26 is the one delivery that was already past the read pump's closed-check when the write
   pump reported (known finding, see C13_delivery_after_report_refuted / _partial) *)
Definition drop26 (l : codes) : codes := filter (fun c => negb (N.eqb c 26)) l.
Local Close Scope N_scope.

(* ------------------------------------------------------------------ exploration helpers *)
Definition explore_from (V : variant) (fuel : nat) (c : config) : table state * bool :=
  explore state_beq hash (next V) fuel (init c).

Definition is_quiescent (V : variant) (s : state) : bool :=
  match quiet V s with [] => true | _ => false end.
