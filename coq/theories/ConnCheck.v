(* ConnCheck.v — reading an implementation trace with the monitors of ConnMon, and the
   per-property case checkers.  Definitions only. *)
From Ship Require Import Base Conn ConnEvents ConnData ConnMon.

Definition smsg_of (f : frame) : smsg :=
  match f with
  | FInit => SInit
  | FHello HReady _ _ => SHelloReady
  | FHello HPending _ PTrue => SHelloProlong
  | FHello HPending _ _ => SHelloPending
  | FHello HAborted _ _ => SHelloAborted
  | FHello HOther _ _ => SUnknown
  | FProt PAnnounce => SProtAnnounce | FProt PSelect => SProtSelect | FProt POtherT => SUnknown
  | FProtErr n => SProtErr n
  | FPin => SPin | FAccReq => SAccReq | FAcc _ => SAcc | FData _ => SData
  | FClose true => SCloseAnnounce | FClose false => SCloseConfirm
  | FUnknown => SUnknown
  end.

(* payload deliveries are judged at the data level (c06_data below: nothing before setup,
   exactly the received payloads afterwards); the control monitor reads everything else *)
Definition forget (o : obs) : list cobs :=
  match o with
  | OReport s e => [BReport s e]
  | OWrite f ok => [BWrite (smsg_of f) ok]
  | OPairedQ a => [BPairedQ a] | OAutoQ a => [BAutoQ a] | OAllowQ a => [BAllowQ a]
  | OSetup => [BSetup] | OShipId _ => [BShipId] | ODeliver _ => []
  | OCloseData _ _ => [BCloseData KUser] | OClosedCb b => [BClosedCb b]
  | OPanic => [BPanic] | OHang => [BHang] | OFuel => [BFuel]
  | OSnap s e a t rd _ => [BSnap s e a t rd]
  end.

(* what the monitors need to know about the state when an event starts is read off the
   implementation's own observations: the last snapshot and the SHIP id it reported *)
Record track := mkT { t_st : N; t_stored : bytes }.

Definition track_obs (t : track) (e : eventx) (os : list obs) : track :=
  fold_left (fun t o =>
    match o with
    | OSnap s _ _ _ _ _ => mkT s (t_stored t)
    | OShipId _ => mkT (t_st t) (ev_presented (x_ev e))
    | _ => t
    end) os t.

Definition pseudo_cs (r : role) (t : track) : cs :=
  mkCs r (t_st t) false false 0 true false false None false false (negb (is_nil (t_stored t))) false false [].

Fixpoint abs_trace (r : role) (t : track) (es : list eventx) (obs : list (list obs)) : list cobs :=
  match es, obs with
  | e :: es', os :: obs' =>
      BEv (abs_ev (pseudo_cs r t) (t_stored t) e) :: flat_map forget os
        ++ abs_trace r (track_obs t e os) es' obs'
  | _, _ => []
  end.

Definition mon_impl (c : conn_case) : ms :=
  let idk := negb (is_nil (cc_stored c)) in
  mon_run (init_ms (cc_role c) idk)
          (abs_trace (cc_role c) (mkT 0 (cc_stored c)) (cc_events c) (cc_obs c)).

(* ---- C06 at the data level, on the implementation's observations: what has been
   delivered to the reader so far is exactly the list of well-formed SPINE payloads
   received so far once the device was set up, and nothing before ---- *)
Definition recvd_of (e : eventx) : list N :=
  match x_ev e with
  | ERecv v => match v_dg v with DgOk => [v_payload v] | _ => [] end
  | _ => []
  end.
Definition delivered_of (os : list obs) : list N :=
  flat_map (fun o => match o with ODeliver p => [p] | _ => [] end) os.
Definition has_setup (os : list obs) : bool :=
  existsb (fun o => match o with OSetup => true | _ => false end) os.
Definition crashed (os : list obs) : bool :=
  existsb (fun o => match o with OPanic | OHang | OFuel => true | _ => false end) os.

Fixpoint c06_data (setup : bool) (recvd delivered : list N)
                  (es : list eventx) (obs : list (list obs)) : codes :=
  match es, obs with
  | e :: es', os :: obs' =>
      let setup' := setup || has_setup os in
      let recvd' := recvd ++ recvd_of e in
      let delivered' := delivered ++ delivered_of os in
      if crashed os then [] else
      if negb setup' then
        (match delivered' with [] => c06_data setup' recvd' delivered' es' obs' | _ => [60] end)
      else if list_eqb N.eqb delivered' recvd' then c06_data setup' recvd' delivered' es' obs'
      else [61]
  | _, _ => []
  end.

Definition check_conn (lo hi : N) (c : conn_case) : codes :=
  (if corr_ok c then [] else [1]) ++ viol_in lo hi (mon_impl c).

(* C01's delivery clause on implementation traces: a payload handed over before the device
   was set up (code 60 of the data-level check) is a delivery without trust (code 12) *)
Definition check_C01 (c : conn_case) : codes :=
  check_conn 10 19 c ++
  (if existsb (N.eqb 60) (c06_data false [] [] (cc_events c) (cc_obs c)) then [12] else []).
Definition check_C04 := check_conn 20 29.
Definition check_C08 := check_conn 30 39.
Definition check_C09 := check_conn 40 49.
Definition check_C11 := check_conn 50 59.
Definition check_C14conn := check_conn 80 89.
(* C10 (c): a cancel while the hello phase is waiting aborts the handshake for good *)
Definition check_C10conn (c : conn_case) : codes :=
  map (fun k => if N.eqb k 1 then 1 else k + 100) (check_conn 13 13 c).   (* 113: no collision with the hub stream's codes *)
Definition check_C06 (c : conn_case) : codes :=
  check_conn 60 60 c ++ c06_data false [] [] (cc_events c) (cc_obs c).
