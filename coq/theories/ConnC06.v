(* ConnC06.v — C06 at the data level: on every run of the connection model, what has been
   handed to the SPINE reader is exactly the list of well-formed SPINE payloads received so
   far once the remote device was set up, and nothing before: exactly once, in arrival
   order, buffered payloads first.  The control facts about each step's observations come
   from the certified closure (ConnClosure.reach_shape); the lists are unbounded. *)
From Coq Require Import FMapPositive.
From Ship Require Import Base Closure Conn ConnEvents ConnData ConnMon ConnClosure ConnLift ConnCheck.

Lemma no_crash_in_deliveries l : existsb (fun o => match o with OPanic | OHang | OFuel => true | _ => false end) (map ODeliver l) = false.
Proof. induction l; [reflexivity|exact IHl]. Qed.
Lemma no_setup_in_deliveries l : existsb (fun o => match o with OSetup => true | _ => false end) (map ODeliver l) = false.
Proof. induction l; [reflexivity|exact IHl]. Qed.
Lemma delivered_of_deliveries l : delivered_of (map ODeliver l) = l.
Proof. induction l as [|x l IH]; [reflexivity|]. cbn. f_equal. exact IH. Qed.

Lemma delivered_of_app a b : delivered_of (a ++ b) = delivered_of a ++ delivered_of b.
Proof. unfold delivered_of. apply flat_map_app. Qed.

(* ---- one control observation ---- *)
Lemma conc1_crashed d e o : crashed (snd (conc1 d e o)) = is_crash o.
Proof. destruct o; try reflexivity. apply no_crash_in_deliveries. Qed.
Lemma conc1_setup d e o : has_setup (snd (conc1 d e o)) = is_setup o.
Proof. destruct o; try reflexivity. apply no_setup_in_deliveries. Qed.

(* deliveries and buffer after one observation *)
Lemma conc1_data d e o :
  delivered_of (snd (conc1 d e o)) =
    (if is_deliver o then [ev_payload e] else if is_flush o then d_buf d else [])
  /\ d_buf (fst (conc1 d e o)) =
    (if is_buffer o then d_buf d ++ [ev_payload e] else if is_flush o then [] else d_buf d).
Proof. destruct o; try (split; reflexivity). split; [apply delivered_of_deliveries|reflexivity]. Qed.

(* ---- a whole step ---- *)
Lemma conc_crashed l : forall d e, crashed (snd (conc d e l)) = has is_crash l.
Proof.
  induction l as [|o l IH]; intros d e; [reflexivity|].
  cbn [conc]. destruct (conc1 d e o) as [d1 os] eqn:E1.
  destruct (conc d1 e l) as [d2 os2] eqn:E2. cbn [snd].
  unfold crashed. rewrite existsb_app. fold (crashed os) (crashed os2).
  pose proof (conc1_crashed d e o) as H1. rewrite E1 in H1. cbn [snd] in H1.
  pose proof (IH d1 e) as H2. rewrite E2 in H2. cbn [snd] in H2.
  rewrite H1, H2. reflexivity.
Qed.

Lemma conc_setup l : forall d e, has_setup (snd (conc d e l)) = has is_setup l.
Proof.
  induction l as [|o l IH]; intros d e; [reflexivity|].
  cbn [conc]. destruct (conc1 d e o) as [d1 os] eqn:E1.
  destruct (conc d1 e l) as [d2 os2] eqn:E2. cbn [snd].
  unfold has_setup. rewrite existsb_app. fold (has_setup os) (has_setup os2).
  pose proof (conc1_setup d e o) as H1. rewrite E1 in H1. cbn [snd] in H1.
  pose proof (IH d1 e) as H2. rewrite E2 in H2. cbn [snd] in H2.
  rewrite H1, H2. reflexivity.
Qed.

(* a step without direct delivery and without buffering: the buffer is handed over iff
   the step flushes *)
Lemma conc_quiet l : forall d e,
  has is_deliver l = false -> has is_buffer l = false ->
  delivered_of (snd (conc d e l)) = (if has is_flush l then d_buf d else [])
  /\ d_buf (fst (conc d e l)) = (if has is_flush l then [] else d_buf d).
Proof.
  induction l as [|o l IH]; intros d e Hd Hb; [split; reflexivity|].
  cbn [has existsb] in Hd, Hb. apply orb_false_iff in Hd as [Hd1 Hd2]. apply orb_false_iff in Hb as [Hb1 Hb2].
  cbn [conc]. destruct (conc1 d e o) as [d1 os] eqn:E1.
  destruct (conc d1 e l) as [d2 os2] eqn:E2. cbn [snd fst].
  pose proof (conc1_data d e o) as [A1 A2]. rewrite E1 in A1, A2. cbn [snd fst] in A1, A2.
  rewrite Hd1 in A1. rewrite Hb1 in A2.
  destruct (IH d1 e Hd2 Hb2) as [B1 B2]. rewrite E2 in B1, B2. cbn [snd fst] in B1, B2.
  rewrite delivered_of_app. cbn [has existsb].
  unfold has in B1, B2.
  destruct (is_flush o); cbn [orb].
  - (* o flushes: the buffer is handed over here, d1 has an empty buffer *)
    rewrite A1, B1, B2, A2. destruct (existsb is_flush l); rewrite ?app_nil_r; split; reflexivity.
  - rewrite A1, B1, B2, A2. cbn [app]. destruct (existsb is_flush l); split; reflexivity.
Qed.

(* ---- the invariant along a run ---- *)
Definition c06_inv (c : cs) (d : dstate) (setup : bool) (recvd delivered : list N) : Prop :=
  setup = reader c /\
  (if reader c then delivered = recvd /\ d_buf d = [] else delivered = [] /\ d_buf d = recvd).

Lemma list_eqb_N_refl l : list_eqb N.eqb l l = true.
Proof. induction l as [|x l IH]; [reflexivity|]. cbn. rewrite N.eqb_refl, IH. reflexivity. Qed.

Lemma dgok_recvd c stored e :
  is_dgok (ev (abs_ev c stored e)) = true -> recvd_of e = [ev_payload (x_ev e)].
Proof.
  unfold abs_ev, recvd_of. cbn [ev].
  destruct (x_ev e) as [|v| | | | | |sf cd rs|p|]; cbn [is_dgok]; try discriminate;
    try (destruct (ran c); discriminate); try (destruct (reader c); discriminate).
  destruct (v_dg v); try discriminate; [destruct (v_cl v); discriminate|]. reflexivity.
Qed.

Lemma not_dgok_recvd c stored e :
  is_dgok (ev (abs_ev c stored e)) = false -> recvd_of e = [].
Proof.
  unfold abs_ev, recvd_of. cbn [ev].
  destruct (x_ev e) as [|v| | | | | |sf cd rs|p|]; try reflexivity.
  destruct (v_dg v); try reflexivity. cbn [is_dgok]. discriminate.
Qed.

Lemma c06_run r idk es : forall c d m setup recvd delivered,
  normal c ->
  reach pnext (pinit r idk) (mkPs (of_cs c) m) ->
  c06_inv c d setup recvd delivered ->
  c06_data setup recvd delivered es (run (c, d) es) = [].
Proof.
  induction es as [|e es IH]; intros c d m setup recvd delivered N R [Hs Hi]; [reflexivity|].
  cbn [run step].
  destruct (cstep c (abs_ev c (d_stored d) e)) as [c' l] eqn:E.
  destruct (conc d (x_ev e) l) as [d' os] eqn:Ec.
  cbn [c06_data].
  (* facts about this step from the closure *)
  pose proof (reach_shape r idk _ R) as Sh. unfold p_shape in Sh. cbn [ps_c] in Sh.
  rewrite (to_of_cs c N) in Sh. apply andb_true_iff in Sh as [_ Sh].
  rewrite forallb_forall in Sh. specialize (Sh _ (abs_ev_in c (d_stored d) e)).
  apply andb_true_iff in Sh as [Sh _].
  unfold shape_ok in Sh. rewrite E in Sh.
  apply andb_true_iff in Sh as [Sh Sh3]. apply andb_true_iff in Sh as [Sh1 Sh2].
  apply negb_true_iff in Sh2. apply orb_false_iff in Sh2 as [Sh2 _].
  (* the product state after the step is reachable, the control state normal *)
  assert (N' : normal c').
  { pose proof (cstep_normal c (abs_ev c (d_stored d) e) N) as H. rewrite E in H. exact H. }
  assert (R' : reach pnext (pinit r idk)
                 (mkPs (of_cs c') (mon_run m (BEv (abs_ev c (d_stored d) e) :: l)))).
  { eapply reach_step; [exact R|]. unfold pnext. cbn [ps_c]. rewrite (to_of_cs c N).
    apply in_map_iff. exists (abs_ev c (d_stored d) e). split; [|apply abs_ev_in].
    unfold pstep. cbn [ps_c ps_m]. rewrite (to_of_cs c N), E. reflexivity. }
  pose proof (conc_crashed l d (x_ev e)) as Cr. rewrite Ec in Cr. cbn [snd] in Cr.
  pose proof (conc_setup l d (x_ev e)) as St. rewrite Ec in St. cbn [snd] in St.
  rewrite Cr, Sh2, St.
  destruct (is_dgok (ev (abs_ev c (d_stored d) e))) eqn:Dg.
  - (* a well-formed SPINE frame *)
    rewrite (dgok_recvd _ _ _ Dg).
    apply andb_true_iff in Sh3 as [Rd Sh3]. apply eqb_prop in Rd.
    destruct l as [|o1 [|o2 [|o3 l3]]]; try discriminate; destruct o1; try discriminate;
      destruct o2; try discriminate.
    + (* delivered *)
      rewrite Sh3 in Hi. destruct Hi as [Hdel Hbuf].
      cbn [conc conc1] in Ec. inversion Ec; subst d' os. clear Ec.
      cbn [has existsb is_setup orb]. rewrite orb_false_r.
      cbn [delivered_of flat_map app]. subst setup. rewrite Sh3. cbn [negb].
      subst delivered. rewrite list_eqb_N_refl.
      apply (IH c' d _ true (recvd ++ [ev_payload (x_ev e)]) (recvd ++ [ev_payload (x_ev e)]) N' R').
      split; [rewrite Rd, Sh3; reflexivity|]. rewrite Rd, Sh3. split; [reflexivity|exact Hbuf].
    + (* buffered *)
      apply negb_true_iff in Sh3. rewrite Sh3 in Hi. destruct Hi as [Hdel Hbuf].
      cbn [conc conc1] in Ec. inversion Ec; subst d' os. clear Ec.
      cbn [has existsb is_setup orb]. subst setup. rewrite Sh3. cbn [negb orb].
      cbn [delivered_of flat_map app]. subst delivered. cbn [app].
      apply (IH c' _ _ false (recvd ++ [ev_payload (x_ev e)]) [] N' R').
      split; [rewrite Rd, Sh3; reflexivity|]. rewrite Rd, Sh3. split; [reflexivity|].
      cbn [d_buf]. rewrite Hbuf. reflexivity.
  - (* any other event *)
    rewrite (not_dgok_recvd _ _ _ Dg), app_nil_r.
    apply andb_true_iff in Sh3 as [Sh3 Mono]. apply andb_true_iff in Sh3 as [Sh3 Hset].
    apply andb_true_iff in Sh3 as [Sh3 Hfl]. apply andb_true_iff in Sh3 as [Hnd Hnb].
    apply negb_true_iff in Hnd. apply negb_true_iff in Hnb.
    apply eqb_prop in Hset. apply eqb_prop in Hfl.
    destruct (conc_quiet l d (x_ev e) Hnd Hnb) as [Q1 Q2]. rewrite Ec in Q1, Q2. cbn [snd fst] in Q1, Q2.
    rewrite Q1, Hfl, Hset. subst setup.
    destruct (reader c) eqn:Rc.
    + (* reader already set: stays set, nothing flushed, nothing delivered *)
      cbn [implb] in Mono. rewrite Mono. cbn [andb negb orb]. rewrite app_nil_r.
      destruct Hi as [Hdel Hbuf]. subst delivered. rewrite list_eqb_N_refl.
      apply (IH c' d' _ true recvd recvd N' R').
      split; [rewrite Mono; reflexivity|]. rewrite Mono. split; [reflexivity|].
      rewrite Q2, Hfl, Mono. cbn. exact Hbuf.
    + destruct Hi as [Hdel Hbuf]. subst delivered. cbn [orb app].
      destruct (reader c') eqn:Rc'; cbn [andb negb].
      * (* this step sets the reader: the buffer is handed over, in order *)
        rewrite Hbuf, list_eqb_N_refl.
        apply (IH c' d' _ true recvd recvd N' R').
        split; [rewrite Rc'; reflexivity|]. rewrite Rc'. split; [reflexivity|].
        rewrite Q2, Hfl. reflexivity.
      * apply (IH c' d' _ false recvd [] N' R').
        split; [rewrite Rc'; reflexivity|]. rewrite Rc'. split; [reflexivity|].
        rewrite Q2, Hfl. cbn. exact Hbuf.
Qed.

(* THE THEOREM (C06, connection level) *)
Theorem c06_model_ok r stored local es :
  c06_data false [] [] es (run (init_state r stored local) es) = [].
Proof.
  unfold init_state.
  apply (c06_run r (negb (is_nil stored)) es _ _ (init_ms r (negb (is_nil stored)))).
  - apply init_normal.
  - apply reach_init.
  - split; [reflexivity|]. cbn. split; reflexivity.
Qed.
