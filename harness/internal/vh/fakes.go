package vh

import (
	"fmt"
	"sync"

	"github.com/enbility/ship-go/api"
	"github.com/enbility/ship-go/model"
)

// Log is a thread-safe recorder of observation strings (already in Gallina form).
type Log struct {
	mu sync.Mutex
	l  []string
}

func (l *Log) Add(s string) {
	l.mu.Lock()
	l.l = append(l.l, s)
	l.mu.Unlock()
}
func (l *Log) Take() []string {
	l.mu.Lock()
	defer l.mu.Unlock()
	r := l.l
	l.l = nil
	return r
}

// Has reports whether a recorded line starts with the prefix.
func (l *Log) Has(prefix string) bool {
	l.mu.Lock()
	defer l.mu.Unlock()
	for _, s := range l.l {
		if len(s) >= len(prefix) && s[:len(prefix)] == prefix {
			return true
		}
	}
	return false
}
// Count returns the number of recorded lines that start with the prefix.
func (l *Log) Count(prefix string) int {
	l.mu.Lock()
	defer l.mu.Unlock()
	n := 0
	for _, s := range l.l {
		if len(s) >= len(prefix) && s[:len(prefix)] == prefix {
			n++
		}
	}
	return n
}
func (l *Log) Len() int {
	l.mu.Lock()
	defer l.mu.Unlock()
	return len(l.l)
}

// FakeWriter is the websocket side of a fake connection; only its identity matters to the hub.
type FakeWriter struct {
	Id         int
	OnIsClosed func() bool // if set, answers IsDataConnectionClosed
}

func (f *FakeWriter) InitDataProcessing(api.WebsocketDataReaderInterface) {}
func (f *FakeWriter) WriteMessageToWebsocketConnection([]byte) error      { return nil }
func (f *FakeWriter) CloseDataConnection(int, string)                     {}
func (f *FakeWriter) IsDataConnectionClosed() (bool, error) {
	if f.OnIsClosed != nil {
		return f.OnIsClosed(), nil
	}
	return false, nil
}

// FakeConn implements api.ShipConnectionInterface and records what the hub asks of it.
type FakeConn struct {
	Id    int
	Ski   string
	State model.ShipMessageExchangeState
	Err   error
	W     *FakeWriter
	L     *Log
}

func (c *FakeConn) DataHandler() api.WebsocketDataWriterInterface { return c.W }
func (c *FakeConn) CloseConnection(safe bool, code int, reason string) {
	c.L.Add(fmt.Sprintf("OClose %d %s %d %s", c.Id, B(safe), code, HxS(reason)))
}
func (c *FakeConn) RemoteSKI() string        { return c.Ski }
func (c *FakeConn) ApprovePendingHandshake() { c.L.Add(fmt.Sprintf("OApprove %d", c.Id)) }
func (c *FakeConn) AbortPendingHandshake()   { c.L.Add(fmt.Sprintf("OAbort %d", c.Id)) }
func (c *FakeConn) ShipHandshakeState() (model.ShipMessageExchangeState, error) {
	return c.State, c.Err
}

// FakeReader implements api.HubReaderInterface.
type FakeReader struct {
	L         *Log
	AllowWait bool
}

func (r *FakeReader) RemoteSKIConnected(ski string)    { r.L.Add("OConnected " + HxS(ski)) }
func (r *FakeReader) RemoteSKIDisconnected(ski string) { r.L.Add("ODisconnected " + HxS(ski)) }
func (r *FakeReader) SetupRemoteDevice(ski string, w api.ShipConnectionDataWriterInterface) api.ShipConnectionDataReaderInterface {
	r.L.Add("OSetup " + HxS(ski))
	return nil
}
func (r *FakeReader) VisibleRemoteServicesUpdated(entries []api.RemoteService) {
	r.L.Add(fmt.Sprintf("OVisible %d", len(entries)))
}
func (r *FakeReader) ServiceShipIDUpdate(ski string, shipID string) {
	r.L.Add("OShipID " + HxS(ski) + " " + HxS(shipID))
}
func (r *FakeReader) ServicePairingDetailUpdate(ski string, detail *api.ConnectionStateDetail) {
	r.L.Add(fmt.Sprintf("OPairUpd %s %d", HxS(ski), detail.State()))
}
func (r *FakeReader) AllowWaitingForTrust(ski string) bool { return r.AllowWait }

// FakeMdns implements api.MdnsInterface.
type FakeMdns struct {
	L          *Log
	OnShutdown func() // if set, runs inside Shutdown (what happens while the provider shuts down)
}

func (m *FakeMdns) Start(cb api.MdnsReportInterface) error { return nil }
func (m *FakeMdns) Shutdown() {
	m.L.Add("OMdnsShutdown")
	if m.OnShutdown != nil {
		f := m.OnShutdown
		m.OnShutdown = nil
		f()
	}
}
func (m *FakeMdns) AnnounceMdnsEntry() error               { m.L.Add("OMdnsAnnounce"); return nil }
func (m *FakeMdns) UnannounceMdnsEntry()                   { m.L.Add("OMdnsUnannounce") }
func (m *FakeMdns) SetAutoAccept(bool)                     {}
func (m *FakeMdns) QRCodeText() string                     { return "" }
func (m *FakeMdns) RequestMdnsEntries()                    { m.L.Add("OMdnsRequest") }
