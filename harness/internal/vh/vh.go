// Package vh holds what every driver shares: the seeded PRNG, Gallina literal
// emitters, and the JSONL case writer read by bin/check.
package vh

import (
	"bufio"
	"crypto/sha256"
	"encoding/hex"
	"encoding/json"
	"fmt"
	"os"
	"strings"
	"sync"
)

// ---- PRNG: splitmix64, every random choice of a driver derives from one seed ----
type Rng struct{ s uint64 }

func NewRng(seed uint64) *Rng { return &Rng{s: seed*0x9E3779B97F4A7C15 + 0x1234567} }
func (r *Rng) Next() uint64 {
	r.s += 0x9E3779B97F4A7C15
	z := r.s
	z = (z ^ (z >> 30)) * 0xBF58476D1CE4E5B9
	z = (z ^ (z >> 27)) * 0x94D049BB133111EB
	return z ^ (z >> 31)
}
func (r *Rng) Intn(n int) int {
	if n <= 0 {
		return 0
	}
	return int(r.Next() % uint64(n))
}
func (r *Rng) Bool() bool          { return r.Next()&1 == 1 }
func (r *Rng) Chance(p int) bool   { return r.Intn(100) < p }
func (r *Rng) Fork() *Rng          { return NewRng(r.Next()) }
func Pick[T any](r *Rng, xs []T) T { return xs[r.Intn(len(xs))] }

// ---- Gallina literals ----
func Hx(b []byte) string  { return `(hx "` + hex.EncodeToString(b) + `")` }
func HxS(s string) string { return Hx([]byte(s)) }
func B(b bool) string {
	if b {
		return "true"
	}
	return "false"
}
func N(n int) string { return fmt.Sprintf("%d", n) }
func List(xs []string) string {
	return "[" + strings.Join(xs, "; ") + "]"
}
func Opt(present bool, v string) string {
	if !present {
		return "None"
	}
	return "(Some " + v + ")"
}

// ---- case writer ----
type Case struct {
	Coq        string `json:"coq"`        // Gallina term of the property's case type
	Nontrivial bool   `json:"nontrivial"` // by the rule the property states in its evidence
	Key        string `json:"key"`        // distinctness key (hash of the input part)
	Kind       string `json:"kind"`       // generator class, for the input distribution
	Sample     any    `json:"sample"`     // human-readable form for evidence samples
}

type Writer struct {
	mu sync.Mutex
	f  *os.File
	w  *bufio.Writer
	n  int
}

func NewWriter(path string) *Writer {
	f, err := os.Create(path)
	if err != nil {
		panic(err)
	}
	return &Writer{f: f, w: bufio.NewWriterSize(f, 1<<20)}
}
func (w *Writer) Put(c Case) {
	w.mu.Lock()
	defer w.mu.Unlock()
	if c.Key == "" {
		c.Key = c.Coq
	}
	h := sha256.Sum256([]byte(c.Key))
	c.Key = hex.EncodeToString(h[:8])
	b, err := json.Marshal(c)
	if err != nil {
		panic(err)
	}
	w.w.Write(b)
	w.w.WriteByte('\n')
	w.n++
}
func (w *Writer) Count() int { return w.n }
func (w *Writer) Close() {
	w.w.Flush()
	w.f.Close()
}
