package lockset

import (
	"os"
	"path/filepath"
	"strings"
	"testing"
)

const src = `package p

import "sync"

type T struct {
	a, b, c int
	m       map[string]int
	ch      chan int
	f       func()
	mu      sync.Mutex
	rw      sync.RWMutex
	once    sync.Once
}

func NewT() *T {
	t := &T{a: 1}
	t.b = 2
	go t.loop()
	t.c = 3
	return t
}

func (t *T) Get() int { t.mu.Lock(); defer t.mu.Unlock(); return t.a }

// the callee's deferred unlock is released at its exit
func (t *T) GetAfter() int { x := t.Get(); return x + t.b }

func (t *T) Branch(c bool) {
	t.mu.Lock()
	if c {
		t.mu.Unlock()
		return
	}
	t.a = 1
	t.mu.Unlock()
	t.b = 2
}

// a lock taken on one path only is not held at the merge
func (t *T) Merge(c bool) {
	if c {
		t.mu.Lock()
	}
	t.a = 1
	if c {
		t.mu.Unlock()
	}
}

func (t *T) Go() {
	t.mu.Lock()
	go func() { t.a = 5 }()
	t.helper()
	t.mu.Unlock()
}

func (t *T) helper() { t.b = 7 }

func (t *T) RW() int { t.rw.RLock(); defer t.rw.RUnlock(); return t.c }

func (t *T) Del() { t.mu.Lock(); delete(t.m, "x"); t.m["y"] = 1; t.mu.Unlock() }

func (t *T) Once() { t.mu.Lock(); t.once.Do(func() { t.a = 9 }); t.mu.Unlock() }

func (t *T) loop() {
	for {
		select {
		case <-t.ch:
			return
		default:
			t.mu.Lock()
			t.a++
			t.mu.Unlock()
		}
	}
}

// a lock taken inside a loop body is not held after the loop (zero iterations)
func (t *T) Loop2(xs []int) {
	for range xs {
		t.mu.Lock()
		t.a = 1
	}
	t.b = 3
}

// switch: held only if held in every clause
func (t *T) Switch(k int) {
	switch k {
	case 1:
		t.mu.Lock()
	default:
	}
	t.c = 4
}

func (t *T) Callback() { t.mu.Lock(); t.f = func() { t.a = 11 }; register(func() { t.b = 12 }); t.mu.Unlock() }

func register(f func()) {}

// an access through a variable the analysis cannot type must be reported
func other(get func() *T) { x := get(); x.a = 3 }
`

func has(res *Result, st, fd string, w bool, fn string, locks string, esc bool) bool {
	for _, f := range res.Facts {
		if f.Struct == st && f.Field == fd && f.Write == w && f.Fn == fn && strings.Join(f.Locks, ",") == locks && f.Escaped == esc {
			return true
		}
	}
	return false
}

func TestLockset(t *testing.T) {
	dir := t.TempDir()
	if err := os.MkdirAll(filepath.Join(dir, "p"), 0o755); err != nil {
		t.Fatal(err)
	}
	if err := os.WriteFile(filepath.Join(dir, "p", "p.go"), []byte(src), 0o644); err != nil {
		t.Fatal(err)
	}
	Packages = []string{"p"}
	Tracked = map[string][]string{"p": {"T"}}
	res, err := Analyze(dir)
	if err != nil {
		t.Fatal(err)
	}
	type want struct {
		fd    string
		w     bool
		fn    string
		locks string
		esc   bool
		yes   bool
	}
	for _, w := range []want{
		{"a", true, "NewT", "", false, true},              // composite literal
		{"b", true, "NewT", "", false, true},              // before the go statement
		{"c", true, "NewT", "", true, true},               // after the go statement: escaped
		{"a", false, "T.Get", "mu", false, true},          //
		{"b", false, "T.GetAfter", "", false, true},       // deferred unlock of the callee applied
		{"b", false, "T.GetAfter", "mu", false, false},    //
		{"a", true, "T.Branch", "mu", false, true},        //
		{"b", true, "T.Branch", "", false, true},          //
		{"a", true, "T.Merge", "", false, true},           // intersection
		{"a", true, "T.Merge", "mu", false, false},        //
		{"a", true, "T.Go$go1", "", false, true},          // goroutine body: empty lockset
		{"a", true, "T.Go$go1", "mu", false, false},       //
		{"b", true, "T.helper", "mu", true, true},         // inline callee inherits lock and escape flag
		{"b", true, "T.helper", "", false, false},         // unexported: not a root of its own
		{"c", false, "T.RW", "rw:r", false, true},         // shared mode
		{"m", true, "T.Del", "mu", false, true},           // delete and map assignment are writes
		{"m", false, "T.Del", "mu", false, false},         //
		{"a", true, "T.Once", "mu", false, true},          // Once.Do body runs synchronously
		{"a", true, "T.loop", "mu", false, true},          //
		{"a", false, "T.loop", "mu", false, true},         // ++ reads and writes
		{"ch", false, "T.loop", "", false, true},          //
		{"b", true, "T.Loop2", "", false, true},           //
		{"b", true, "T.Loop2", "mu", false, false},        //
		{"a", true, "T.Loop2", "mu", false, true},         // first iteration holds it; second: still held (must) - fixpoint keeps mu only if held at loop head too
		{"c", true, "T.Switch", "", false, true},          //
		{"c", true, "T.Switch", "mu", false, false},       //
		{"a", true, "T.Callback$fn1", "", false, true},    // stored closure: empty lockset
		{"b", true, "T.Callback$fn2", "", false, true},    // closure handed to an unknown caller: empty lockset
		{"a", true, "T.Callback$fn1", "mu", false, false}, //
	} {
		if got := has(res, "T", w.fd, w.w, w.fn, w.locks, w.esc); got != w.yes {
			t.Errorf("fact %s %v %s [%s] esc=%v: got %v want %v", w.fd, w.w, w.fn, w.locks, w.esc, got, w.yes)
		}
	}
	if len(res.Unresolved) != 1 || !strings.Contains(res.Unresolved[0], ".a in other") {
		t.Errorf("unresolved = %v", res.Unresolved)
	}
	if t.Failed() {
		for _, f := range res.Facts {
			t.Log(CoqFact(f))
		}
	}
}
