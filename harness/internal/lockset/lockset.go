// Package lockset is the C20 translator: a flow-sensitive must-lockset analysis over the
// Go AST of ship-go's packages hub, ship, ws, mdns and api.  It emits one fact per access
// to a field of the tracked struct types: (struct, field, read|write, enclosing function,
// mutexes of the same object held on every path, "the object may already have escaped in
// this function").  coq/theories/Lockset*.v check the facts against a hand-written guard
// specification and derive race freedom from them.
//
// The analysis is PURELY SYNTACTIC (go/parser + go/ast, no go/types): a variable has a
// tracked type when it is a method receiver of that type, a parameter declared with that
// type, or a local bound to a composite literal / a constructor call of that type.  Every
// selector whose name is a data field of a tracked struct of the package but whose base
// could not be typed this way is reported in Unresolved, and the Coq side requires that
// list to be empty, so the syntactic shortcut cannot silently lose an access.
//
// Conventions (documented because the Coq statement relies on them):
//   - x.mu.Lock()/Unlock()/RLock()/RUnlock() on a mutex field of a tracked variable change
//     the lockset; `defer x.mu.Unlock()` keeps the lock to the end of the function.
//   - branch merge = intersection of the locksets (union of the escape flags); a branch that
//     ends in return/break/continue/goto/panic does not take part in the merge; loop bodies
//     are analysed to a fixpoint (head = entry ∩ end of body).
//   - `go f(...)`/`go func(){...}()` bodies start with the empty lockset and are their own
//     function ("Outer$go1"); function literals that are not provably called synchronously
//     (sync.Once.Do, sort.Slice, slices.SortFunc) also start empty ("Outer$fn1");
//     deferred literals start empty.
//   - calls of functions and methods of the same package on a tracked variable (or plain
//     package functions) are analysed INLINE, once per (callee, object, lockset, escape
//     flag) context, so a callee's facts carry the caller's locks; exported functions,
//     goroutine entry points, functions used as values and functions never called are
//     additionally analysed as roots with the empty lockset.  Accessor methods that lock
//     internally therefore appear as calls, not as accesses of the caller.
//   - the escape flag of a fact says whether, in the flow of the function (root or goroutine
//     entry) the access belongs to, the object has already been handed to another thread:
//     it starts false at every root and goroutine entry, is inherited by inline callees, and
//     becomes true at the first `go` statement or when the object (or one of its method
//     values) is passed to a call that is not analysed inline.  It only matters for the
//     functions the specification lists as initialisers of a field.
package lockset

import (
	"fmt"
	"go/ast"
	"go/parser"
	"go/token"
	"os"
	"path/filepath"
	"sort"
	"strings"
	"time"
)

// MaxDuration bounds one run of Analyze (it normally takes well under a second); MaxDepth
// bounds the inline call depth.  Exceeding either makes Analyze return an error, never a
// partial table.
var MaxDuration = 8 * time.Second

const MaxDepth = 60

// Packages and struct types under analysis.
var Packages = []string{"hub", "ship", "ws", "mdns", "api"}

var Tracked = map[string][]string{
	"hub":  {"Hub"},
	"ship": {"ShipConnection"},
	"ws":   {"WebsocketConnection"},
	"mdns": {"MdnsManager", "AvahiProvider", "ZeroconfProvider"},
	"api":  {"ServiceDetails", "ConnectionStateDetail"},
}

type Fact struct {
	Struct  string   `json:"struct"`
	Field   string   `json:"field"`
	Write   bool     `json:"write"`
	Fn      string   `json:"fn"`
	Locks   []string `json:"locks"` // "mu" exclusive, "mu:r" shared
	Escaped bool     `json:"escaped"`
}

type Site struct {
	File   string `json:"file"` // relative to the repository root
	Line   int    `json:"line"`
	Struct string `json:"struct"`
	Field  string `json:"field"`
	Write  bool   `json:"write"`
	Fn     string `json:"fn"`
}

type Result struct {
	Facts      []Fact   // distinct, sorted
	Sites      []Site   // distinct, sorted
	Unresolved []string // "pkg/file.go:line: expr" selectors naming a tracked field on an untyped base
	Funcs      int      // functions and methods analysed
	Contexts   int      // (function, context) pairs analysed
	GoBodies   int      // goroutine entry points found
	Structs    map[string][]string
	Mutexes    map[string][]string
}

func (f Fact) key() string {
	return fmt.Sprintf("%s.%s|%v|%s|%s|%v", f.Struct, f.Field, f.Write, f.Fn, strings.Join(f.Locks, ","), f.Escaped)
}

type fieldKind int

const (
	kData fieldKind = iota
	kMutex
	kRWMutex
	kOnce
)

type structInfo struct {
	pkg, name string
	fields    map[string]fieldKind
	order     []string
}

type funcInfo struct {
	pkg    *pkgInfo
	decl   *ast.FuncDecl
	recv   *structInfo // tracked receiver type or nil
	name   string      // "Type.method" or "func"
	litIdx map[*ast.FuncLit]int
}

type pkgInfo struct {
	name    string
	fset    *token.FileSet
	files   []*ast.File
	fnames  map[*ast.File]string
	structs map[string]*structInfo // tracked structs declared here
	funcs   map[string]*funcInfo   // "Type.method" / "func"
	ctors   map[string]*structInfo // function name -> tracked struct it returns a pointer to
	imports map[*ast.File]map[string]string
	// field names of tracked structs of this package (data fields only)
	fieldNames map[string]bool
}

type objRef struct {
	typ *structInfo
	key string
}

type state struct {
	held    map[string]bool // "objkey.mutex" -> shared?
	escaped map[string]bool
	dead    bool
}

func newState() *state { return &state{held: map[string]bool{}, escaped: map[string]bool{}} }
func (s *state) clone() *state {
	n := newState()
	for k, v := range s.held {
		n.held[k] = v
	}
	for k, v := range s.escaped {
		n.escaped[k] = v
	}
	n.dead = s.dead
	return n
}
func (s *state) sig() string {
	var hs, es []string
	for k, v := range s.held {
		hs = append(hs, fmt.Sprintf("%s=%v", k, v))
	}
	for k, v := range s.escaped {
		if v {
			es = append(es, k)
		}
	}
	sort.Strings(hs)
	sort.Strings(es)
	return strings.Join(hs, ",") + "|" + strings.Join(es, ",")
}

// merge of two control-flow paths: must-hold locks, may-have-escaped objects
func merge(a, b *state) *state {
	if a.dead {
		return b.clone()
	}
	if b.dead {
		return a.clone()
	}
	n := newState()
	for k, v := range a.held {
		if w, ok := b.held[k]; ok {
			n.held[k] = v || w // shared on one path: only shared is guaranteed
		}
	}
	for k, v := range a.escaped {
		if v {
			n.escaped[k] = true
		}
	}
	for k, v := range b.escaped {
		if v {
			n.escaped[k] = true
		}
	}
	return n
}

type analyzer struct {
	repo     string
	pkgs     map[string]*pkgInfo
	allTypes map[string]*structInfo // "pkg.Type"
	facts    map[string]Fact
	sites    map[string]Site
	unres    map[string]bool
	memo     map[string]*state // contexts analysed with facts emitted
	memoQ    map[string]*state // contexts analysed while muted (loop fixpoint passes): exit state only
	deadline time.Time
	timedOut bool
	stack    map[string]bool
	analysed map[*funcInfo]bool
	roots    map[*funcInfo]bool
	mute     int
	contexts int
	goBodies map[string]bool
	fresh    int
}

type frame struct {
	fi     *funcInfo
	fn     string // current function name for facts
	env    map[string]objRef
	rets   *[]*state // states at return statements of the function body being analysed
	defers *[]string // lock keys released by `defer x.mu.Unlock()`
}

func newFrame(fi *funcInfo, fn string, env map[string]objRef) *frame {
	return &frame{fi: fi, fn: fn, env: env, rets: &[]*state{}, defers: &[]string{}}
}

// exit state of a function body: all return paths and the fall-through merged, deferred
// unlocks applied
func (fr *frame) exit(fall *state) *state {
	out := fall
	for _, r := range *fr.rets {
		r.dead = false
		if out.dead {
			out = r
		} else {
			out = merge(out, r)
		}
	}
	out = out.clone()
	out.dead = false
	for _, k := range *fr.defers {
		delete(out.held, k)
	}
	return out
}

// Analyze parses the repository and runs the analysis.
func Analyze(repo string) (*Result, error) {
	a := &analyzer{repo: repo, pkgs: map[string]*pkgInfo{}, allTypes: map[string]*structInfo{},
		facts: map[string]Fact{}, sites: map[string]Site{}, unres: map[string]bool{},
		memo: map[string]*state{}, memoQ: map[string]*state{}, deadline: time.Now().Add(MaxDuration), stack: map[string]bool{}, analysed: map[*funcInfo]bool{},
		roots: map[*funcInfo]bool{}, goBodies: map[string]bool{}}
	for _, p := range Packages {
		pi, err := a.load(p)
		if err != nil {
			return nil, err
		}
		a.pkgs[p] = pi
	}
	for _, p := range Packages {
		a.collect(a.pkgs[p])
	}
	// roots: exported functions and methods, in source order
	for _, p := range Packages {
		pi := a.pkgs[p]
		for _, name := range sortedFuncNames(pi) {
			fi := pi.funcs[name]
			if fi.decl.Name.IsExported() {
				a.root(fi)
			}
		}
	}
	// functions used as values / goroutine entry points were added as roots on the way;
	// whatever is still not analysed is never called inside its package: analyse it too
	for changed := true; changed; {
		changed = false
		for _, p := range Packages {
			pi := a.pkgs[p]
			for _, name := range sortedFuncNames(pi) {
				fi := pi.funcs[name]
				if !a.analysed[fi] {
					a.root(fi)
					changed = true
				}
			}
		}
	}
	if a.timedOut {
		return nil, fmt.Errorf("analysis exceeded %s", MaxDuration)
	}
	res := &Result{Structs: map[string][]string{}, Mutexes: map[string][]string{}, Contexts: a.contexts, GoBodies: len(a.goBodies)}
	for _, f := range a.facts {
		res.Facts = append(res.Facts, f)
	}
	sort.Slice(res.Facts, func(i, j int) bool { return res.Facts[i].key() < res.Facts[j].key() })
	for _, s := range a.sites {
		res.Sites = append(res.Sites, s)
	}
	sort.Slice(res.Sites, func(i, j int) bool {
		x, y := res.Sites[i], res.Sites[j]
		if x.File != y.File {
			return x.File < y.File
		}
		if x.Line != y.Line {
			return x.Line < y.Line
		}
		return x.Struct+x.Field+x.Fn < y.Struct+y.Field+y.Fn
	})
	for u := range a.unres {
		res.Unresolved = append(res.Unresolved, u)
	}
	sort.Strings(res.Unresolved)
	for _, p := range Packages {
		res.Funcs += len(a.pkgs[p].funcs)
		for _, tn := range Tracked[p] {
			si := a.pkgs[p].structs[tn]
			if si == nil {
				return nil, fmt.Errorf("tracked struct %s.%s not found", p, tn)
			}
			for _, f := range si.order {
				if si.fields[f] == kData {
					res.Structs[tn] = append(res.Structs[tn], f)
				} else if si.fields[f] != kOnce {
					res.Mutexes[tn] = append(res.Mutexes[tn], f)
				}
			}
		}
	}
	return res, nil
}

func sortedFuncNames(pi *pkgInfo) []string {
	type nf struct {
		n   string
		pos token.Pos
	}
	var l []nf
	for n, f := range pi.funcs {
		l = append(l, nf{n, f.decl.Pos()})
	}
	sort.Slice(l, func(i, j int) bool { return l[i].pos < l[j].pos })
	r := make([]string, len(l))
	for i, x := range l {
		r[i] = x.n
	}
	return r
}

func (a *analyzer) load(p string) (*pkgInfo, error) {
	dir := filepath.Join(a.repo, p)
	ents, err := os.ReadDir(dir)
	if err != nil {
		return nil, err
	}
	pi := &pkgInfo{name: p, fset: token.NewFileSet(), fnames: map[*ast.File]string{}, structs: map[string]*structInfo{},
		funcs: map[string]*funcInfo{}, ctors: map[string]*structInfo{}, imports: map[*ast.File]map[string]string{},
		fieldNames: map[string]bool{}}
	var names []string
	for _, e := range ents {
		n := e.Name()
		if !strings.HasSuffix(n, ".go") || strings.HasSuffix(n, "_test.go") || strings.HasPrefix(n, "verif_") {
			continue
		}
		names = append(names, n)
	}
	sort.Strings(names)
	for _, n := range names {
		f, err := parser.ParseFile(pi.fset, filepath.Join(dir, n), nil, 0)
		if err != nil {
			return nil, err
		}
		pi.files = append(pi.files, f)
		pi.fnames[f] = p + "/" + n
	}
	// tracked struct declarations
	want := map[string]bool{}
	for _, t := range Tracked[p] {
		want[t] = true
	}
	for _, f := range pi.files {
		for _, d := range f.Decls {
			gd, ok := d.(*ast.GenDecl)
			if !ok || gd.Tok != token.TYPE {
				continue
			}
			for _, s := range gd.Specs {
				ts := s.(*ast.TypeSpec)
				st, ok := ts.Type.(*ast.StructType)
				if !ok || !want[ts.Name.Name] {
					continue
				}
				si := &structInfo{pkg: p, name: ts.Name.Name, fields: map[string]fieldKind{}}
				for _, fl := range st.Fields.List {
					k := kData
					if se, ok := fl.Type.(*ast.SelectorExpr); ok {
						if id, ok := se.X.(*ast.Ident); ok && id.Name == "sync" {
							switch se.Sel.Name {
							case "Mutex":
								k = kMutex
							case "RWMutex":
								k = kRWMutex
							case "Once":
								k = kOnce
							}
						}
					}
					for _, n := range fl.Names {
						si.fields[n.Name] = k
						si.order = append(si.order, n.Name)
						if k == kData {
							pi.fieldNames[n.Name] = true
						}
					}
				}
				pi.structs[si.name] = si
				a.allTypes[p+"."+si.name] = si
			}
		}
	}
	return pi, nil
}

// typeOf resolves a type expression to a tracked struct (T, *T, pkg.T, *pkg.T).
func (a *analyzer) typeOf(pi *pkgInfo, e ast.Expr) *structInfo {
	switch t := e.(type) {
	case *ast.StarExpr:
		return a.typeOf(pi, t.X)
	case *ast.ParenExpr:
		return a.typeOf(pi, t.X)
	case *ast.Ident:
		return pi.structs[t.Name]
	case *ast.SelectorExpr:
		if id, ok := t.X.(*ast.Ident); ok {
			return a.allTypes[id.Name+"."+t.Sel.Name]
		}
	}
	return nil
}

func (a *analyzer) collect(pi *pkgInfo) {
	for _, f := range pi.files {
		for _, d := range f.Decls {
			fd, ok := d.(*ast.FuncDecl)
			if !ok || fd.Body == nil {
				continue
			}
			fi := &funcInfo{pkg: pi, decl: fd, litIdx: map[*ast.FuncLit]int{}}
			fi.name = fd.Name.Name
			if fd.Recv != nil && len(fd.Recv.List) == 1 {
				t := fd.Recv.List[0].Type
				if s, ok := t.(*ast.StarExpr); ok {
					t = s.X
				}
				if id, ok := t.(*ast.Ident); ok {
					fi.name = id.Name + "." + fd.Name.Name
					fi.recv = pi.structs[id.Name]
				}
			} else if fd.Type.Results != nil && len(fd.Type.Results.List) >= 1 {
				if si := a.typeOf(pi, fd.Type.Results.List[0].Type); si != nil {
					pi.ctors[fd.Name.Name] = si
				}
			}
			n := 0
			ast.Inspect(fd.Body, func(x ast.Node) bool {
				if fl, ok := x.(*ast.FuncLit); ok {
					n++
					fi.litIdx[fl] = n
				}
				return true
			})
			pi.funcs[fi.name] = fi
		}
	}
}

func (a *analyzer) root(fi *funcInfo) {
	a.roots[fi] = true
	env := map[string]objRef{}
	a.bindParams(fi, env, "self", nil, nil)
	st := newState()
	a.runFunc(fi, env, st)
}

// bindParams puts the receiver and tracked-typed parameters into env.
func (a *analyzer) bindParams(fi *funcInfo, env map[string]objRef, recvKey string, args []ast.Expr, caller *frame) {
	fd := fi.decl
	if fi.recv != nil && len(fd.Recv.List[0].Names) == 1 {
		env[fd.Recv.List[0].Names[0].Name] = objRef{fi.recv, recvKey}
	}
	i := 0
	for _, p := range fd.Type.Params.List {
		t := a.typeOf(fi.pkg, p.Type)
		names := p.Names
		if len(names) == 0 {
			i++
			continue
		}
		for _, n := range names {
			if t != nil {
				key := "param:" + fi.name + ":" + n.Name
				if caller != nil && i < len(args) {
					if id, ok := args[i].(*ast.Ident); ok {
						if o, ok := caller.env[id.Name]; ok && o.typ == t {
							key = o.key
						}
					}
				}
				env[n.Name] = objRef{t, key}
			}
			i++
		}
	}
}

// runFunc analyses the body of fi in the given context; returns the state at exit.
func (a *analyzer) runFunc(fi *funcInfo, env map[string]objRef, st *state) *state {
	var keys []string
	for k, v := range env {
		keys = append(keys, k+"="+v.key)
	}
	sort.Strings(keys)
	ctx := fi.pkg.name + "." + fi.name + "#" + strings.Join(keys, ",") + "#" + st.sig()
	a.analysed[fi] = true
	if out, ok := a.memo[ctx]; ok {
		return out.clone()
	}
	if a.mute > 0 {
		if out, ok := a.memoQ[ctx]; ok {
			return out.clone()
		}
	}
	if a.stack[ctx] || len(a.stack) > MaxDepth {
		return st.clone() // recursion: assume the callee is lock-neutral
	}
	if a.timedOut || time.Now().After(a.deadline) {
		a.timedOut = true
		return st.clone()
	}
	a.stack[ctx] = true
	if a.mute == 0 {
		a.contexts++
	}
	fr := newFrame(fi, fi.name, env)
	out := fr.exit(a.block(fr, fi.decl.Body.List, st.clone()))
	delete(a.stack, ctx)
	if a.mute == 0 {
		a.memo[ctx] = out.clone()
	} else {
		a.memoQ[ctx] = out.clone()
	}
	return out
}

func (a *analyzer) emit(fr *frame, pos token.Pos, o objRef, field string, write bool, st *state) {
	if a.mute > 0 {
		return
	}
	var locks []string
	pre := o.key + "."
	for k, shared := range st.held {
		if strings.HasPrefix(k, pre) {
			m := k[len(pre):]
			if shared {
				m += ":r"
			}
			locks = append(locks, m)
		}
	}
	sort.Strings(locks)
	f := Fact{Struct: o.typ.name, Field: field, Write: write, Fn: fr.fn, Locks: locks, Escaped: st.escaped[o.key]}
	a.facts[f.key()] = f
	p := fr.fi.pkg.fset.Position(pos)
	rel, err := filepath.Rel(a.repo, p.Filename)
	if err != nil {
		rel = p.Filename
	}
	s := Site{File: rel, Line: p.Line, Struct: o.typ.name, Field: field, Write: write, Fn: fr.fn}
	a.sites[fmt.Sprintf("%s:%d:%s.%s:%v:%s", s.File, s.Line, s.Struct, s.Field, s.Write, s.Fn)] = s
}

func terminates(s ast.Stmt) bool {
	switch x := s.(type) {
	case *ast.ReturnStmt:
		return true
	case *ast.BranchStmt:
		return x.Tok == token.BREAK || x.Tok == token.CONTINUE || x.Tok == token.GOTO
	case *ast.ExprStmt:
		if c, ok := x.X.(*ast.CallExpr); ok {
			if id, ok := c.Fun.(*ast.Ident); ok && id.Name == "panic" {
				return true
			}
		}
	}
	return false
}

func (a *analyzer) block(fr *frame, list []ast.Stmt, st *state) *state {
	for _, s := range list {
		if st.dead {
			break
		}
		st = a.stmt(fr, s, st)
	}
	return st
}

func (a *analyzer) stmt(fr *frame, s ast.Stmt, st *state) *state {
	switch x := s.(type) {
	case nil:
		return st
	case *ast.ExprStmt:
		a.expr(fr, x.X, st)
		if terminates(s) {
			st.dead = true
		}
	case *ast.AssignStmt:
		for _, r := range x.Rhs {
			a.expr(fr, r, st)
		}
		for _, l := range x.Lhs {
			a.lhs(fr, l, st, x.Tok != token.ASSIGN && x.Tok != token.DEFINE)
		}
		// locals: shadowed names lose their type; a local bound to a fresh object of a
		// tracked type (or to another tracked variable) gets one
		if x.Tok == token.DEFINE {
			for _, l := range x.Lhs {
				if id, ok := l.(*ast.Ident); ok {
					delete(fr.env, id.Name)
				}
			}
		}
		if len(x.Lhs) >= 1 && len(x.Rhs) == 1 {
			if id, ok := x.Lhs[0].(*ast.Ident); ok && id.Name != "_" {
				if t := a.freshType(fr, x.Rhs[0]); t != nil {
					a.fresh++
					fr.env[id.Name] = objRef{t, fmt.Sprintf("new:%s:%s", fr.fn, id.Name)}
				} else if rid, ok := x.Rhs[0].(*ast.Ident); ok && x.Tok == token.DEFINE {
					if o, ok := fr.env[rid.Name]; ok {
						fr.env[id.Name] = o // alias
					}
				}
			}
		}
	case *ast.IncDecStmt:
		a.lhs(fr, x.X, st, true)
	case *ast.DeclStmt:
		if gd, ok := x.Decl.(*ast.GenDecl); ok {
			for _, sp := range gd.Specs {
				if vs, ok := sp.(*ast.ValueSpec); ok {
					for _, v := range vs.Values {
						a.expr(fr, v, st)
					}
					for i, n := range vs.Names {
						var t *structInfo
						if vs.Type != nil {
							t = a.typeOf(fr.fi.pkg, vs.Type)
						} else if i < len(vs.Values) {
							t = a.freshType(fr, vs.Values[i])
						}
						if t != nil {
							fr.env[n.Name] = objRef{t, fmt.Sprintf("new:%s:%s", fr.fn, n.Name)}
						} else {
							delete(fr.env, n.Name)
						}
					}
				}
			}
		}
	case *ast.BlockStmt:
		return a.block(fr, x.List, st)
	case *ast.LabeledStmt:
		return a.stmt(fr, x.Stmt, st)
	case *ast.ReturnStmt:
		for _, r := range x.Results {
			a.expr(fr, r, st)
		}
		*fr.rets = append(*fr.rets, st.clone())
		st.dead = true
	case *ast.BranchStmt:
		if terminates(s) {
			st.dead = true
		}
	case *ast.IfStmt:
		st = a.stmt(fr, x.Init, st)
		a.expr(fr, x.Cond, st)
		thn := a.block(fr, x.Body.List, st.clone())
		var els *state
		if x.Else != nil {
			els = a.stmt(fr, x.Else, st.clone())
		} else {
			els = st
		}
		if thn.dead && els.dead {
			thn.dead = true
			return thn
		}
		return merge(thn, els)
	case *ast.ForStmt:
		st = a.stmt(fr, x.Init, st)
		return a.loop(fr, st, func(s0 *state) *state {
			if x.Cond != nil {
				a.expr(fr, x.Cond, s0)
			}
			s1 := a.block(fr, x.Body.List, s0)
			s1.dead = false
			return a.stmt(fr, x.Post, s1)
		}, x.Cond == nil)
	case *ast.RangeStmt:
		a.expr(fr, x.X, st)
		for _, kv := range []ast.Expr{x.Key, x.Value} {
			if id, ok := kv.(*ast.Ident); ok {
				delete(fr.env, id.Name)
			}
		}
		return a.loop(fr, st, func(s0 *state) *state {
			s1 := a.block(fr, x.Body.List, s0)
			s1.dead = false
			return s1
		}, false)
	case *ast.SwitchStmt:
		st = a.stmt(fr, x.Init, st)
		if x.Tag != nil {
			a.expr(fr, x.Tag, st)
		}
		return a.clauses(fr, x.Body.List, st)
	case *ast.TypeSwitchStmt:
		st = a.stmt(fr, x.Init, st)
		st = a.stmt(fr, x.Assign, st)
		return a.clauses(fr, x.Body.List, st)
	case *ast.SelectStmt:
		return a.clauses(fr, x.Body.List, st)
	case *ast.SendStmt:
		a.expr(fr, x.Chan, st)
		a.expr(fr, x.Value, st)
	case *ast.DeferStmt:
		a.deferred(fr, x.Call, st)
	case *ast.GoStmt:
		a.goStmt(fr, x.Call, st)
	}
	return st
}

// loop: head state = entry ∩ end-of-body, to a fixpoint (facts are only emitted in the
// final pass); a `for {}` without condition is left only through break/return, which this
// analysis approximates by the head state as well.
func (a *analyzer) loop(fr *frame, entry *state, body func(*state) *state, infinite bool) *state {
	head := entry.clone()
	for i := 0; i < 8; i++ {
		a.mute++
		envSave := cloneEnv(fr.env)
		out := body(head.clone())
		fr.env = envSave
		a.mute--
		n := merge(head, out)
		if n.sig() == head.sig() {
			break
		}
		head = n
	}
	out := body(head.clone())
	return merge(head, out)
}

func cloneEnv(e map[string]objRef) map[string]objRef {
	n := map[string]objRef{}
	for k, v := range e {
		n[k] = v
	}
	return n
}

func (a *analyzer) clauses(fr *frame, list []ast.Stmt, st *state) *state {
	var outs []*state
	hasDefault := false
	for _, c := range list {
		s0 := st.clone()
		var body []ast.Stmt
		switch cc := c.(type) {
		case *ast.CaseClause:
			if cc.List == nil {
				hasDefault = true
			}
			for _, e := range cc.List {
				a.expr(fr, e, s0)
			}
			body = cc.Body
		case *ast.CommClause:
			if cc.Comm == nil {
				hasDefault = true
			}
			s0 = a.stmt(fr, cc.Comm, s0)
			body = cc.Body
		}
		s1 := a.block(fr, body, s0)
		// an unlabeled break at the end of a clause leaves the statement, not the function
		if s1.dead && len(body) > 0 {
			if b, ok := body[len(body)-1].(*ast.BranchStmt); ok && b.Tok == token.BREAK && b.Label == nil {
				s1.dead = false
			}
		}
		if !s1.dead {
			outs = append(outs, s1)
		}
	}
	if !hasDefault {
		outs = append(outs, st)
	}
	if len(outs) == 0 {
		d := st.clone()
		d.dead = true
		return d
	}
	out := outs[0]
	for _, o := range outs[1:] {
		out = merge(out, o)
	}
	return out
}

// freshType: the expression creates a new object of a tracked type.
func (a *analyzer) freshType(fr *frame, e ast.Expr) *structInfo {
	switch x := e.(type) {
	case *ast.UnaryExpr:
		if x.Op == token.AND {
			if cl, ok := x.X.(*ast.CompositeLit); ok {
				return a.typeOf(fr.fi.pkg, cl.Type)
			}
		}
	case *ast.CompositeLit:
		return a.typeOf(fr.fi.pkg, x.Type)
	case *ast.CallExpr:
		switch f := x.Fun.(type) {
		case *ast.Ident:
			if f.Name == "new" && len(x.Args) == 1 {
				return a.typeOf(fr.fi.pkg, x.Args[0])
			}
			return fr.fi.pkg.ctors[f.Name]
		case *ast.SelectorExpr:
			if id, ok := f.X.(*ast.Ident); ok {
				if _, isVar := fr.env[id.Name]; !isVar {
					if pi := a.pkgs[id.Name]; pi != nil {
						return pi.ctors[f.Sel.Name]
					}
				}
			}
		}
	}
	return nil
}

// lhs: an assignment target. rw: also read (op-assign, ++).
func (a *analyzer) lhs(fr *frame, e ast.Expr, st *state, alsoRead bool) {
	base := e
	for {
		switch x := base.(type) {
		case *ast.IndexExpr:
			a.expr(fr, x.Index, st)
			base = x.X
			continue
		case *ast.ParenExpr:
			base = x.X
			continue
		case *ast.StarExpr:
			base = x.X
			continue
		}
		break
	}
	if sel, ok := base.(*ast.SelectorExpr); ok {
		if o, fld, ok := a.fieldSel(fr, sel); ok {
			a.emit(fr, sel.Sel.Pos(), o, fld, true, st)
			if alsoRead {
				a.emit(fr, sel.Sel.Pos(), o, fld, false, st)
			}
			return
		}
		// x.f.g = v : a write into the value stored in field f
		if inner, ok := sel.X.(*ast.SelectorExpr); ok {
			if o, fld, ok := a.fieldSel(fr, inner); ok {
				a.emit(fr, inner.Sel.Pos(), o, fld, true, st)
				return
			}
		}
		a.expr(fr, base, st)
		return
	}
	if _, ok := base.(*ast.Ident); ok {
		return
	}
	a.expr(fr, base, st)
}

// fieldSel: sel is `v.f` with v a tracked variable and f one of its data fields.
func (a *analyzer) fieldSel(fr *frame, sel *ast.SelectorExpr) (objRef, string, bool) {
	id, ok := sel.X.(*ast.Ident)
	if !ok {
		return objRef{}, "", false
	}
	o, ok := fr.env[id.Name]
	if !ok {
		return objRef{}, "", false
	}
	if k, ok := o.typ.fields[sel.Sel.Name]; ok && k == kData {
		return o, sel.Sel.Name, true
	}
	return objRef{}, "", false
}

func (a *analyzer) method(o objRef, name string) *funcInfo {
	pi := a.pkgs[o.typ.pkg]
	return pi.funcs[o.typ.name+"."+name]
}

// methodIn: like method, but only when the type lives in the package of the current
// function: calls across packages go through exported methods, which are roots anyway,
// and are treated as opaque (the object escapes).
func (a *analyzer) methodIn(fr *frame, o objRef, name string) *funcInfo {
	if o.typ.pkg != fr.fi.pkg.name {
		return nil
	}
	return a.method(o, name)
}

// mentions: the expression is (or takes a method value of) a tracked variable; returns its keys.
func (a *analyzer) passedObjects(fr *frame, args []ast.Expr) []string {
	var keys []string
	for _, e := range args {
		switch x := e.(type) {
		case *ast.Ident:
			if o, ok := fr.env[x.Name]; ok {
				keys = append(keys, o.key)
			}
		case *ast.SelectorExpr:
			if id, ok := x.X.(*ast.Ident); ok {
				if o, ok := fr.env[id.Name]; ok {
					if a.method(o, x.Sel.Name) != nil {
						keys = append(keys, o.key)
					}
				}
			}
		}
	}
	return keys
}

var syncCallers = map[string]bool{"Do": true, "Slice": true, "SliceStable": true, "SortFunc": true, "SortStableFunc": true, "Sort": true}

func (a *analyzer) expr(fr *frame, e ast.Expr, st *state) {
	switch x := e.(type) {
	case nil:
	case *ast.Ident, *ast.BasicLit:
	case *ast.ParenExpr:
		a.expr(fr, x.X, st)
	case *ast.StarExpr:
		a.expr(fr, x.X, st)
	case *ast.UnaryExpr:
		if x.Op == token.AND {
			if sel, ok := x.X.(*ast.SelectorExpr); ok {
				if o, fld, ok := a.fieldSel(fr, sel); ok {
					// address of a field: whoever gets the pointer may write
					a.emit(fr, sel.Sel.Pos(), o, fld, true, st)
					return
				}
			}
		}
		a.expr(fr, x.X, st)
	case *ast.BinaryExpr:
		a.expr(fr, x.X, st)
		a.expr(fr, x.Y, st)
	case *ast.KeyValueExpr:
		a.expr(fr, x.Value, st)
	case *ast.IndexExpr:
		a.expr(fr, x.X, st)
		a.expr(fr, x.Index, st)
	case *ast.SliceExpr:
		a.expr(fr, x.X, st)
		a.expr(fr, x.Low, st)
		a.expr(fr, x.High, st)
		a.expr(fr, x.Max, st)
	case *ast.TypeAssertExpr:
		a.expr(fr, x.X, st)
	case *ast.CompositeLit:
		t := a.typeOf(fr.fi.pkg, x.Type)
		for _, el := range x.Elts {
			if kv, ok := el.(*ast.KeyValueExpr); ok {
				a.expr(fr, kv.Value, st)
				if t != nil {
					if id, ok := kv.Key.(*ast.Ident); ok && t.fields[id.Name] == kData {
						if _, isField := t.fields[id.Name]; isField {
							o := objRef{t, fmt.Sprintf("lit:%s:%d", fr.fn, x.Pos())}
							a.emit(fr, id.Pos(), o, id.Name, true, st)
						}
					}
				}
			} else {
				a.expr(fr, el, st)
			}
		}
	case *ast.FuncLit:
		a.funcLit(fr, x, st, false, "fn")
	case *ast.SelectorExpr:
		if o, fld, ok := a.fieldSel(fr, x); ok {
			a.emit(fr, x.Sel.Pos(), o, fld, false, st)
			return
		}
		if id, ok := x.X.(*ast.Ident); ok {
			if o, ok := fr.env[id.Name]; ok {
				if m := a.methodIn(fr, o, x.Sel.Name); m != nil {
					// method value: may be called later from anywhere
					a.valueRoot(m)
				}
				return
			}
			if id.Obj == nil {
				// package qualifier or unresolved top-level name
				if _, isPkg := a.importName(fr, id.Name); isPkg {
					return
				}
			}
		}
		a.expr(fr, x.X, st)
		a.checkUnresolved(fr, x)
	case *ast.CallExpr:
		a.call(fr, x, st)
	}
}

func (a *analyzer) importName(fr *frame, name string) (string, bool) {
	for _, f := range fr.fi.pkg.files {
		for _, im := range f.Imports {
			path := strings.Trim(im.Path.Value, `"`)
			n := path[strings.LastIndex(path, "/")+1:]
			if im.Name != nil {
				n = im.Name.Name
			}
			if n == name {
				return path, true
			}
		}
	}
	return "", false
}

// a selector naming a data field of a tracked struct of this package whose base is not a
// tracked variable: the syntactic analysis cannot attribute it
func (a *analyzer) checkUnresolved(fr *frame, sel *ast.SelectorExpr) {
	if a.mute > 0 || !fr.fi.pkg.fieldNames[sel.Sel.Name] {
		return
	}
	p := fr.fi.pkg.fset.Position(sel.Pos())
	rel, _ := filepath.Rel(a.repo, p.Filename)
	a.unres[fmt.Sprintf("%s:%d: .%s in %s", rel, p.Line, sel.Sel.Name, fr.fn)] = true
}

func (a *analyzer) valueRoot(m *funcInfo) {
	if a.roots[m] || a.mute > 0 {
		return
	}
	a.root(m)
}

func (a *analyzer) funcLit(fr *frame, fl *ast.FuncLit, st *state, inline bool, kind string) {
	if inline {
		// runs synchronously in the caller's thread with the caller's locks; its own
		// returns and defers are its own
		sub := newFrame(fr.fi, fr.fn, fr.env)
		a.block(sub, fl.Body.List, st.clone())
		return
	}
	name := fmt.Sprintf("%s$%s%d", fr.fi.name, kind, fr.fi.litIdx[fl])
	sub := newFrame(fr.fi, name, cloneEnv(fr.env))
	for _, p := range fl.Type.Params.List {
		for _, n := range p.Names {
			delete(sub.env, n.Name)
		}
	}
	// a separate function: empty lockset; the escape flag describes the flow inside one
	// function (see the package comment), so it starts false for goroutine bodies and is
	// inherited by other literals
	s0 := newState()
	if kind == "go" {
		if a.mute == 0 {
			a.goBodies[fr.fi.pkg.name+"."+name] = true
		}
	} else {
		for k, v := range st.escaped {
			s0.escaped[k] = v
		}
	}
	a.block(sub, fl.Body.List, s0)
}

func (a *analyzer) deferred(fr *frame, c *ast.CallExpr, st *state) {
	for _, arg := range c.Args {
		a.expr(fr, arg, st)
	}
	if fl, ok := c.Fun.(*ast.FuncLit); ok {
		a.funcLit(fr, fl, st, false, "defer")
		return
	}
	if sel, ok := c.Fun.(*ast.SelectorExpr); ok {
		if key, op, _, ok := a.lockOp(fr, sel); ok {
			// defer x.mu.Unlock(): held to the end of the function, released at its exit
			if op == "Unlock" || op == "RUnlock" {
				*fr.defers = append(*fr.defers, key)
			}
			return
		}
		if id, ok := sel.X.(*ast.Ident); ok {
			if o, ok := fr.env[id.Name]; ok {
				if m := a.methodIn(fr, o, sel.Sel.Name); m != nil {
					// deferred call of an own method: runs at exit with an unknown lockset
					env := map[string]objRef{}
					a.bindParams(m, env, o.key, c.Args, fr)
					s0 := newState()
					for k, v := range st.escaped {
						s0.escaped[k] = v
					}
					a.runFunc(m, env, s0)
					return
				}
			}
		}
		a.expr(fr, sel.X, st)
	}
}

func (a *analyzer) goStmt(fr *frame, c *ast.CallExpr, st *state) {
	for _, arg := range c.Args {
		a.expr(fr, arg, st)
	}
	switch f := c.Fun.(type) {
	case *ast.FuncLit:
		a.funcLit(fr, f, st, false, "go")
	case *ast.SelectorExpr:
		handled := false
		if id, ok := f.X.(*ast.Ident); ok {
			if o, ok := fr.env[id.Name]; ok {
				if m := a.methodIn(fr, o, f.Sel.Name); m != nil {
					env := map[string]objRef{}
					a.bindParams(m, env, o.key, c.Args, fr)
					s0 := newState()
					if a.mute == 0 {
						a.goBodies[fr.fi.pkg.name+"."+m.name] = true
					}
					a.runFunc(m, env, s0)
					handled = true
				}
			}
		}
		if !handled {
			a.expr(fr, f.X, st)
		}
	case *ast.Ident:
		if m := fr.fi.pkg.funcs[f.Name]; m != nil {
			env := map[string]objRef{}
			a.bindParams(m, env, "", c.Args, fr)
			a.runFunc(m, env, newState())
		}
	}
	// everything this function knows is shared with the new goroutine from here on
	for _, o := range fr.env {
		st.escaped[o.key] = true
	}
}

// lockOp: sel is `v.mu.Lock` etc. on a tracked variable. Returns lock key, op.
func (a *analyzer) lockOp(fr *frame, sel *ast.SelectorExpr) (string, string, fieldKind, bool) {
	inner, ok := sel.X.(*ast.SelectorExpr)
	if !ok {
		return "", "", 0, false
	}
	id, ok := inner.X.(*ast.Ident)
	if !ok {
		return "", "", 0, false
	}
	o, ok := fr.env[id.Name]
	if !ok {
		return "", "", 0, false
	}
	k, ok := o.typ.fields[inner.Sel.Name]
	if !ok || k == kData {
		return "", "", 0, false
	}
	return o.key + "." + inner.Sel.Name, sel.Sel.Name, k, true
}

func (a *analyzer) call(fr *frame, c *ast.CallExpr, st *state) {
	switch f := c.Fun.(type) {
	case *ast.SelectorExpr:
		if key, op, kind, ok := a.lockOp(fr, f); ok {
			switch {
			case kind == kOnce && op == "Do":
				for _, arg := range c.Args {
					if fl, ok := arg.(*ast.FuncLit); ok {
						a.funcLit(fr, fl, st, true, "fn")
					} else {
						a.expr(fr, arg, st)
					}
				}
			case op == "Lock":
				st.held[key] = false
			case op == "RLock":
				st.held[key] = true
			case op == "Unlock", op == "RUnlock":
				delete(st.held, key)
			}
			return
		}
		if id, ok := f.X.(*ast.Ident); ok {
			if o, ok := fr.env[id.Name]; ok {
				if m := a.methodIn(fr, o, f.Sel.Name); m != nil {
					a.args(fr, c, st, false, false)
					env := map[string]objRef{}
					a.bindParams(m, env, o.key, c.Args, fr)
					out := a.runFunc(m, env, st)
					st.held, st.escaped = out.held, out.escaped
					return
				}
				if _, isField := o.typ.fields[f.Sel.Name]; isField {
					// call of a function stored in a field
					a.expr(fr, f, st)
					a.args(fr, c, st, false, true)
					return
				}
				// method we do not analyse inline (other package): opaque, the object is shared
				a.args(fr, c, st, false, true)
				st.escaped[o.key] = true
				return
			}
		}
		// pkg.Func(...) or expr.Method(...)
		a.expr(fr, f.X, st)
		a.args(fr, c, st, syncCallers[f.Sel.Name], !syncCallers[f.Sel.Name])
	case *ast.Ident:
		switch f.Name {
		case "delete":
			if len(c.Args) == 2 {
				a.lhs(fr, c.Args[0], st, false)
				a.expr(fr, c.Args[1], st)
				return
			}
		case "panic":
			a.args(fr, c, st, false, false)
			return
		}
		if m := fr.fi.pkg.funcs[f.Name]; m != nil && isFuncObj(f) {
			a.args(fr, c, st, false, false)
			env := map[string]objRef{}
			a.bindParams(m, env, "", c.Args, fr)
			out := a.runFunc(m, env, st)
			st.held, st.escaped = out.held, out.escaped
			return
		}
		a.args(fr, c, st, false, !isBuiltin(f.Name))
	case *ast.FuncLit:
		// func(){...}() : called right here
		a.args(fr, c, st, false, false)
		a.funcLit(fr, f, st, true, "fn")
	default:
		a.expr(fr, c.Fun, st)
		a.args(fr, c, st, false, true)
	}
}

func isFuncObj(id *ast.Ident) bool {
	if id.Obj == nil {
		return true
	}
	return id.Obj.Kind == ast.Fun
}

var builtins = map[string]bool{"len": true, "cap": true, "append": true, "make": true, "new": true, "copy": true, "close": true,
	"string": true, "int": true, "uint": true, "byte": true, "float64": true, "int32": true, "uint16": true, "min": true, "max": true}

func isBuiltin(n string) bool { return builtins[n] }

// args: evaluate the arguments.  inlineLits: function literals among them are called
// synchronously by the callee with the caller's locks (sync.Once.Do, sort.Slice, ...);
// otherwise they start with the empty lockset.  escape: the callee is not analysed
// inline, so tracked objects passed to it are shared from here on.
func (a *analyzer) args(fr *frame, c *ast.CallExpr, st *state, inlineLits, escape bool) {
	for _, arg := range c.Args {
		if fl, ok := arg.(*ast.FuncLit); ok {
			a.funcLit(fr, fl, st, inlineLits, "fn")
			continue
		}
		a.expr(fr, arg, st)
	}
	if escape {
		for _, k := range a.passedObjects(fr, c.Args) {
			st.escaped[k] = true
		}
	}
}

// CoqFact renders a fact as a Gallina term of type Lockset.fact.
func CoqFact(f Fact) string {
	q := func(s string) string { return `"` + strings.ReplaceAll(s, `"`, `""`) + `"` }
	rw := "R"
	if f.Write {
		rw = "W"
	}
	var ls []string
	for _, l := range f.Locks {
		if strings.HasSuffix(l, ":r") {
			ls = append(ls, "("+q(strings.TrimSuffix(l, ":r"))+", Shared)")
		} else {
			ls = append(ls, "("+q(l)+", Excl)")
		}
	}
	esc := "false"
	if f.Escaped {
		esc = "true"
	}
	return fmt.Sprintf("mkFact %s %s %s %s [%s] %s", q(f.Struct), q(f.Field), rw, q(f.Fn), strings.Join(ls, "; "), esc)
}
