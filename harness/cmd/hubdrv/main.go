// hubdrv runs TWO real hub.Hub instances in one process against each other: real TLS and
// websockets over loopback, a fake mDNS per hub (the hubs learn about each other through
// ReportMdnsEntries), and a harness-owned TCP proxy in front of each hub's listener so that
// connections can be counted and cut.  Scenarios for C05: which hub has the larger SKI, who
// sees whom first (or both at the same moment), and a list of disturbances (DisconnectSKI by
// either side, cutting the TCP connections, restarting a hub, an mDNS event on both hubs at
// the same moment, a cut while delayed dial attempts are pending).  After the last
// disturbance the driver waits for quiescence (polling, generous cap) and records what the
// property talks about; the verdict is computed inside Coq (check_c05 / qobs_codes).
package main

import (
	"bytes"
	"crypto/tls"
	"crypto/x509"
	"flag"
	"fmt"
	"io"
	"log"
	"net"
	"os"
	"sort"
	"strconv"
	"strings"
	"sync"
	"sync/atomic"
	"time"

	"github.com/enbility/ship-go/api"
	"github.com/enbility/ship-go/cert"
	"github.com/enbility/ship-go/hub"
	"github.com/enbility/ship-go/model"

	"verif/harness/internal/vh"
)

var (
	prop    = flag.String("prop", "C05", "property mode")
	seed    = flag.Uint64("seed", 1, "PRNG seed")
	n       = flag.Int("n", 48, "number of scenarios")
	out     = flag.String("out", "", "output JSONL")
	workers = flag.Int("workers", 12, "scenarios run in parallel")
	verbose = flag.Bool("v", false, "print every scenario")
)

const (
	pollEvery   = 20 * time.Millisecond
	stableFor   = 600 * time.Millisecond // the good state has to hold this long
	settleCap   = 25 * time.Second       // cap of every wait for quiescence
	badStable   = 6 * time.Second        // an unchanged not-good observation is final after this
	echoCap     = 3 * time.Second
	shutdownCap = 10 * time.Second
)

// ---------------------------------------------------------------- TCP proxy
type pconn struct {
	a, b   net.Conn
	closed atomic.Bool
}

func (p *pconn) close() {
	if p.closed.CompareAndSwap(false, true) {
		_ = p.a.Close()
		_ = p.b.Close()
	}
}

type proxy struct {
	l      net.Listener
	port   int
	target atomic.Int64
	mu     sync.Mutex
	conns  []*pconn
	total  atomic.Int64
	// while set, every new connection is refused (a process that is gone does not talk)
	blocked atomic.Bool
}

func newProxy() (*proxy, error) {
	l, err := net.Listen("tcp", "127.0.0.1:0")
	if err != nil {
		return nil, err
	}
	p := &proxy{l: l, port: l.Addr().(*net.TCPAddr).Port}
	go p.serve()
	return p, nil
}

func (p *proxy) serve() {
	for {
		c, err := p.l.Accept()
		if err != nil {
			return
		}
		if p.blocked.Load() {
			_ = c.Close()
			continue
		}
		go func() {
			t := p.target.Load()
			d, err := net.DialTimeout("tcp", fmt.Sprintf("127.0.0.1:%d", t), 3*time.Second)
			if err != nil {
				_ = c.Close()
				return
			}
			pc := &pconn{a: c, b: d}
			p.mu.Lock()
			p.conns = append(p.conns, pc)
			p.mu.Unlock()
			p.total.Add(1)
			go func() { _, _ = io.Copy(d, c); pc.close() }()
			go func() { _, _ = io.Copy(c, d); pc.close() }()
		}()
	}
}

func (p *proxy) live() int {
	p.mu.Lock()
	defer p.mu.Unlock()
	k := 0
	for _, c := range p.conns {
		if !c.closed.Load() {
			k++
		}
	}
	return k
}

func (p *proxy) cutAll() {
	p.mu.Lock()
	cs := append([]*pconn(nil), p.conns...)
	p.mu.Unlock()
	for _, c := range cs {
		c.close()
	}
}

func (p *proxy) stop() { _ = p.l.Close(); p.cutAll() }

// ---------------------------------------------------------------- application and fake mDNS
type app struct {
	mu     sync.Mutex
	setups []api.ShipConnectionDataWriterInterface
	rx     map[string]api.ShipConnectionDataWriterInterface // payload marker -> receiving connection
	nDisc  int
	deny   bool // AllowWaitingForTrust answers false: a request of an untrusted peer is aborted at once
}

type rdr struct {
	a *app
	w api.ShipConnectionDataWriterInterface
}

func (r *rdr) HandleShipPayloadMessage(msg []byte) {
	i := bytes.Index(msg, []byte(`"n":`))
	if i < 0 {
		return
	}
	j := i + 4
	for j < len(msg) && msg[j] >= '0' && msg[j] <= '9' {
		j++
	}
	r.a.mu.Lock()
	r.a.rx[string(msg[i+4:j])] = r.w
	r.a.mu.Unlock()
}

func (a *app) RemoteSKIConnected(string) {}
func (a *app) RemoteSKIDisconnected(string) {
	a.mu.Lock()
	a.nDisc++
	a.mu.Unlock()
}
func (a *app) SetupRemoteDevice(ski string, w api.ShipConnectionDataWriterInterface) api.ShipConnectionDataReaderInterface {
	a.mu.Lock()
	a.setups = append(a.setups, w)
	a.mu.Unlock()
	return &rdr{a: a, w: w}
}
func (a *app) VisibleRemoteServicesUpdated([]api.RemoteService)              {}
func (a *app) ServiceShipIDUpdate(string, string)                            {}
func (a *app) ServicePairingDetailUpdate(string, *api.ConnectionStateDetail) {}
func (a *app) AllowWaitingForTrust(string) bool                              { return !a.deny }
func (a *app) received(marker string) (api.ShipConnectionDataWriterInterface, bool) {
	a.mu.Lock()
	defer a.mu.Unlock()
	w, ok := a.rx[marker]
	return w, ok
}

// connections handed to the application that are still open
func (a *app) liveSetups() int {
	a.mu.Lock()
	defer a.mu.Unlock()
	k := 0
	for _, w := range a.setups {
		if c, ok := w.(api.ShipConnectionInterface); ok {
			if closed, _ := c.DataHandler().IsDataConnectionClosed(); !closed {
				k++
			}
		}
	}
	return k
}
func (a *app) nSetups() int { a.mu.Lock(); defer a.mu.Unlock(); return len(a.setups) }

type fakeMdns struct {
	cb      atomic.Pointer[cbBox]
	peer    *side
	visible atomic.Bool
}
type cbBox struct{ cb api.MdnsReportInterface }

func (m *fakeMdns) Start(cb api.MdnsReportInterface) error { m.cb.Store(&cbBox{cb}); return nil }
func (m *fakeMdns) Shutdown()                              {}
func (m *fakeMdns) AnnounceMdnsEntry() error               { return nil }
func (m *fakeMdns) UnannounceMdnsEntry()                   {}
func (m *fakeMdns) SetAutoAccept(bool)                     {}
func (m *fakeMdns) QRCodeText() string                     { return "" }
func (m *fakeMdns) RequestMdnsEntries()                    { go m.reportNow(false) }

func (m *fakeMdns) entry() *api.MdnsEntry {
	p := m.peer
	return &api.MdnsEntry{
		Name: "hubdrv-" + p.name, Ski: p.ski, Identifier: p.shipID, Path: "/ship/", Register: false,
		Brand: "b", Model: "m", Type: "t", Serial: "s" + p.name,
		Categories: []api.DeviceCategoryType{api.DeviceCategoryTypeEnergyManagementSystem},
		Port:       p.px.port, Addresses: []net.IP{net.ParseIP("127.0.0.1")},
	}
}

// like the real manager: a fresh copy of the entries, handed over on the caller's goroutine
// (RequestMdnsEntries wraps it in `go`)
func (m *fakeMdns) reportNow(newEntries bool) {
	box := m.cb.Load()
	if box == nil {
		return
	}
	defer func() { _ = recover() }()
	es := map[string]*api.MdnsEntry{}
	if m.visible.Load() {
		es[m.peer.ski] = m.entry()
	}
	box.cb.ReportMdnsEntries(es, newEntries)
}

// ---------------------------------------------------------------- one hub with its surroundings
type side struct {
	name   string
	crt    tls.Certificate
	ski    string
	shipID string
	px     *proxy // in front of this hub's listener; the PEER dials this port
	app    *app
	mdns   *fakeMdns
	hub    *hub.Hub
	peer   *side
	paired bool // RegisterRemoteSKI(peer) has been called (it survives a restart)
}

func freePort() int {
	for i := 0; i < 20; i++ {
		l, err := net.Listen("tcp", "127.0.0.1:0")
		if err != nil {
			continue
		}
		port := l.Addr().(*net.TCPAddr).Port
		_ = l.Close()
		return port
	}
	return 0
}

func skiOf(c tls.Certificate) string {
	x, err := x509.ParseCertificate(c.Certificate[0])
	if err != nil {
		return ""
	}
	s, _ := cert.SkiFromCertificate(x)
	return s
}

func (s *side) start() {
	port := freePort()
	local := api.NewServiceDetails(s.ski)
	local.SetShipID(s.shipID)
	local.SetDeviceType("EnergyManagementSystem")
	vis := false
	if s.mdns != nil {
		vis = s.mdns.visible.Load()
	}
	s.mdns = &fakeMdns{peer: s.peer}
	s.mdns.visible.Store(vis)
	s.hub = hub.NewHub(s.app, s.mdns, port, s.crt, local)
	if s.paired {
		s.hub.RegisterRemoteSKI(s.peer.ski) // paired before the start: trusted, nothing queued
	}
	s.hub.Start()
	s.px.target.Store(int64(port))
	// the listener is started on a goroutine by the hub: wait until it accepts
	deadline := time.Now().Add(5 * time.Second)
	for time.Now().Before(deadline) {
		c, err := net.DialTimeout("tcp", fmt.Sprintf("127.0.0.1:%d", port), 200*time.Millisecond)
		if err == nil {
			_ = c.Close()
			return
		}
		time.Sleep(5 * time.Millisecond)
	}
}

// Start of the SAME hub object after a Shutdown (the library's own restart)
func (s *side) restartSame() {
	s.hub.Start()
	port := int(s.px.target.Load())
	deadline := time.Now().Add(5 * time.Second)
	for time.Now().Before(deadline) {
		c, err := net.DialTimeout("tcp", fmt.Sprintf("127.0.0.1:%d", port), 200*time.Millisecond)
		if err == nil {
			_ = c.Close()
			return
		}
		time.Sleep(5 * time.Millisecond)
	}
}

func (s *side) shutdown() bool {
	h := s.hub
	done := make(chan struct{})
	go func() { defer close(done); defer func() { _ = recover() }(); h.Shutdown() }()
	select {
	case <-done:
		return true
	case <-time.After(shutdownCap):
		return false
	}
}

func (s *side) regConn() api.ShipConnectionInterface {
	return s.hub.VerifRegistry()[s.peer.ski]
}

// ---------------------------------------------------------------- observation
type qobs struct {
	tcp              int
	regA, regB, same bool
	deadA, deadB     bool
	cplA, cplB       bool
	liveA, liveB     int
	echoAB, echoBA   bool
}

func (q qobs) coq() string {
	return fmt.Sprintf("(mkQ %d %s %s %s %s %s %s %s %d %d %s %s)", q.tcp, vh.B(q.regA), vh.B(q.regB), vh.B(q.same),
		vh.B(q.deadA), vh.B(q.deadB), vh.B(q.cplA), vh.B(q.cplB), q.liveA, q.liveB, vh.B(q.echoAB), vh.B(q.echoBA))
}
func (q qobs) good() bool {
	return q.tcp == 1 && q.regA && q.regB && q.same && !q.deadA && !q.deadB && q.cplA && q.cplB &&
		q.liveA == 1 && q.liveB == 1 && q.echoAB && q.echoBA
}

var markerCtr atomic.Int64

// without payloads: everything but same/echo
func observeCheap(a, b *side) qobs {
	var q qobs
	q.tcp = a.px.live() + b.px.live()
	ca, cb := a.regConn(), b.regConn()
	q.regA, q.regB = ca != nil, cb != nil
	if ca != nil {
		st, _ := ca.ShipHandshakeState()
		q.cplA = st == model.SmeStateComplete
		q.deadA, _ = ca.DataHandler().IsDataConnectionClosed()
	}
	if cb != nil {
		st, _ := cb.ShipHandshakeState()
		q.cplB = st == model.SmeStateComplete
		q.deadB, _ = cb.DataHandler().IsDataConnectionClosed()
	}
	q.liveA, q.liveB = a.app.liveSetups(), b.app.liveSetups()
	return q
}

func cheapGood(q qobs) bool {
	return q.tcp == 1 && q.regA && q.regB && !q.deadA && !q.deadB && q.cplA && q.cplB && q.liveA == 1 && q.liveB == 1
}

// a payload through the registered connection of `from` must reach the application of `to`;
// returns (arrived, arrived on the connection `to` has registered)
func echo(from, to *side) (bool, bool) {
	c := from.regConn()
	if c == nil {
		return false, false
	}
	w, ok := c.(api.ShipConnectionDataWriterInterface)
	if !ok {
		return false, false
	}
	marker := fmt.Sprint(1000000 + markerCtr.Add(1))
	func() {
		defer func() { _ = recover() }()
		w.WriteShipMessageWithPayload([]byte(fmt.Sprintf(`{"datagram":{"n":%s}}`, marker)))
	}()
	deadline := time.Now().Add(echoCap)
	for time.Now().Before(deadline) {
		if rw, ok := to.app.received(marker); ok {
			tc := to.regConn()
			if tc == nil {
				return true, false
			}
			tw, _ := tc.(api.ShipConnectionDataWriterInterface)
			return true, tw == rw
		}
		time.Sleep(pollEvery)
	}
	return false, false
}

func observeFull(a, b *side) qobs {
	q := observeCheap(a, b)
	if q.regA && q.regB && !q.deadA && !q.deadB && q.cplA && q.cplB {
		ab, s1 := echo(a, b)
		ba, s2 := echo(b, a)
		q.echoAB, q.echoBA, q.same = ab, ba, s1 && s2
	}
	return q
}

// wait for quiescence: the good state holding for stableFor, or an unchanged observation for
// badStable, or the cap
func settle(a, b *side) qobs {
	deadline := time.Now().Add(settleCap)
	var goodSince, sameSince time.Time
	var last qobs
	first := true
	for time.Now().Before(deadline) {
		q := observeCheap(a, b)
		now := time.Now()
		if first || q != last {
			sameSince, last, first = now, q, false
		}
		if cheapGood(q) {
			if goodSince.IsZero() {
				goodSince = now
			}
			if now.Sub(goodSince) >= stableFor && !a.hub.VerifAttemptRunning(b.ski) && !b.hub.VerifAttemptRunning(a.ski) {
				full := observeFull(a, b)
				if full.good() {
					return full
				}
			}
			// pending attempts delay the verdict a little, not for ever
			if now.Sub(goodSince) >= 3*time.Second {
				return observeFull(a, b)
			}
		} else {
			goodSince = time.Time{}
			if now.Sub(sameSince) >= badStable {
				return observeFull(a, b)
			}
		}
		time.Sleep(pollEvery)
	}
	return observeFull(a, b)
}

// ---------------------------------------------------------------- scenarios
type scen struct {
	id        int
	aLarger   bool // hub "a" (the one that sees first / is named first in disturbances) has the larger SKI
	gapMs     int  // b becomes visible gapMs after a; 0 = the same moment
	lateReg   bool // the hubs see each other first and are paired afterwards (RegisterRemoteSKI on a started hub queues the SKI and dials at once, without back-off)
	denyWait  bool // no waiting for trust on either hub: until it registers the peer, a hub aborts the peer's requests (the aborted connection stays registered for 1 s)
	dist      []string
	waitFirst []bool // wait for quiescence before the disturbance (else a random short delay)
	delays    []int
	sub       *vh.Rng
}

var distKinds = []string{"disconnect_a", "disconnect_b", "cut", "restart_a", "restart_b", "mdns_both", "pending_cut", "pending_disconnect"}

// directed scenarios beyond the single disturbances and the close window:
//   deny:<gap_ms>   the hubs see each other, a registers b; b does not wait for trust (it aborts
//                   a's requests, each aborted connection stays registered for a second) and
//                   registers a <gap_ms> later - while such a connection is registered or between two
//   samehub:<ms>    Shutdown and Start of BOTH hub objects (not new ones) while each has a delayed
//                   dial pending whose timer expires during the <ms> the hubs are down
var extraKinds = []string{
	"deny:100", "deny:100", "deny:300", "deny:300", "deny:600", "deny:600", "deny:900", "deny:900", "deny:1500", "deny:1500",
	"samehub:1300", "samehub:1300", "samehub:300", "samehub:300",
}

// compound disturbances around the 500 ms window of a graceful close (the close announce is
// sent, the connection is closed and reported 500 ms later): the other hub disconnects too,
// 0/50/150/400 ms later, in both orders; the transport is cut 50-400 ms after a DisconnectSKI;
// a DisconnectSKI follows a cut.  name:first:gap_ms
var windowKinds = []string{
	"disc_both:a:0", "disc_both:b:0", "disc_both:a:50", "disc_both:b:50",
	"disc_both:a:150", "disc_both:b:150", "disc_both:a:400", "disc_both:b:400",
	"disc_cut:a:50", "disc_cut:b:150", "disc_cut:a:250", "disc_cut:b:400",
	"cut_disc:a:0", "cut_disc:b:50",
}

func isWindow(d string) bool { return strings.Contains(d, ":") && !strings.HasPrefix(d, "samehub:") }

func plan(r *vh.Rng, n int) []scen {
	var s []scen
	gaps := []int{0, 0, 0, 30, 300, 1500}
	singles := 12 + 2*len(distKinds)
	windows := singles + len(windowKinds)
	extras := windows + len(extraKinds)
	all := append(append([]string(nil), distKinds...), windowKinds...)
	for i := 0; i < n; i++ {
		sc := scen{id: i, aLarger: i%2 == 0, gapMs: gaps[(i/2)%len(gaps)], lateReg: (i/2)%2 == 0, sub: r.Fork()}
		var k int
		switch {
		case i < 12:
			k = 0
		case i < windows:
			k = 1
		case i < extras:
			e := extraKinds[i-windows]
			sc.aLarger = (i-windows)%2 == 0
			if strings.HasPrefix(e, "deny:") {
				sc.denyWait, sc.lateReg = true, true
				sc.gapMs, _ = strconv.Atoi(e[5:])
			} else {
				sc.dist, sc.waitFirst, sc.delays = []string{e}, []bool{true}, []int{0}
			}
			k = 0
		default:
			k = 1 + r.Intn(3)
		}
		for j := 0; j < k; j++ {
			d := vh.Pick(r, all)
			if i >= 12 && i < singles {
				d = distKinds[(i-12)/2]
			} else if i >= singles && i < windows {
				d = windowKinds[i-singles]
				// the larger SKI on either side of every window scenario over two seeds' worth
				sc.aLarger = (i-singles)/2%2 == 0 != (i%2 == 0)
			}
			sc.dist = append(sc.dist, d)
			sc.waitFirst = append(sc.waitFirst, d == "pending_cut" || d == "pending_disconnect" || isWindow(d) || r.Chance(60))
			sc.delays = append(sc.delays, r.Intn(400))
		}
		s = append(s, sc)
	}
	return s
}

func both(f, g func()) {
	var wg sync.WaitGroup
	start := make(chan struct{})
	wg.Add(2)
	go func() { defer wg.Done(); <-start; f() }()
	go func() { defer wg.Done(); <-start; g() }()
	close(start)
	wg.Wait()
}

type result struct {
	q       qobs
	notes   []string
	setupsA int
	setupsB int
	dials   int64
	err     string
}

func runScenario(sc scen) (res result) {
	defer func() {
		if r := recover(); r != nil {
			res.err = fmt.Sprint("panic: ", r)
		}
	}()
	mk := func(name string) (*side, error) {
		c, err := cert.CreateCertificate("hubdrv", "verif", "DE", "hubdrv-"+name)
		if err != nil {
			return nil, err
		}
		px, err := newProxy()
		if err != nil {
			return nil, err
		}
		return &side{name: name, crt: c, ski: skiOf(c), shipID: "ship-" + name, px: px,
			app: &app{rx: map[string]api.ShipConnectionDataWriterInterface{}, deny: sc.denyWait}}, nil
	}
	x, err := mk(fmt.Sprintf("%dx", sc.id))
	if err != nil {
		res.err = err.Error()
		return
	}
	y, err := mk(fmt.Sprintf("%dy", sc.id))
	if err != nil {
		res.err = err.Error()
		return
	}
	a, b := x, y
	if (a.ski > b.ski) != sc.aLarger {
		a, b = y, x
	}
	a.peer, b.peer = b, a
	defer func() {
		a.shutdown()
		b.shutdown()
		a.px.stop()
		b.px.stop()
	}()
	a.paired, b.paired = !sc.lateReg, !sc.lateReg
	a.start()
	b.start()

	// visibility and pairing
	if sc.lateReg {
		a.mdns.visible.Store(true)
		b.mdns.visible.Store(true)
		both(func() { a.mdns.reportNow(true) }, func() { b.mdns.reportNow(true) })
		a.paired, b.paired = true, true
		if sc.gapMs == 0 {
			both(func() { a.hub.RegisterRemoteSKI(b.ski) }, func() { b.hub.RegisterRemoteSKI(a.ski) })
		} else {
			a.hub.RegisterRemoteSKI(b.ski)
			time.Sleep(time.Duration(sc.gapMs) * time.Millisecond)
			b.hub.RegisterRemoteSKI(a.ski)
		}
	} else if sc.gapMs == 0 {
		a.mdns.visible.Store(true)
		b.mdns.visible.Store(true)
		both(func() { a.mdns.reportNow(true) }, func() { b.mdns.reportNow(true) })
	} else {
		a.mdns.visible.Store(true)
		a.mdns.reportNow(true)
		time.Sleep(time.Duration(sc.gapMs) * time.Millisecond)
		b.mdns.visible.Store(true)
		b.mdns.reportNow(true)
	}

	for i, d := range sc.dist {
		if sc.waitFirst[i] {
			q := settle(a, b)
			if !q.good() {
				res.notes = append(res.notes, fmt.Sprintf("not converged before disturbance %d (%s)", i, d))
				res.q = q
				return
			}
		} else {
			time.Sleep(time.Duration(sc.delays[i]) * time.Millisecond)
		}
		if isWindow(d) {
			parts := strings.Split(d, ":")
			first, second := a, b
			if parts[1] == "b" {
				first, second = b, a
			}
			gap, _ := strconv.Atoi(parts[2])
			pause := func() {
				if gap > 0 {
					time.Sleep(time.Duration(gap) * time.Millisecond)
				}
			}
			switch parts[0] {
			case "disc_both":
				if gap == 0 {
					both(func() { first.hub.DisconnectSKI(second.ski, "verif") }, func() { second.hub.DisconnectSKI(first.ski, "verif") })
				} else {
					first.hub.DisconnectSKI(second.ski, "verif")
					pause()
					second.hub.DisconnectSKI(first.ski, "verif")
				}
			case "disc_cut":
				first.hub.DisconnectSKI(second.ski, "verif")
				pause()
				a.px.cutAll()
				b.px.cutAll()
			case "cut_disc":
				a.px.cutAll()
				b.px.cutAll()
				pause()
				first.hub.DisconnectSKI(second.ski, "verif")
			}
			continue
		}
		if strings.HasPrefix(d, "samehub:") {
			down, _ := strconv.Atoi(d[8:])
			// each hub has a delayed dial pending (a report that passed its connected-check
			// earlier), then both hub objects are shut down and started again
			a.hub.VerifCoordinate(b.ski, a.mdns.entry())
			b.hub.VerifCoordinate(a.ski, b.mdns.entry())
			okA, okB := true, true
			both(func() { okA = a.shutdown() }, func() { okB = b.shutdown() })
			if !okA || !okB {
				res.notes = append(res.notes, "Shutdown did not return")
			}
			a.px.cutAll()
			b.px.cutAll()
			time.Sleep(time.Duration(down) * time.Millisecond)
			both(func() { a.restartSame() }, func() { b.restartSame() })
			both(func() { a.mdns.reportNow(true) }, func() { b.mdns.reportNow(true) })
			continue
		}
		switch d {
		case "disconnect_a":
			a.hub.DisconnectSKI(b.ski, "verif")
		case "disconnect_b":
			b.hub.DisconnectSKI(a.ski, "verif")
		case "cut":
			a.px.cutAll()
			b.px.cutAll()
		case "restart_a", "restart_b":
			s := a
			if d == "restart_b" {
				s = b
			}
			if !s.shutdown() {
				res.notes = append(res.notes, "Shutdown did not return")
			}
			// the restart of a hub is the end of its PROCESS: every TCP connection of the old
			// hub object dies with it, including one that its web server had accepted but not
			// yet registered when Shutdown ran (http.Server.Shutdown leaves hijacked
			// connections alone, and the old object would finish that handshake), and a dial
			// of the old object that was in flight.  Nothing of it may talk to the peer again.
			a.px.blocked.Store(true)
			b.px.blocked.Store(true)
			a.px.cutAll()
			b.px.cutAll()
			time.Sleep(150 * time.Millisecond)
			a.px.cutAll()
			b.px.cutAll()
			a.px.blocked.Store(false)
			b.px.blocked.Store(false)
			s.app = &app{rx: map[string]api.ShipConnectionDataWriterInterface{}, deny: sc.denyWait}
			s.start()
			// the restarted hub's browser finds the peer again, the peer sees the new announcement
			both(func() { s.mdns.reportNow(true) }, func() { s.peer.mdns.reportNow(true) })
		case "mdns_both":
			both(func() { a.mdns.reportNow(true) }, func() { b.mdns.reportNow(true) })
		case "pending_cut":
			// a report goroutine of each hub that passed its "already connected?" check before
			// the connection was registered schedules a delayed dial now; then the transport fails
			a.hub.VerifCoordinate(b.ski, a.mdns.entry())
			b.hub.VerifCoordinate(a.ski, b.mdns.entry())
			a.px.cutAll()
			b.px.cutAll()
		case "pending_disconnect":
			// the same with a graceful close: b has a delayed dial pending when a disconnects
			// (b reports the end at once, a 500 ms later, by then a has one pending too)
			b.hub.VerifCoordinate(a.ski, b.mdns.entry())
			a.hub.DisconnectSKI(b.ski, "verif")
			time.Sleep(400 * time.Millisecond)
			a.hub.VerifCoordinate(b.ski, a.mdns.entry())
		}
	}
	res.q = settle(a, b)
	res.setupsA, res.setupsB = a.app.nSetups(), b.app.nSetups()
	res.dials = a.px.total.Load() + b.px.total.Load()
	return
}

func main() {
	flag.Parse()
	if *out == "" {
		fmt.Fprintln(os.Stderr, "need -out")
		os.Exit(2)
	}
	if *prop != "C05" {
		fmt.Fprintln(os.Stderr, "unknown -prop", *prop)
		os.Exit(2)
	}
	log.SetOutput(io.Discard) // net/http logs the readiness probes as TLS handshake errors
	hub.VerifSetDialDelayRanges([][2]int{{0, 1}, {0, 1}, {0, 1}})
	w := vh.NewWriter(*out)
	defer w.Close()
	r := vh.NewRng(*seed)
	scens := plan(r, *n)
	results := make([]result, len(scens))
	var wg sync.WaitGroup
	sem := make(chan struct{}, *workers)
	for i := range scens {
		wg.Add(1)
		sem <- struct{}{}
		go func(i int) {
			defer wg.Done()
			defer func() { <-sem }()
			results[i] = runScenario(scens[i])
		}(i)
	}
	wg.Wait()
	bad, broken := 0, 0
	for i, sc := range scens {
		res := results[i]
		if res.err != "" {
			broken++
			fmt.Fprintf(os.Stderr, "scenario %d: %s\n", i, res.err)
			continue
		}
		sim := sc.gapMs == 0
		for _, d := range sc.dist {
			if d == "mdns_both" || d == "restart_a" || d == "restart_b" || strings.HasPrefix(d, "samehub:") {
				sim = true
			}
		}
		kinds := append([]string(nil), sc.dist...)
		sort.Strings(kinds)
		kind := "plain"
		if sc.denyWait {
			kind = "deny_wait"
		}
		if len(sc.dist) > 0 {
			kind = strings.SplitN(sc.dist[len(sc.dist)-1], ":", 2)[0]
		}
		if !res.q.good() {
			bad++
		}
		if *verbose || !res.q.good() {
			fmt.Printf("scenario %d aLarger=%v gap=%d late=%v dist=%v -> %+v setups=%d/%d dials=%d %v\n", i, sc.aLarger, sc.gapMs, sc.lateReg, sc.dist, res.q, res.setupsA, res.setupsB, res.dials, res.notes)
		}
		w.Put(vh.Case{
			Coq:        fmt.Sprintf("CSys %s %s", vh.B(sim), res.q.coq()),
			Nontrivial: true,
			Key:        fmt.Sprintf("sys|%v|%d|%v|%v|%v|%v", sc.aLarger, sc.gapMs, sc.lateReg, sc.dist, sc.waitFirst, sc.denyWait),
			Kind:       "sys_" + kind,
			Sample: map[string]any{"a_has_larger_ski": sc.aLarger, "gap_ms": sc.gapMs, "paired_after_visible": sc.lateReg, "no_waiting_for_trust": sc.denyWait, "disturbances": sc.dist,
				"wait_before": sc.waitFirst, "simultaneous": sim,
				"observed": map[string]any{"tcp": res.q.tcp, "reg_a": res.q.regA, "reg_b": res.q.regB, "same": res.q.same,
					"dead_a": res.q.deadA, "dead_b": res.q.deadB, "complete_a": res.q.cplA, "complete_b": res.q.cplB,
					"live_setups_a": res.q.liveA, "live_setups_b": res.q.liveB, "echo_ab": res.q.echoAB, "echo_ba": res.q.echoBA,
					"setups_a": res.setupsA, "setups_b": res.setupsB, "tcp_connections_made": res.dials}, "notes": res.notes},
		})
	}
	fmt.Printf("hubdrv: %d scenarios, %d not converged, %d broken\n", len(scens), bad, broken)
	if broken > 0 {
		os.Exit(3)
	}
}
