// hubunit drives a real hub.Hub synchronously over fake connections, a fake
// HubReader and a fake mDNS, one property mode per run, and writes cases for bin/check.
package main

import (
	"flag"
	"fmt"
	"os"

	"verif/harness/internal/vh"
)

var (
	prop = flag.String("prop", "", "property mode (C15, ...)")
	seed = flag.Uint64("seed", 1, "PRNG seed")
	n    = flag.Int("n", 1000, "number of cases")
	out  = flag.String("out", "", "output JSONL")
)

func main() {
	flag.Parse()
	if *out == "" {
		fmt.Fprintln(os.Stderr, "need -out")
		os.Exit(2)
	}
	w := vh.NewWriter(*out)
	defer w.Close()
	r := vh.NewRng(*seed)
	switch *prop {
	case "C15":
		runC15(r, *n, w)
	case "C05":
		runC05(r, *n, w)
	case "C10":
		runC10(r, *n, w)
	case "C09hub":
		runC09hub(r, *n, w)
	case "C11reg":
		runC11reg(r, *n, w)
	case "C18":
		runC18(r, *n, w)
	case "C18sys":
		runC18sys(r, *n, *out+".summary.json", w)
	default:
		fmt.Fprintln(os.Stderr, "unknown -prop", *prop)
		os.Exit(2)
	}
}
