package main

import (
	"fmt"
	"strings"
	"sync/atomic"
	"time"

	"verif/harness/internal/vh"
)

// C11, registration against the end of the same connection (coq/theories/RegRace.v): a real
// hub.Hub, one harness connection registered through the path of ServeHTTP /
// connectFoundService (hook VerifRegisterChecked), and HandleConnectionClosed for that
// connection
//   order 0: reported from another goroutine while the registration asks the connection
//            whether it is closed (the answer, "no", is given after the report has returned or,
//            if the report has to wait for the registration, after 30 ms)
//   order 1: reported before the registration (the connection then answers "closed")
//   order 2: reported after the registration
// Afterwards the registry must not hold the connection.
func c11Reg(r *vh.Rng, w *vh.Writer) {
	local, remote, _ := c05Pair(r)
	if local == remote {
		remote = c05Ski(r, 40)
	}
	order, incoming := r.Intn(3), r.Bool()
	l := &vh.Log{}
	h := c05Hub(local, l)
	h.ServiceForSKI(remote).SetTrusted(r.Bool())
	fw := &vh.FakeWriter{Id: 1}
	c := &vh.FakeConn{Id: 1, Ski: remote, W: fw, L: l}
	var closed atomic.Bool
	reported := make(chan struct{})
	report := func() {
		closed.Store(true)
		h.HandleConnectionClosed(c, false)
		close(reported)
	}
	switch order {
	case 0:
		asked := false
		fw.OnIsClosed = func() bool {
			if asked {
				return closed.Load()
			}
			asked = true
			go report()
			select {
			case <-reported:
			case <-time.After(30 * time.Millisecond):
			}
			return false // the answer was read before the end
		}
		h.VerifRegisterChecked(c, incoming)
	case 1:
		fw.OnIsClosed = func() bool { return closed.Load() }
		report()
		h.VerifRegisterChecked(c, incoming)
	default:
		fw.OnIsClosed = func() bool { return closed.Load() }
		h.VerifRegisterChecked(c, incoming)
		report()
	}
	select {
	case <-reported:
	case <-time.After(5 * time.Second):
	}
	reg := h.VerifRegistry()
	registered := false
	if x, ok := reg[remote]; ok && x == c {
		registered = true
	}
	ndisc := 0
	for _, s := range l.Take() {
		if strings.HasPrefix(s, "ODisconnected") {
			ndisc++
		}
	}
	w.Put(vh.Case{
		Coq:        fmt.Sprintf("mkRegRace %d %s %s %d", order, vh.B(incoming), vh.B(registered), ndisc),
		Nontrivial: order == 0,
		Key:        fmt.Sprintf("regrace|%d|%v|%s|%s", order, incoming, local, remote),
		Kind:       fmt.Sprintf("end_%s_registration", []string{"during", "before", "after"}[order]),
		Sample: map[string]any{"order": []string{"end reported during the closed-check of the registration", "end reported before the registration", "end reported after the registration"}[order],
			"incoming": incoming, "still_registered": registered, "disconnect_notifications": ndisc, "local": local, "remote": remote},
	})
}

func runC11reg(r *vh.Rng, n int, w *vh.Writer) {
	for i := 0; i < n; i++ {
		c11Reg(r, w)
	}
}
