package main

import (
	"fmt"
	"strings"
	"sync/atomic"
	"time"

	"verif/harness/internal/vh"
)

// C11, registration against the end of the same connection (coq/theories/RegRace.v): a real
// hub.Hub, one harness connection registered through the path of ServeHTTP /
// connectFoundService (hook VerifRegisterChecked), and HandleConnectionClosed for that
// connection
//   order 0: reported from another goroutine while the registration asks the connection
//            whether it is closed (the answer, "no", is given after the report has returned or,
//            if the report has to wait for the registration, after 30 ms)
//   order 1: reported before the registration (the connection then answers "closed")
//   order 2: reported after the registration
// Afterwards the registry must not hold the connection.
func c11Reg(r *vh.Rng, w *vh.Writer) {
	local, remote, _ := c05Pair(r)
	if local == remote {
		remote = c05Ski(r, 40)
	}
	order, incoming := r.Intn(3), r.Bool()
	l := &vh.Log{}
	h := c05Hub(local, l)
	h.ServiceForSKI(remote).SetTrusted(r.Bool())
	fw := &vh.FakeWriter{Id: 1}
	c := &vh.FakeConn{Id: 1, Ski: remote, W: fw, L: l}
	var closed atomic.Bool
	reported := make(chan struct{})
	report := func() {
		closed.Store(true)
		h.HandleConnectionClosed(c, false)
		close(reported)
	}
	switch order {
	case 0:
		asked := false
		fw.OnIsClosed = func() bool {
			if asked {
				return closed.Load()
			}
			asked = true
			go report()
			select {
			case <-reported:
			case <-time.After(30 * time.Millisecond):
			}
			return false // the answer was read before the end
		}
		h.VerifRegisterChecked(c, incoming)
	case 1:
		fw.OnIsClosed = func() bool { return closed.Load() }
		report()
		h.VerifRegisterChecked(c, incoming)
	default:
		fw.OnIsClosed = func() bool { return closed.Load() }
		h.VerifRegisterChecked(c, incoming)
		report()
	}
	select {
	case <-reported:
	case <-time.After(5 * time.Second):
	}
	reg := h.VerifRegistry()
	registered := false
	if x, ok := reg[remote]; ok && x == c {
		registered = true
	}
	ndisc := 0
	for _, s := range l.Take() {
		if strings.HasPrefix(s, "ODisconnected") {
			ndisc++
		}
	}
	w.Put(vh.Case{
		Coq:        fmt.Sprintf("mkRegRace %d %s %s %d", order, vh.B(incoming), vh.B(registered), ndisc),
		Nontrivial: order == 0,
		Key:        fmt.Sprintf("regrace|%d|%v|%s|%s", order, incoming, local, remote),
		Kind:       fmt.Sprintf("end_%s_registration", []string{"during", "before", "after"}[order]),
		Sample: map[string]any{"order": []string{"end reported during the closed-check of the registration", "end reported before the registration", "end reported after the registration"}[order],
			"incoming": incoming, "still_registered": registered, "disconnect_notifications": ndisc, "local": local, "remote": remote},
	})
}

func runC11reg(r *vh.Rng, n int, w *vh.Writer) {
	for i := 0; i < n; i++ {
		c11Reg(r, w)
	}
}

// C09, the hub's part of "reported once, before setup" (coq/theories/RegRace.v, hid_case): the
// connection calls Hub.ReportServiceShipID and then, on the same goroutine, Hub.SetupRemoteDevice
// (the order proved for the connection model and observed on it); the application must have
// received ServiceShipIDUpdate when SetupRemoteDevice reaches it.  The log of the application's
// callbacks is read when SetupRemoteDevice has returned and again 20 ms later.
func c09Hub(r *vh.Rng, w *vh.Writer) {
	local, remote, _ := c05Pair(r)
	id := vh.Pick(r, []string{"shipA", "", "id with spaces", "SHIP-ID-0123456789"})
	l := &vh.Log{}
	h := c05Hub(local, l)
	h.ServiceForSKI(remote).SetTrusted(r.Bool())
	h.ReportServiceShipID(remote, id)
	h.SetupRemoteDevice(remote, nil)
	time.Sleep(20 * time.Millisecond)
	var codes []string
	var human []string
	for _, s := range l.Take() {
		human = append(human, s)
		switch {
		case strings.HasPrefix(s, "OConnected "+vh.HxS(remote)):
			codes = append(codes, "1")
		case s == "OShipID "+vh.HxS(remote)+" "+vh.HxS(id):
			codes = append(codes, "2")
		case strings.HasPrefix(s, "OSetup "+vh.HxS(remote)):
			codes = append(codes, "3")
		case strings.HasPrefix(s, "OShipID"):
			codes = append(codes, "4")
		default:
			codes = append(codes, "0")
		}
	}
	w.Put(vh.Case{
		Coq:        fmt.Sprintf("mkHubId %s", vh.List(codes)),
		Nontrivial: true,
		Key:        fmt.Sprintf("hubid|%s|%s|%s", local, remote, id),
		Kind:       "hub_passes_ship_id_before_setup",
		Sample:     map[string]any{"remote": remote, "ship_id": id, "application_callbacks_in_order": human},
	})
}

func runC09hub(r *vh.Rng, n int, w *vh.Writer) {
	for i := 0; i < n; i++ {
		c09Hub(r, w)
	}
}
