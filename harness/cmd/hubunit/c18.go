package main

// C18: pairing-state notifications of a real hub.Hub for one SKI.
//
// A scenario is a script of operations on one hub (own fake connection, reader, mDNS):
// state reports as a SHIP connection issues them (the fake sets its ShipHandshakeState
// and calls HandleShipHandshakeStateUpdate), registration / end of the connection, the
// user operations Register / Unregister / Cancel (the fake connection reacts to Abort /
// Approve / Close with the reports a real connection makes, from inside the call),
// queries, pauses.  Everything the application sees is recorded as ONE linear history:
// the driver goroutine holds the scenario lock during an operation, a delayed
// notification goroutine takes it to record its delivery; a synchronous notification
// runs on the driver goroutine inside the operation.  Each notification is recorded with
// what the detail object SHOWS when received.  Which pending object a delayed
// notification carries is known from the stored pointer observed after every report.
//
// Hundreds of scenarios run concurrently (each delivery takes 500 ms).

import (
	"bytes"
	"crypto/tls"
	"errors"
	"fmt"
	"runtime"
	"strconv"
	"strings"
	"sync"
	"time"

	"github.com/enbility/ship-go/api"
	"github.com/enbility/ship-go/hub"
	"github.com/enbility/ship-go/model"

	"verif/harness/internal/vh"
)

func curGid() uint64 {
	var buf [64]byte
	b := buf[:runtime.Stack(buf[:], false)]
	b = bytes.TrimPrefix(b, []byte("goroutine "))
	if i := bytes.IndexByte(b, ' '); i > 0 {
		b = b[:i]
	}
	n, _ := strconv.ParseUint(string(b), 10, 64)
	return n
}

// one step of a script
type step18 struct {
	op      string // report connreg connclosed register unregister cancel ask pause quiet
	st      int    // report: SHIP state
	err     int    // report: error id (0 nil, 1 ErrConnectionNotFound, >=2 other)
	ms      int    // pause
	comp    bool   // connclosed: handshake completed
	reacts  []step18
	comment string
}

type scen18 struct {
	kind    string
	started bool
	script  []step18

	mu        sync.Mutex
	driverGid uint64
	h         *hub.Hub
	ski       string
	conn      *conn18
	errs      []error
	storedPtr *api.ConnectionStateDetail
	pend      []*api.ConnectionStateDetail
	events    []string
	obs       []string
	human     []string
	closed    bool
	notes     int
	delayed   int
	spawned   int
	syncs     int
	unknown   int
	timedOut  bool
	panicked  string
}

// fake connection with scripted reactions
type conn18 struct {
	s                           *scen18
	w                           *vh.FakeWriter
	state                       model.ShipMessageExchangeState
	err                         error
	mu                          sync.Mutex
	onAbort, onApprove, onClose []step18
}

func (c *conn18) DataHandler() api.WebsocketDataWriterInterface { return c.w }
func (c *conn18) RemoteSKI() string                             { return c.s.ski }
func (c *conn18) CloseConnection(bool, int, string)             { c.s.react(c.onClose) }
func (c *conn18) ApprovePendingHandshake()                      { c.s.react(c.onApprove) }
func (c *conn18) AbortPendingHandshake()                        { c.s.react(c.onAbort) }
func (c *conn18) ShipHandshakeState() (model.ShipMessageExchangeState, error) {
	c.mu.Lock()
	defer c.mu.Unlock()
	return c.state, c.err
}

// the application
func (s *scen18) RemoteSKIConnected(string)                        {}
func (s *scen18) RemoteSKIDisconnected(string)                     {}
func (s *scen18) VisibleRemoteServicesUpdated([]api.RemoteService) {}
func (s *scen18) ServiceShipIDUpdate(string, string)               {}
func (s *scen18) AllowWaitingForTrust(string) bool                 { return true }
func (s *scen18) SetupRemoteDevice(string, api.ShipConnectionDataWriterInterface) api.ShipConnectionDataReaderInterface {
	return nil
}

func (s *scen18) errID(e error) int {
	for i, x := range s.errs {
		if x == e {
			return i
		}
	}
	return 77
}

func (s *scen18) note(sync bool, d *api.ConnectionStateDetail) {
	st, e := int(d.State()), s.errID(d.Error())
	s.obs = append(s.obs, fmt.Sprintf("ONote %s %d %d", vh.B(sync), st, e))
	k := "delayed"
	if sync {
		k = "sync"
		s.syncs++
	} else {
		s.delayed++
	}
	s.human = append(s.human, fmt.Sprintf("notify(%s)=%d/e%d", k, st, e))
	s.notes++
}

func (s *scen18) ServicePairingDetailUpdate(ski string, d *api.ConnectionStateDetail) {
	if ski != s.ski {
		return // the other remote service of a "noisy" history: not this SKI's notifications
	}
	if curGid() == s.driverGid {
		// synchronous: inside an operation, the scenario lock is held by this goroutine
		s.note(true, d)
		return
	}
	s.mu.Lock()
	defer s.mu.Unlock()
	if s.closed {
		return
	}
	idx := -1
	for i, p := range s.pend {
		if p == d {
			idx = i
			break
		}
	}
	if idx < 0 {
		s.unknown++
		idx = 99
	} else {
		s.pend = append(s.pend[:idx:idx], s.pend[idx+1:]...)
	}
	s.events = append(s.events, fmt.Sprintf("EDeliver %d%%nat", idx))
	s.human = append(s.human, fmt.Sprintf("deliver#%d", idx))
	s.note(false, d)
}

// reactions of the fake connection run on the driver goroutine inside the operation
func (s *scen18) react(steps []step18) {
	for _, st := range steps {
		s.apply(st)
	}
}

// apply runs one step; the scenario lock is held
func (s *scen18) apply(st step18) {
	switch st.op {
	case "report":
		e := s.errs[st.err]
		s.conn.mu.Lock()
		s.conn.state, s.conn.err = model.ShipMessageExchangeState(st.st), e
		s.conn.mu.Unlock()
		s.events = append(s.events, fmt.Sprintf("EReport %d %d", st.st, st.err))
		s.human = append(s.human, fmt.Sprintf("report(%d,e%d)", st.st, st.err))
		s.h.HandleShipHandshakeStateUpdate(s.ski, model.ShipState{State: model.ShipMessageExchangeState(st.st), Error: e})
		cur := s.h.ServiceForSKI(s.ski).ConnectionStateDetail()
		repl := cur != s.storedPtr
		if repl {
			s.storedPtr = cur
			s.pend = append(s.pend, cur)
			s.spawned++
		}
		s.obs = append(s.obs, "ORepl "+vh.B(repl))
	case "noise":
		// a state report of a connection to ANOTHER remote service of the same hub (it is not an
		// event of this SKI's history: operations on one SKI do not touch another)
		s.human = append(s.human, fmt.Sprintf("other-ski-report(%d)", st.st))
		s.h.HandleShipHandshakeStateUpdate(noiseSki, model.ShipState{State: model.ShipMessageExchangeState(st.st)})
	case "connreg":
		s.events = append(s.events, "EConnReg")
		s.human = append(s.human, "connreg")
		s.h.VerifRegisterConnection(s.conn)
	case "connclosed":
		s.events = append(s.events, "EConnClosed")
		s.human = append(s.human, "connclosed")
		s.h.HandleConnectionClosed(s.conn, st.comp)
	case "register":
		s.human = append(s.human, "Register")
		s.h.RegisterRemoteSKI(s.ski)
		s.events = append(s.events, "ERegister")
	case "unregister":
		// writes and notifies before it closes the connection
		s.events = append(s.events, "EUnregister")
		s.human = append(s.human, "Unregister")
		s.h.UnregisterRemoteSKI(s.ski)
	case "cancel":
		// aborts the connection (which reports) before it writes and notifies
		s.human = append(s.human, "Cancel")
		s.h.CancelPairingWithSKI(s.ski)
		s.events = append(s.events, "ECancel")
	case "ask":
		d := s.h.PairingDetailForSki(s.ski)
		s.events = append(s.events, "EAsk")
		s.obs = append(s.obs, fmt.Sprintf("OAns %d %d", int(d.State()), s.errID(d.Error())))
		s.human = append(s.human, fmt.Sprintf("ask=%d/e%d", int(d.State()), s.errID(d.Error())))
	}
}

func (s *scen18) run() {
	s.driverGid = curGid()
	defer func() {
		if r := recover(); r != nil {
			s.panicked = fmt.Sprint(r)
		}
	}()
	md := &vh.FakeMdns{L: &vh.Log{}}
	local := api.NewServiceDetails("ffffffffffffffffffffffffffffffffffffff01")
	s.h = hub.NewHub(s, md, 0, tls.Certificate{}, local)
	s.h.VerifSetStarted(s.started)
	s.storedPtr = s.h.ServiceForSKI(s.ski).ConnectionStateDetail()
	for _, st := range s.script {
		switch st.op {
		case "pause":
			time.Sleep(time.Duration(st.ms) * time.Millisecond)
		case "quiet":
			deadline := time.Now().Add(8 * time.Second)
			for {
				s.mu.Lock()
				n := len(s.pend)
				s.mu.Unlock()
				if n == 0 {
					break
				}
				if time.Now().After(deadline) {
					s.timedOut = true
					break
				}
				time.Sleep(5 * time.Millisecond)
			}
		default:
			s.mu.Lock()
			switch st.op {
			case "cancel":
				s.conn.onAbort = st.reacts
			case "register":
				s.conn.onApprove = st.reacts
			case "unregister":
				s.conn.onClose = st.reacts
			}
			func() {
				defer s.mu.Unlock()
				s.apply(st)
			}()
		}
	}
	s.mu.Lock()
	s.closed = true
	s.mu.Unlock()
}

func (s *scen18) emit(w *vh.Writer) {
	var key strings.Builder
	fmt.Fprintf(&key, "%v|", s.started)
	for _, st := range s.script {
		fmt.Fprintf(&key, "%s,%d,%d,%d,%v,%d;", st.op, st.st, st.err, st.ms, st.comp, len(st.reacts))
	}
	w.Put(vh.Case{
		Coq:        fmt.Sprintf("CUnit %s %s %s", vh.B(s.started), vh.List(s.events), vh.List(s.obs)),
		Nontrivial: s.spawned >= 1 && s.notes >= 2,
		Key:        key.String(),
		Kind:       s.kind,
		Sample: map[string]any{"kind": s.kind, "started": s.started, "history": strings.Join(s.human, " "),
			"spawned": s.spawned, "delayed_received": s.delayed, "sync_received": s.syncs,
			"unknown_objects": s.unknown, "quiescence_timeout": s.timedOut, "panic": s.panicked},
	})
}

// ---- scripts ----
func rep(st int, e int) step18 { return step18{op: "report", st: st, err: e} }
func reps(sts ...int) []step18 {
	r := make([]step18, 0, len(sts))
	for _, s := range sts {
		r = append(r, rep(s, 0))
	}
	return r
}
func op(name string) step18       { return step18{op: name} }
func pause(ms int) step18         { return step18{op: "pause", ms: ms} }
func closedStep(comp bool) step18 { return step18{op: "connclosed", comp: comp} }

// report sequences of real handshake runs (the shapes the connection model produces)
var (
	clientHello   = []int{1, 2, 3, 6, 7, 8}
	serverHello   = []int{4, 5, 6, 7, 8}
	serverPending = []int{4, 5, 6, 10, 11}
	clientProt    = []int{13, 19, 22, 24}
	serverProt    = []int{13, 18, 20, 21, 25}
	pinAccess     = []int{26, 27, 31, 36, 37, 38}
)

// the deterministic witness of C18_no_older_after_newer_refuted on the real hub
func witnessOvertake() *scen18 {
	c := step18{op: "cancel", reacts: reps(14)}
	return &scen18{kind: "witness:cancel_10ms_after_pending_request", started: true, script: []step18{
		op("connreg"), rep(4, 0), rep(5, 0), rep(6, 0), rep(10, 0), {op: "quiet"}, rep(11, 0), pause(10), c,
		{op: "quiet"}, rep(15, 0), closedStep(false), op("ask")}}
}

// the report burst in which the inversion was seen between two real hubs
func witnessBurst() *scen18 {
	sc := []step18{op("register"), op("connreg")}
	sc = append(sc, reps(clientHello...)...)
	sc = append(sc, reps(clientProt...)...)
	sc = append(sc, reps(pinAccess...)...)
	sc = append(sc, step18{op: "quiet"}, op("ask"))
	return &scen18{kind: "burst:client_success", started: true, script: sc}
}

// the witness of C18_cancel_ignored_refuted: a completed pairing, quiescence, then Cancel;
// the fake connection ignores the abort request like a real one that is not pending
func witnessCancelIgnored() *scen18 {
	sc := []step18{op("register"), op("connreg")}
	sc = append(sc, reps(clientHello...)...)
	sc = append(sc, reps(clientProt...)...)
	sc = append(sc, reps(pinAccess...)...)
	sc = append(sc, step18{op: "quiet"}, op("ask"), op("cancel"), step18{op: "quiet"}, op("ask"))
	return &scen18{kind: "witness:cancel_after_completion", started: true, script: sc}
}

func randGap(r *vh.Rng, paced bool) []step18 {
	if paced {
		return []step18{{op: "quiet"}}
	}
	switch r.Intn(12) {
	case 0:
		return []step18{pause(1 + r.Intn(5))}
	case 1:
		return []step18{pause(100 + r.Intn(300))}
	case 2:
		return []step18{pause(480 + r.Intn(60))}
	case 3:
		return []step18{{op: "quiet"}}
	}
	return nil
}

func realistic(r *vh.Rng) *scen18 {
	s := &scen18{started: true}
	paced := r.Chance(25)
	server := r.Bool()
	outcome := vh.Pick(r, []string{"success", "success", "denied", "error", "pending_approved", "pending_cancelled", "pending_left", "unregister_after"})
	s.kind = "run:" + outcome
	if paced {
		s.kind += ":paced"
	}
	var sc []step18
	add := func(st ...step18) {
		for _, x := range st {
			sc = append(sc, x)
			sc = append(sc, randGap(r, paced)...)
		}
	}
	if !server || r.Bool() {
		add(op("register"))
	}
	if r.Chance(80) {
		add(op("connreg"))
	} else { // Run() before registerConnection
		add(rep(map[bool]int{true: 4, false: 1}[server], 0), op("connreg"))
	}
	hello, prot := clientHello, clientProt
	if server {
		hello, prot = serverHello, serverProt
	}
	errRep := []step18{rep(39, 2), rep(39, 2)} // endHandshakeWithError: setState then the explicit second report
	switch outcome {
	case "success", "unregister_after":
		add(reps(hello...)...)
		add(reps(prot...)...)
		add(reps(pinAccess...)...)
		if outcome == "unregister_after" {
			add(step18{op: "unregister", reacts: []step18{closedStep(true)}})
		}
	case "denied":
		add(reps(hello...)...)
		add(rep(vh.Pick(r, []int{16, 17}), 0))
		add(closedStep(false))
	case "error":
		k := 1 + r.Intn(len(hello))
		add(reps(hello[:k]...)...)
		add(errRep...)
		if r.Bool() {
			add(step18{op: "report", st: 39, err: 3}) // a second error value while already in the error state
		}
		add(closedStep(false))
	case "pending_approved":
		add(reps(serverPending...)...)
		add(step18{op: "register", reacts: reps(7, 8, 13)})
		add(reps(serverProt[1:]...)...)
		add(reps(pinAccess...)...)
	case "pending_cancelled":
		add(reps(serverPending...)...)
		if r.Bool() {
			add(pause(5 + r.Intn(30)))
		}
		add(step18{op: "cancel", reacts: reps(14)})
		add(rep(15, 0), closedStep(false))
	case "pending_left":
		add(reps(serverPending...)...)
	}
	sc = append(sc, step18{op: "quiet"}, op("ask"))
	s.script = sc
	return s
}

func random18(r *vh.Rng) *scen18 {
	s := &scen18{started: r.Chance(85), kind: "random"}
	paced := r.Chance(20)
	if paced {
		s.kind = "random:paced"
	}
	n := 3 + r.Intn(14)
	var sc []step18
	connected := false
	for i := 0; i < n; i++ {
		switch k := r.Intn(20); {
		case k < 11:
			st := r.Intn(40)
			if r.Chance(35) {
				st = vh.Pick(r, []int{11, 13, 14, 15, 16, 17, 38, 39, 0})
			}
			e := 0
			switch {
			case st == 39 && r.Chance(70):
				e = 2 + r.Intn(3)
			case r.Chance(6):
				e = 1
			case r.Chance(4): // an error value with another state: outside what the connection does
				e = 2 + r.Intn(3)
			}
			sc = append(sc, rep(st, e))
			if r.Chance(30) { // the same report again (dedup)
				sc = append(sc, rep(st, e))
			}
		case k < 13:
			if connected {
				sc = append(sc, closedStep(r.Bool()))
			} else {
				sc = append(sc, op("connreg"))
			}
			connected = !connected
		case k < 15:
			var re []step18
			if connected && r.Bool() {
				re = reps(7, 8, 13)
			}
			sc = append(sc, step18{op: "register", reacts: re})
		case k < 17:
			var re []step18
			if connected && r.Bool() {
				re = []step18{closedStep(r.Bool())}
				connected = false
			}
			sc = append(sc, step18{op: "unregister", reacts: re})
		case k < 19:
			var re []step18
			if connected && r.Bool() {
				re = reps(14)
			}
			sc = append(sc, step18{op: "cancel", reacts: re})
		default:
			sc = append(sc, op("ask"))
		}
		sc = append(sc, randGap(r, paced)...)
	}
	if connected && r.Bool() {
		sc = append(sc, closedStep(r.Bool()))
	}
	sc = append(sc, step18{op: "quiet"}, op("ask"))
	s.script = sc
	return s
}

const noiseSki = "eeeeeeeeeeeeeeeeeeeeeeeeeeeeeeeeeeeeee02"

// a third of the generated histories are "noisy": a second remote service of the same hub goes
// through handshake states of its own in between (0-400 ms after this SKI's reports)
func addNoise(r *vh.Rng, s *scen18) {
	var out []step18
	other := []int{1, 2, 3, 6, 7, 8, 13, 19, 22, 24, 26, 27, 31, 36, 37, 38}
	k := 0
	for _, st := range s.script {
		out = append(out, st)
		if st.op == "report" && r.Chance(45) {
			if r.Chance(50) {
				out = append(out, pause(vh.Pick(r, []int{1, 20, 100, 300, 400})))
			}
			out = append(out, step18{op: "noise", st: other[k%len(other)]})
			k++
		}
	}
	s.script = out
	s.kind += "+other_ski"
}

func runC18(r *vh.Rng, n int, w *vh.Writer) {
	var all []*scen18
	all = append(all, witnessOvertake(), witnessOvertake(), witnessBurst(), witnessBurst(), witnessCancelIgnored())
	for len(all) < n {
		var s *scen18
		if r.Chance(55) {
			s = realistic(r)
		} else {
			s = random18(r)
		}
		if r.Chance(33) {
			addNoise(r, s)
		}
		all = append(all, s)
	}
	for i, s := range all {
		s.ski = fmt.Sprintf("%040x", i+1)
		s.errs = []error{nil, api.ErrConnectionNotFound, errors.New("e2"), errors.New("e3"), errors.New("e4")}
		s.conn = &conn18{s: s, w: &vh.FakeWriter{Id: i}}
	}
	const batch = 500
	for lo := 0; lo < len(all); lo += batch {
		hi := lo + batch
		if hi > len(all) {
			hi = len(all)
		}
		var wg sync.WaitGroup
		for _, s := range all[lo:hi] {
			wg.Add(1)
			go func(s *scen18) {
				defer wg.Done()
				s.run()
			}(s)
		}
		wg.Wait()
		for _, s := range all[lo:hi] {
			s.emit(w)
		}
	}
}
