package main

// C18, system level: two real hubs over loopback TLS (generator certificates, fake mDNS that
// shows B to A only, so that there is one connection), one handshake run per pair:
// success / remote denial / error / pending (then approved or cancelled by the user).
// Per hub: the notifications received for the peer's SKI with the state each one showed
// when received, the SHIP state changes of its connection (from the library's trace
// log), and PairingDetailForSki once nothing has happened for a while.  Statistical:
// the summary is written as JSON; checks/C18.py reports it as coverage.

import (
	"crypto/tls"
	"crypto/x509"
	"encoding/json"
	"fmt"
	"net"
	"os"
	"sync"
	"sync/atomic"
	"time"

	"github.com/enbility/ship-go/api"
	"github.com/enbility/ship-go/cert"
	"github.com/enbility/ship-go/hub"
	"github.com/enbility/ship-go/logging"
	"github.com/enbility/ship-go/model"

	"verif/harness/internal/vh"
)

// ---- trace log: SHIP state changes per remote SKI ----
type traceLog struct {
	mu sync.Mutex
	m  map[string][]int
}

func (l *traceLog) Trace(args ...interface{}) {
	if len(args) == 3 {
		if s, ok := args[1].(string); ok && s == "SHIP state changed to:" {
			ski, _ := args[0].(string)
			if st, ok := args[2].(model.ShipMessageExchangeState); ok {
				l.mu.Lock()
				l.m[ski] = append(l.m[ski], int(st))
				l.mu.Unlock()
			}
		}
	}
}
func (l *traceLog) Tracef(string, ...interface{}) {}
func (l *traceLog) Debug(...interface{})          {}
func (l *traceLog) Debugf(string, ...interface{}) {}
func (l *traceLog) Info(...interface{})           {}
func (l *traceLog) Infof(string, ...interface{})  {}
func (l *traceLog) Error(...interface{})          {}
func (l *traceLog) Errorf(string, ...interface{}) {}
func (l *traceLog) get(ski string) []int {
	l.mu.Lock()
	defer l.mu.Unlock()
	return append([]int(nil), l.m[ski]...)
}

// ---- application ----
type sysApp struct {
	mu        sync.Mutex
	notes     map[string][]int
	errs      map[string][]bool
	last      time.Time
	allowWait bool
}

func (a *sysApp) RemoteSKIConnected(string)                        {}
func (a *sysApp) RemoteSKIDisconnected(string)                     {}
func (a *sysApp) VisibleRemoteServicesUpdated([]api.RemoteService) {}
func (a *sysApp) ServiceShipIDUpdate(string, string)               {}
func (a *sysApp) AllowWaitingForTrust(string) bool                 { return a.allowWait }
func (a *sysApp) SetupRemoteDevice(string, api.ShipConnectionDataWriterInterface) api.ShipConnectionDataReaderInterface {
	return sysReader{}
}
func (a *sysApp) ServicePairingDetailUpdate(ski string, d *api.ConnectionStateDetail) {
	st, e := int(d.State()), d.Error() != nil
	a.mu.Lock()
	a.notes[ski] = append(a.notes[ski], st)
	a.errs[ski] = append(a.errs[ski], e)
	a.last = time.Now()
	a.mu.Unlock()
}
func (a *sysApp) touch() {
	a.mu.Lock()
	a.last = time.Now()
	a.mu.Unlock()
}
func (a *sysApp) snapshot(ski string) ([]int, time.Time) {
	a.mu.Lock()
	defer a.mu.Unlock()
	return append([]int(nil), a.notes[ski]...), a.last
}

type sysReader struct{}

func (sysReader) HandleShipPayloadMessage([]byte) {}

// ---- mDNS ----
type sysMdns struct {
	mu      sync.Mutex
	cb      api.MdnsReportInterface
	entries func() map[string]*api.MdnsEntry
}

func (m *sysMdns) Start(cb api.MdnsReportInterface) error {
	m.mu.Lock()
	m.cb = cb
	m.mu.Unlock()
	return nil
}
func (m *sysMdns) Shutdown()                {}
func (m *sysMdns) AnnounceMdnsEntry() error { return nil }
func (m *sysMdns) UnannounceMdnsEntry()     {}
func (m *sysMdns) SetAutoAccept(bool)       {}
func (m *sysMdns) QRCodeText() string       { return "" }
func (m *sysMdns) RequestMdnsEntries() {
	m.mu.Lock()
	cb := m.cb
	m.mu.Unlock()
	if cb != nil && m.entries != nil {
		go cb.ReportMdnsEntries(m.entries(), false)
	}
}

func sysFreePort() int {
	for i := 0; i < 20; i++ {
		l, err := net.Listen("tcp", "127.0.0.1:0")
		if err != nil {
			continue
		}
		p := l.Addr().(*net.TCPAddr).Port
		_ = l.Close()
		return p
	}
	return 0
}

type sysSide struct {
	Role     string `json:"role"`
	Reports  []int  `json:"ship_states"`
	Notes    []int  `json:"notifications"`
	Answer   int    `json:"answer"`
	Conn     bool   `json:"connection_registered"`
	MidConn  bool   `json:"connection_registered_at_first_sample"`
	MidShip  int    `json:"ship_states_at_first_sample"`
	LastIs   bool   `json:"last_is_current"`
	Notified bool   `json:"current_was_notified"`
	Mid      []int  `json:"notifications_at_first_sample,omitempty"`
	MidAns   int    `json:"answer_at_first_sample"`
	MidOK    bool   `json:"last_is_current_at_first_sample"`
}
type sysRun struct {
	Outcome string    `json:"outcome"`
	Error   string    `json:"error,omitempty"`
	Quiet   bool      `json:"reached_quiescence"`
	Sides   []sysSide `json:"sides"`
}

type sysNode struct {
	h   *hub.Hub
	app *sysApp
	md  *sysMdns
	ski string
	tc  tls.Certificate
}

func newSysNode(name string, allowWait bool) (*sysNode, int, error) {
	tc, err := cert.CreateCertificate("verif", "verif", "DE", name)
	if err != nil {
		return nil, 0, err
	}
	x, err := x509.ParseCertificate(tc.Certificate[0])
	if err != nil {
		return nil, 0, err
	}
	ski, err := cert.SkiFromCertificate(x)
	if err != nil {
		return nil, 0, err
	}
	n := &sysNode{ski: ski, tc: tc,
		app: &sysApp{notes: map[string][]int{}, errs: map[string][]bool{}, allowWait: allowWait, last: time.Now()},
		md:  &sysMdns{}}
	port := sysFreePort()
	local := api.NewServiceDetails(ski)
	local.SetShipID("id-" + name)
	local.SetDeviceType("EnergyManagementSystem")
	n.h = hub.NewHub(n.app, n.md, port, tc, local)
	return n, port, nil
}

// waitQuiet: nothing received by either application for `idle`, at most `limit`
func waitQuiet(a, b *sysNode, idle, limit time.Duration) bool {
	deadline := time.Now().Add(limit)
	for time.Now().Before(deadline) {
		_, la := a.app.snapshot(b.ski)
		_, lb := b.app.snapshot(a.ski)
		l := la
		if lb.After(l) {
			l = lb
		}
		if time.Since(l) >= idle {
			return true
		}
		time.Sleep(20 * time.Millisecond)
	}
	return false
}

func sample(n, peer *sysNode, tl *traceLog, role string) sysSide {
	notes, _ := n.app.snapshot(peer.ski)
	ans := int(n.h.PairingDetailForSki(peer.ski).State())
	_, reg := n.h.VerifRegistry()[peer.ski]
	s := sysSide{Role: role, Reports: tl.get(peer.ski), Notes: notes, Answer: ans, Conn: reg}
	if len(notes) == 0 {
		s.LastIs = ans == 0
	} else {
		s.LastIs = notes[len(notes)-1] == ans
	}
	for _, x := range notes {
		if x == ans {
			s.Notified = true
		}
	}
	return s
}

func runSysPair(idx int, outcome string, tl *traceLog) (res sysRun) {
	res.Outcome = outcome
	defer func() {
		if r := recover(); r != nil {
			res.Error = fmt.Sprint("panic: ", r)
		}
	}()
	a, _, err := newSysNode(fmt.Sprintf("c18-a-%d", idx), true)
	if err != nil {
		res.Error = err.Error()
		return
	}
	bAllow := outcome != "denied"
	b, bport, err := newSysNode(fmt.Sprintf("c18-b-%d", idx), bAllow)
	if err != nil {
		res.Error = err.Error()
		return
	}
	// A sees B; B sees nobody (one connection, dialled by A)
	// ... once: a trusting hub re-dials after every failed or denied attempt, and the property
	// is about one attempt that has run to a stable point
	var served atomic.Bool
	a.md.entries = func() map[string]*api.MdnsEntry {
		if served.Swap(true) {
			return map[string]*api.MdnsEntry{}
		}
		return map[string]*api.MdnsEntry{b.ski: {
			Name: "b", Ski: b.ski, Identifier: "id-" + fmt.Sprintf("c18-b-%d", idx), Path: "/ship/", Register: false,
			Categories: []api.DeviceCategoryType{api.DeviceCategoryTypeEnergyManagementSystem},
			Port:       bport, Addresses: []net.IP{net.ParseIP("127.0.0.1")}}}
	}
	a.h.Start()
	b.h.Start()
	defer func() {
		a.h.Shutdown()
		b.h.Shutdown()
	}()
	time.Sleep(50 * time.Millisecond) // listeners

	switch outcome {
	case "success", "success_then_cancel":
		b.h.RegisterRemoteSKI(a.ski)
	case "error":
		b.h.RegisterRemoteSKI(a.ski)
		a.h.ServiceForSKI(b.ski).SetShipID("some-other-ship-id") // SHIP id mismatch in the access methods phase
	}
	a.h.RegisterRemoteSKI(b.ski)

	res.Quiet = waitQuiet(a, b, 2000*time.Millisecond, 15*time.Second)
	sa := sample(a, b, tl, "client")
	sb := sample(b, a, tl, "server")

	if outcome == "success_then_cancel" {
		// completed and quiet; now the user cancels on A: the connection is not pending and ignores it
		mid := []sysSide{sa, sb}
		a.app.touch()
		b.app.touch()
		a.h.CancelPairingWithSKI(b.ski)
		res.Quiet = waitQuiet(a, b, 2000*time.Millisecond, 15*time.Second) && res.Quiet
		sa = sample(a, b, tl, "client")
		sb = sample(b, a, tl, "server")
		sa.Mid, sa.MidAns, sa.MidOK, sa.MidConn, sa.MidShip = mid[0].Notes, mid[0].Answer, mid[0].LastIs, mid[0].Conn, len(mid[0].Reports)
		sb.Mid, sb.MidAns, sb.MidOK, sb.MidConn, sb.MidShip = mid[1].Notes, mid[1].Answer, mid[1].LastIs, mid[1].Conn, len(mid[1].Reports)
	}
	if outcome == "pending_approved" || outcome == "pending_cancelled" {
		// the stable point "waiting for the user" was sampled above; now the user decides on B
		mid := []sysSide{sa, sb}
		a.app.touch()
		b.app.touch()
		if outcome == "pending_approved" {
			b.h.RegisterRemoteSKI(a.ski)
		} else {
			b.h.CancelPairingWithSKI(a.ski)
		}
		res.Quiet = waitQuiet(a, b, 2000*time.Millisecond, 15*time.Second) && res.Quiet
		sa = sample(a, b, tl, "client")
		sb = sample(b, a, tl, "server")
		sa.Mid, sa.MidAns, sa.MidOK, sa.MidConn, sa.MidShip = mid[0].Notes, mid[0].Answer, mid[0].LastIs, mid[0].Conn, len(mid[0].Reports)
		sb.Mid, sb.MidAns, sb.MidOK, sb.MidConn, sb.MidShip = mid[1].Notes, mid[1].Answer, mid[1].LastIs, mid[1].Conn, len(mid[1].Reports)
	}
	// a case is only used if nothing arrives late: same notifications 700 ms after the sample
	time.Sleep(700 * time.Millisecond)
	na, _ := a.app.snapshot(b.ski)
	nb, _ := b.app.snapshot(a.ski)
	if len(na) != len(sa.Notes) || len(nb) != len(sb.Notes) {
		res.Quiet = false
	}
	res.Sides = []sysSide{sa, sb}
	return
}

// sysEvents rebuilds the model's event list of one side from what is known: the user
// operations of the script, ServeHTTP on the server side, the connection's state changes.
func sysEvents(outcome, role string, ship []int, upto int, closed bool, final bool, quietAt int) []string {
	var ev []string
	registered := role == "client" || outcome == "success" || outcome == "error" || outcome == "success_then_cancel"
	if registered {
		ev = append(ev, "ERegister")
	}
	if role == "server" {
		ev = append(ev, "EInbound")
	}
	ev = append(ev, "EConnReg")
	userDone := false
	flush := func() {
		// the harness saw quiescence here: everything spawned so far has been delivered
		for k := 0; k < len(ship)+2; k++ {
			ev = append(ev, "EDeliver 0%nat")
		}
	}
	for i, st := range ship {
		if i >= upto {
			break
		}
		if final && i == quietAt {
			flush()
		}
		if role == "server" && final && !userDone && i > 0 && ship[i-1] == 11 && outcome == "pending_approved" {
			// RegisterRemoteSKI with the connection registered: ApprovePendingHandshake, no notification
			ev = append(ev, "ERegister")
			userDone = true
		}
		e := 0
		if st == 39 {
			e = 2
		}
		ev = append(ev, fmt.Sprintf("EReport %d %d", st, e))
		if role == "server" && final && !userDone && st == 14 && outcome == "pending_cancelled" {
			// CancelPairingWithSKI: the abort report comes from inside the call, then None synchronously
			ev = append(ev, "ECancel")
			userDone = true
		}
	}
	if role == "server" && final && !userDone && outcome == "pending_cancelled" {
		ev = append(ev, "ECancel")
	}
	if final && quietAt >= len(ship) {
		flush()
	}
	if role == "client" && final && outcome == "success_then_cancel" {
		ev = append(ev, "ECancel")
	}
	if closed {
		ev = append(ev, "EConnClosed")
	}
	return ev
}

func nList(xs []int) string {
	ss := make([]string, len(xs))
	for i, x := range xs {
		ss[i] = fmt.Sprint(x)
	}
	return vh.List(ss)
}

func emitSys(w *vh.Writer, idx int, run sysRun) {
	if run.Error != "" || !run.Quiet {
		return
	}
	for _, s := range run.Sides {
		put := func(stage string, ev []string, notes []int, ans int) {
			w.Put(vh.Case{
				Coq:        fmt.Sprintf("CSys true %s %s %d", vh.List(ev), nList(notes), ans),
				Nontrivial: len(notes) >= 2,
				Key:        fmt.Sprintf("sys|%d|%s|%s|%s", idx, run.Outcome, s.Role, stage),
				Kind:       "twohubs:" + run.Outcome + ":" + s.Role + stage,
				Sample: map[string]any{"outcome": run.Outcome, "side": s.Role, "stage": stage, "ship_states": s.Reports,
					"notifications": notes, "answer": ans, "model_events": ev},
			})
		}
		if run.Outcome == "success_then_cancel" {
			put(":completed", sysEvents(run.Outcome, s.Role, s.Reports, s.MidShip, !s.MidConn, false, -1), s.Mid, s.MidAns)
		}
		if run.Outcome == "pending_approved" || run.Outcome == "pending_cancelled" {
			put(":waiting_for_user", sysEvents(run.Outcome, s.Role, s.Reports, s.MidShip, !s.MidConn, false, -1), s.Mid, s.MidAns)
		}
		quietAt := -1
		if run.Outcome == "success_then_cancel" || run.Outcome == "pending_approved" || run.Outcome == "pending_cancelled" {
			quietAt = s.MidShip
		}
		put("", sysEvents(run.Outcome, s.Role, s.Reports, len(s.Reports), !s.Conn, true, quietAt), s.Notes, s.Answer)
	}
}

func runC18sys(r *vh.Rng, n int, out string, w *vh.Writer) {
	hub.VerifSetDialDelayRanges([][2]int{{0, 1}})
	tl := &traceLog{m: map[string][]int{}}
	logging.SetLogging(tl)
	outcomes := []string{"success", "denied", "error", "pending_approved", "pending_cancelled", "success_then_cancel"}
	runs := make([]sysRun, n)
	const par = 6
	for lo := 0; lo < n; lo += par {
		hi := lo + par
		if hi > n {
			hi = n
		}
		var wg sync.WaitGroup
		for i := lo; i < hi; i++ {
			wg.Add(1)
			go func(i int) {
				defer wg.Done()
				runs[i] = runSysPair(i, outcomes[i%len(outcomes)], tl)
			}(i)
		}
		wg.Wait()
	}
	for i, run := range runs {
		emitSys(w, i, run)
	}
	f, err := os.Create(out)
	if err != nil {
		panic(err)
	}
	defer f.Close()
	enc := json.NewEncoder(f)
	enc.SetIndent("", " ")
	_ = enc.Encode(map[string]any{"runs": runs})
	_ = r
}
