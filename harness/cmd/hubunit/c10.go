package main

// C10 (and the hub-level halves of C11, C01, C09): operation sequences on a real hub.Hub
// over three SKIs.  Fake connections, fake mDNS and a recording HubReader; the dial targets
// are loopback TCP listeners owned by the driver (a dial attempt is observable as an accept;
// the driver then lets the TLS handshake fail, or — as the last step of a sequence — serves
// a real TLS websocket so that a real client ShipConnection is created).  Delayed dials do
// not fire by their own timers (the delay table is set to an hour); "the pending dial fires"
// is hub.VerifPrepareConnectionInitation run on a driver goroutine, so every interleaving of
// user operations with pending and in-flight dials is chosen by the generator, not by the
// scheduler.  The only goroutines of the hub itself that run are the immediate preparations
// of queued SKIs; the driver waits for their definite effects (see report()).

import (
	"bytes"
	"crypto/tls"
	"crypto/x509"
	"errors"
	"fmt"
	"net"
	"net/http"
	"runtime"
	"sort"
	"strconv"
	"strings"
	"sync"
	"sync/atomic"
	"time"

	"github.com/enbility/ship-go/api"
	"github.com/enbility/ship-go/cert"
	"github.com/enbility/ship-go/hub"
	"github.com/enbility/ship-go/model"
	"github.com/enbility/ship-go/ship"
	"github.com/gorilla/websocket"

	"verif/harness/internal/vh"
)

const c10NSki = 3

func gid() int64 {
	var buf [64]byte
	n := runtime.Stack(buf[:], false)
	f := bytes.Fields(buf[:n])
	if len(f) < 2 {
		return -1
	}
	v, _ := strconv.ParseInt(string(f[1]), 10, 64)
	return v
}

// identities shared by all sequences: three peers with real certificates (the SKI is
// bound to the key), generated once
type peerID struct {
	ski  string
	cert tls.Certificate
	x509 *x509.Certificate
}

var c10Peers [c10NSki]peerID
var c10Local tls.Certificate

func c10Identities() {
	mk := func(cn string) (tls.Certificate, *x509.Certificate, string) {
		c, err := cert.CreateCertificate("verif", "verif", "DE", cn)
		if err != nil {
			panic(err)
		}
		x, err := x509.ParseCertificate(c.Certificate[0])
		if err != nil {
			panic(err)
		}
		s, err := cert.SkiFromCertificate(x)
		if err != nil {
			panic(err)
		}
		return c, x, s
	}
	var ps []peerID
	for i := 0; i < c10NSki; i++ {
		c, x, s := mk(fmt.Sprintf("peer%d", i))
		ps = append(ps, peerID{ski: s, cert: c, x509: x})
	}
	sort.Slice(ps, func(i, j int) bool { return ps[i].ski < ps[j].ski })
	copy(c10Peers[:], ps)
	c10Local, _, _ = mk("local")
}

// ---- fakes that log Gallina observations with SKI indices ----
type c10Conn struct {
	id  int
	k   int
	ski string
	w   *vh.FakeWriter
	l   *vh.Log
}

func (c *c10Conn) DataHandler() api.WebsocketDataWriterInterface { return c.w }
func (c *c10Conn) CloseConnection(safe bool, code int, reason string) {
	c.l.Add(fmt.Sprintf("OClose %d %s %d", c.id, vh.B(safe), code))
}
func (c *c10Conn) RemoteSKI() string        { return c.ski }
func (c *c10Conn) ApprovePendingHandshake() { c.l.Add(fmt.Sprintf("OApprove %d", c.id)) }
func (c *c10Conn) AbortPendingHandshake()   { c.l.Add(fmt.Sprintf("OAbort %d", c.id)) }
func (c *c10Conn) ShipHandshakeState() (model.ShipMessageExchangeState, error) {
	return model.CmiStateInitStart, nil
}

type c10Reader struct {
	l     *vh.Log
	idx   map[string]int
	syncG atomic.Int64 // goroutine whose ServicePairingDetailUpdate calls are synchronous ones
}

func (r *c10Reader) k(ski string) int {
	if i, ok := r.idx[ski]; ok {
		return i
	}
	return 99
}
func (r *c10Reader) RemoteSKIConnected(ski string)    {}
func (r *c10Reader) RemoteSKIDisconnected(ski string) { r.l.Add(fmt.Sprintf("ODisc %d", r.k(ski))) }
func (r *c10Reader) SetupRemoteDevice(ski string, w api.ShipConnectionDataWriterInterface) api.ShipConnectionDataReaderInterface {
	return nil
}
func (r *c10Reader) VisibleRemoteServicesUpdated(entries []api.RemoteService) {
	r.l.Add(fmt.Sprintf("OVisible %d", len(entries)))
}
func (r *c10Reader) ServiceShipIDUpdate(ski string, shipID string) {}
func (r *c10Reader) ServicePairingDetailUpdate(ski string, detail *api.ConnectionStateDetail) {
	// the delayed notifications of HandleShipHandshakeStateUpdate are C18's subject
	if gid() == r.syncG.Load() {
		r.l.Add(fmt.Sprintf("OPairUpd %d %d", r.k(ski), detail.State()))
	}
}
func (r *c10Reader) AllowWaitingForTrust(ski string) bool { return true }

type pendDial struct {
	counter int
	entry   *api.MdnsEntry
}
type flight struct {
	conn net.Conn
	done chan struct{} // nil: the hub's own goroutine (immediate preparation of a queued SKI)
}

type world struct {
	h        *hub.Hub
	l        *vh.Log
	md       *vh.FakeMdns
	rd       *c10Reader
	skis     []string // index -> SKI (peers, then ballast)
	lis      [c10NSki]net.Listener
	acc      [c10NSki]chan net.Conn
	port     [c10NSki]int
	pending  [c10NSki]*pendDial
	inflight [c10NSki][]*flight
	fakes    [c10NSki][]*c10Conn
	real     map[api.ShipConnectionInterface]int
	nextID   int
	shutdown bool
	ballast  int
	shipid   [c10NSki]int
	localSKI string
	nDial    int
	sawUser  bool
	srv      []*http.Server
	timeouts int
	toSites  []int
}

var boom = errors.New("boom")

var c10ShipIDs = []string{"", "shipid-one", "shipid-two"}

func newWorld(ballast int, localSKI string) *world {
	w := &world{l: &vh.Log{}, ballast: ballast, localSKI: localSKI, real: map[api.ShipConnectionInterface]int{}}
	w.rd = &c10Reader{l: w.l, idx: map[string]int{}}
	for i := 0; i < c10NSki; i++ {
		w.skis = append(w.skis, c10Peers[i].ski)
	}
	for i := 0; i < ballast; i++ {
		w.skis = append(w.skis, fmt.Sprintf("ba11a57%033d", i))
	}
	for i, s := range w.skis {
		w.rd.idx[s] = i
	}
	local := api.NewServiceDetails(localSKI)
	local.SetShipID("local-ship-id")
	w.md = &vh.FakeMdns{L: w.l}
	w.h = hub.NewHub(w.rd, w.md, 0, c10Local, local)
	for i := 0; i < c10NSki; i++ {
		l, err := net.Listen("tcp", "127.0.0.1:0")
		if err != nil {
			panic(err)
		}
		w.lis[i] = l
		w.port[i] = l.Addr().(*net.TCPAddr).Port
		ch := make(chan net.Conn, 64)
		w.acc[i] = ch
		go func() {
			for {
				c, err := l.Accept()
				if err != nil {
					return
				}
				ch <- c
			}
		}()
	}
	return w
}

func (w *world) close() {
	// every dial still in flight is brought to its end before the listeners are released:
	// a late retry of an abandoned attempt could otherwise reach a port that the kernel has
	// meanwhile given to another sequence's listener (a stray accept there)
	for i := 0; i < c10NSki; i++ {
		for _, f := range w.inflight[i] {
			f.conn.Close()
			select {
			case c := <-w.acc[i]:
				c.Close()
			case <-time.After(8 * time.Second):
			}
			if f.done != nil {
				select {
				case <-f.done:
				case <-time.After(8 * time.Second):
				}
			}
		}
		w.inflight[i] = nil
	}
	for i := 0; i < c10NSki; i++ {
		w.lis[i].Close()
	}
	for _, s := range w.srv {
		s.Close()
	}
}

func (w *world) entry(k int) *api.MdnsEntry {
	return &api.MdnsEntry{Name: fmt.Sprintf("peer%d", k), Ski: w.skis[k], Identifier: "id", Path: "/ship/",
		Addresses: []net.IP{net.ParseIP("127.0.0.1")}, Port: w.port[k]}
}

func (w *world) connID(c api.ShipConnectionInterface) int {
	if f, ok := c.(*c10Conn); ok {
		return f.id
	}
	if id, ok := w.real[c]; ok {
		return id
	}
	w.nextID++
	w.real[c] = w.nextID
	return w.nextID
}

func (w *world) views() string {
	reg := w.h.VerifRegistry()
	var vs []string
	for k := 0; k < c10NSki; k++ {
		sv := w.h.ServiceForSKI(w.skis[k])
		p := 0
		if sv.Trusted() {
			p |= 1
		}
		if sv.ConnectionStateDetail().Error() != nil {
			p |= 2
		}
		if w.h.VerifAttemptRunning(w.skis[k]) {
			p |= 4
		}
		p += 8 * int(sv.ConnectionStateDetail().State())
		if c, ok := w.h.VerifAttemptCounter(w.skis[k]); ok {
			p += 128 * (c + 1)
		}
		if c, ok := reg[w.skis[k]]; ok {
			p += 1024 * (w.connID(c) + 1)
		}
		vs = append(vs, strconv.Itoa(p))
	}
	return "[" + strings.Join(vs, ";") + "]"
}

func (w *world) spelling(r *vh.Rng, k int) string {
	// one random draw per call, whatever the SKI looks like (the certificates, hence the SKIs,
	// are fresh in every run; the case stream must depend on the seed only)
	style := r.Intn(4)
	if k >= c10NSki {
		return w.skis[k]
	}
	s := w.skis[k]
	switch style {
	case 1:
		return strings.ToUpper(s)
	case 2:
		var sb strings.Builder
		for i := 0; i < len(s); i += 2 {
			if i > 0 {
				sb.WriteByte('-')
			}
			sb.WriteString(strings.ToUpper(s[i : i+2]))
		}
		return sb.String()
	case 3:
		var sb strings.Builder
		for i := 0; i < len(s); i += 4 {
			if i > 0 {
				sb.WriteByte(' ')
			}
			sb.WriteString(s[i : i+4])
		}
		return sb.String()
	}
	return s
}

func (w *world) to(site int) {
	w.timeouts++
	w.toSites = append(w.toSites, site)
}

// waitLog polls until the log holds at least n lines
func (w *world) waitLog(n int, cap time.Duration) bool {
	dl := time.Now().Add(cap)
	for w.l.Len() < n {
		if time.Now().After(dl) {
			return false
		}
		time.Sleep(200 * time.Microsecond)
	}
	return true
}

type grpItem struct {
	label string
	obs   []string
}
type step struct {
	grp   []grpItem
	views string
}

func (s step) coq() string {
	var g []string
	for _, it := range s.grp {
		g = append(g, "("+it.label+", "+vh.List(it.obs)+")")
	}
	return "mkStep " + vh.List(g) + " " + s.views
}

func (w *world) nTrusted() int {
	n := 0
	for _, s := range w.skis {
		if w.h.ServiceForSKI(s).Trusted() {
			n++
		}
	}
	return n
}

// immediateCandidate: a report of k would make the hub spawn its own preparation goroutine at once
func (w *world) immediateCandidate(k int) bool {
	sv := w.h.ServiceForSKI(w.skis[k])
	_, connected := w.h.VerifRegistry()[w.skis[k]]
	return sv.ConnectionStateDetail().State() == api.ConnectionStateQueued && !connected && !w.h.VerifAttemptRunning(w.skis[k])
}

func (w *world) report(ks []int, newEntries bool) []grpItem {
	entries := map[string]*api.MdnsEntry{}
	runningBefore := map[int]bool{}
	immediate := map[int]bool{}
	for _, k := range ks {
		entries[w.skis[k]] = w.entry(k)
		runningBefore[k] = w.h.VerifAttemptRunning(w.skis[k])
		immediate[k] = w.immediateCandidate(k)
	}
	w.h.ReportMdnsEntries(entries, newEntries)
	var names []string
	for _, k := range ks {
		names = append(names, strconv.Itoa(k))
	}
	grp := []grpItem{{label: "LReport [" + strings.Join(names, ";") + "]", obs: w.l.Take()}}
	for _, k := range ks {
		if immediate[k] {
			// the hub's own goroutine prepares the dial now; a queued, unconnected SKI is always
			// dialled (after a Shutdown: wait briefly, a repaired hub starts nothing)
			cap := 15 * time.Second
			if w.shutdown {
				cap = 400 * time.Millisecond
			}
			select {
			case c := <-w.acc[k]:
				w.inflight[k] = append(w.inflight[k], &flight{conn: c})
				w.nDial++
				grp = append(grp, grpItem{label: fmt.Sprintf("LFire %d", k), obs: []string{fmt.Sprintf("ODial %d", k)}})
			case <-time.After(cap):
				if !w.shutdown {
					w.to(1)
				}
			}
			continue
		}
		if !runningBefore[k] && w.h.VerifAttemptRunning(w.skis[k]) {
			c, _ := w.h.VerifAttemptCounter(w.skis[k])
			w.pending[k] = &pendDial{counter: c, entry: w.entry(k)}
		}
	}
	return grp
}

func (w *world) fire(k int) grpItem {
	p := w.pending[k]
	w.pending[k] = nil
	done := make(chan struct{})
	go func() {
		defer close(done)
		defer func() { _ = recover() }()
		w.h.VerifPrepareConnectionInitation(w.skis[k], p.counter, p.entry)
	}()
	it := grpItem{label: fmt.Sprintf("LFire %d", k)}
	select {
	case <-done:
		it.obs = w.l.Take()
	case c := <-w.acc[k]:
		w.inflight[k] = append(w.inflight[k], &flight{conn: c, done: done})
		w.nDial++
		it.obs = []string{fmt.Sprintf("ODial %d", k)}
	case <-time.After(20 * time.Second):
		w.to(2)
		it.obs = []string{"ODial 98"}
	}
	return it
}

func (w *world) dialFail(k int) grpItem {
	f := w.inflight[k][0]
	w.inflight[k] = w.inflight[k][1:]
	it := grpItem{label: fmt.Sprintf("LDialFail %d", k)}
	f.conn.Close()
	// connectFoundService dials a second time (without the path) before it gives up
	select {
	case c := <-w.acc[k]:
		c.Close()
	case <-time.After(20 * time.Second):
		w.to(3)
	}
	if f.done != nil {
		select {
		case <-f.done:
		case <-time.After(20 * time.Second):
			w.to(4)
		}
	} else {
		// the hub's own goroutine: with the ballast SKIs it always re-announces (two calls on
		// the fake mDNS) unless the hub was shut down and honours that
		cap := 20 * time.Second
		if w.shutdown {
			cap = 400 * time.Millisecond
		}
		if !w.waitLog(2, cap) && !w.shutdown {
			w.to(5)
		}
	}
	it.obs = w.l.Take()
	return it
}

// ---- terminal steps with real connections ----

// dialOk: the in-flight dial to k meets a real TLS websocket server presenting k's certificate
func (w *world) dialOk(k int) grpItem {
	f := w.inflight[k][0]
	w.inflight[k] = w.inflight[k][1:]
	one := make(chan net.Conn, 1)
	lis := &oneShotListener{ch: one, addr: w.lis[k].Addr()}
	up := websocket.Upgrader{Subprotocols: []string{api.ShipWebsocketSubProtocol}, CheckOrigin: func(*http.Request) bool { return true }}
	srv := &http.Server{
		Handler: http.HandlerFunc(func(rw http.ResponseWriter, r *http.Request) {
			c, err := up.Upgrade(rw, r, nil)
			if err != nil {
				return
			}
			// stay silent: the client's CMI timer is 10 s, the sequence ends long before
			go func() {
				for {
					if _, _, err := c.ReadMessage(); err != nil {
						return
					}
				}
			}()
		}),
		TLSConfig: &tls.Config{Certificates: []tls.Certificate{c10Peers[k].cert}, ClientAuth: tls.RequireAnyClientCert,
			CipherSuites: cert.CipherSuites, MinVersion: tls.VersionTLS12},
	}
	w.srv = append(w.srv, srv)
	go func() { _ = srv.ServeTLS(lis, "", "") }()
	one <- f.conn
	return w.awaitCreated(k, fmt.Sprintf("LDialOk %d", k), true, f.done)
}

type oneShotListener struct {
	ch   chan net.Conn
	addr net.Addr
	once sync.Once
	dead chan struct{}
}

func (l *oneShotListener) Accept() (net.Conn, error) {
	l.once.Do(func() { l.dead = make(chan struct{}) })
	select {
	case c := <-l.ch:
		return c, nil
	case <-l.dead:
		return nil, net.ErrClosed
	}
}
func (l *oneShotListener) Close() error {
	l.once.Do(func() { l.dead = make(chan struct{}) })
	select {
	case <-l.dead:
	default:
		close(l.dead)
	}
	return nil
}
func (l *oneShotListener) Addr() net.Addr { return l.addr }

// inbound: a websocket client reaches Hub.ServeHTTP with k's certificate in the TLS state
func (w *world) inbound(k int) grpItem {
	var hg atomic.Int64
	srv := &http.Server{Handler: http.HandlerFunc(func(rw http.ResponseWriter, r *http.Request) {
		r.TLS = &tls.ConnectionState{PeerCertificates: []*x509.Certificate{c10Peers[k].x509}, HandshakeComplete: true}
		w.rd.syncG.Store(gid())
		w.h.ServeHTTP(rw, r)
		hg.Store(1)
	})}
	l, err := net.Listen("tcp", "127.0.0.1:0")
	if err != nil {
		panic(err)
	}
	w.srv = append(w.srv, srv)
	go func() { _ = srv.Serve(l) }()
	d := websocket.Dialer{Subprotocols: []string{api.ShipWebsocketSubProtocol}, HandshakeTimeout: 10 * time.Second}
	c, _, err := d.Dial(fmt.Sprintf("ws://%s/ship/", l.Addr().String()), nil)
	if err == nil {
		go func() {
			for {
				if _, _, err := c.ReadMessage(); err != nil {
					return
				}
			}
		}()
	}
	// ServeHTTP has returned when hg is set
	dl := time.Now().Add(20 * time.Second)
	for hg.Load() == 0 && time.Now().Before(dl) {
		time.Sleep(200 * time.Microsecond)
	}
	if hg.Load() == 0 {
		w.to(6)
	}
	return w.awaitCreated(k, fmt.Sprintf("LInbound %d", k), false, nil)
}

// awaitCreated collects the observations of a step that may have created a real connection:
// the asynchronous Close of a replaced connection, and the new connection's role and SHIP ID
func (w *world) awaitCreated(k int, label string, client bool, done chan struct{}) grpItem {
	if done != nil {
		select {
		case <-done:
		case <-time.After(20 * time.Second):
			w.to(7)
		}
	} else if client {
		// the hub's own goroutine: the connection appears in the registry
		cap := 20 * time.Second
		if w.shutdown {
			cap = 2 * time.Second
		}
		dl := time.Now().Add(cap)
		for time.Now().Before(dl) {
			if c, ok := w.h.VerifRegistry()[w.skis[k]]; ok {
				if _, fake := c.(*c10Conn); !fake {
					break
				}
			}
			if w.l.Len() >= 2 { // refused as a double connection: the attempt failed and re-announced
				break
			}
			time.Sleep(200 * time.Microsecond)
		}
	}
	reg := w.h.VerifRegistry()
	c, ok := reg[w.skis[k]]
	var sc *ship.ShipConnection
	if ok {
		sc, _ = c.(*ship.ShipConnection)
	}
	id := 0
	if sc != nil {
		id = w.connID(sc)
	} else {
		w.nextID++
		id = w.nextID // the label needs an id even when no connection was created
	}
	it := grpItem{label: fmt.Sprintf("%s %d", label, id)}
	// a replaced connection is closed on its own goroutine: wait for that call if a fake was registered before
	if w.hadFakeBefore(k) && sc != nil {
		// keepThisConnection closes the displaced connection on its own goroutine, and so does
		// registerCheckedConnection (a second call, where the hub has that re-check): wait for
		// the first call without limit worth mentioning, for the second one generously
		dl := time.Now().Add(20 * time.Second)
		for w.l.Count("OClose") < 1 && time.Now().Before(dl) {
			time.Sleep(200 * time.Microsecond)
		}
		dl = time.Now().Add(10 * time.Second)
		for w.l.Count("OClose") < 2 && time.Now().Before(dl) {
			time.Sleep(200 * time.Microsecond)
		}
	}
	// anything else the step logs synchronously is already there (PairUpd from ServeHTTP, re-announce)
	obs := w.l.Take()
	if sc != nil {
		snap := sc.VerifSnapshot()
		sid := -1
		for i, s := range c10ShipIDs {
			if s == snap.RemoteShipID {
				sid = i
			}
		}
		if sid < 0 {
			sid = 97
		}
		obs = append(obs, fmt.Sprintf("OCreate %d %d %s %d", id, k, vh.B(client), sid))
	}
	it.obs = obs
	return it
}

// firstReports: what a real connection reports from Run() before it waits for the peer
// (server: CmiStateServerWait; client: CmiStateClientSend, CmiStateClientWait)
func firstReports(k int, client bool, it grpItem) []grpItem {
	created := false
	for _, o := range it.obs {
		if strings.HasPrefix(o, "OCreate") {
			created = true
		}
	}
	if !created {
		return []grpItem{it}
	}
	if client {
		return []grpItem{it, {label: fmt.Sprintf("LState %d %d false", k, model.CmiStateClientSend)},
			{label: fmt.Sprintf("LState %d %d false", k, model.CmiStateClientWait)}}
	}
	return []grpItem{it, {label: fmt.Sprintf("LState %d %d false", k, model.CmiStateServerWait)}}
}

var regBefore = map[*world]map[int]bool{}
var regBeforeMu sync.Mutex

func (w *world) noteRegBefore() {
	m := map[int]bool{}
	for k := 0; k < c10NSki; k++ {
		if c, ok := w.h.VerifRegistry()[w.skis[k]]; ok {
			if _, fake := c.(*c10Conn); fake {
				m[k] = true
			}
		}
	}
	regBeforeMu.Lock()
	regBefore[w] = m
	regBeforeMu.Unlock()
}
func (w *world) hadFakeBefore(k int) bool {
	regBeforeMu.Lock()
	defer regBeforeMu.Unlock()
	return regBefore[w][k]
}
func (w *world) forget() {
	regBeforeMu.Lock()
	delete(regBefore, w)
	regBeforeMu.Unlock()
}

// ---- one sequence ----
type seqResult struct {
	coq        string
	nontrivial bool
	kind       string
	sample     map[string]any
	timeouts   int
}

var c10States = []int{0, 1, 2, 4, 7, 8, 10, 11, 12, 13, 13, 13, 14, 15, 16, 17, 20, 26, 36, 37, 38, 39}

func runC10Seq(r *vh.Rng, maxLen int) seqResult {
	ballast := 0
	if r.Chance(60) {
		ballast = 4
	}
	localSKI := "0000000000000000000000000000000000000001"
	switch r.Intn(3) {
	case 1:
		localSKI = "ffffffffffffffffffffffffffffffffffffffff"
	case 2:
		// between peer 0 and peer 2
		localSKI = c10Peers[1].ski[:39] + "g"
		if r.Bool() {
			localSKI = c10Peers[0].ski[:39] + "g"
		}
	}
	w := newWorld(ballast, localSKI)
	defer w.close()
	defer w.forget()
	started := r.Chance(85)
	w.h.VerifSetStarted(started)
	w.rd.syncG.Store(gid())

	var steps []step
	var human []string
	add := func(its ...grpItem) {
		steps = append(steps, step{grp: its, views: w.views()})
		for _, it := range its {
			human = append(human, it.label+" -> "+strings.Join(it.obs, ", "))
		}
	}
	simple := func(label string, f func()) {
		func() {
			defer func() { _ = recover() }()
			f()
		}()
		add(grpItem{label: label, obs: w.l.Take()})
	}

	// ballast SKIs: trusted before the hub starts, never visible, never connected
	if ballast > 0 {
		if started {
			simple("LSetStarted false", func() { w.h.VerifSetStarted(false) })
		}
		for i := 0; i < ballast; i++ {
			k := c10NSki + i
			simple(fmt.Sprintf("LRegister %d", k), func() { w.h.RegisterRemoteSKI(w.skis[k]) })
		}
		if started {
			simple("LSetStarted true", func() { w.h.VerifSetStarted(true) })
		}
	}

	n := 6 + r.Intn(maxLen-5)
	terminal := r.Chance(35)
	for i := 0; i < n; i++ {
		k := r.Intn(c10NSki)
		last := i == n-1
		// prefer steps that are enabled
		var pend, infl []int
		for j := 0; j < c10NSki; j++ {
			if w.pending[j] != nil {
				pend = append(pend, j)
			}
			if len(w.inflight[j]) > 0 {
				infl = append(infl, j)
			}
		}
		if last && terminal {
			w.noteRegBefore()
			if len(infl) > 0 && r.Chance(60) {
				kk := vh.Pick(r, infl)
				add(firstReports(kk, true, w.dialOk(kk))...)
			} else {
				it := w.inbound(k)
				w.rd.syncG.Store(gid())
				add(firstReports(k, false, it)...)
			}
			break
		}
		c := r.Intn(100)
		switch {
		case c < 14:
			simple(fmt.Sprintf("LRegister %d", k), func() { w.h.RegisterRemoteSKI(w.spelling(r, k)) })
		case c < 22:
			w.sawUser = true
			simple(fmt.Sprintf("LUnregister %d", k), func() { w.h.UnregisterRemoteSKI(w.spelling(r, k)) })
		case c < 28:
			w.sawUser = true
			simple(fmt.Sprintf("LCancel %d", k), func() { w.h.CancelPairingWithSKI(w.spelling(r, k)) })
		case c < 30:
			simple(fmt.Sprintf("LDisconnect %d", k), func() { w.h.DisconnectSKI(w.spelling(r, k), "bye") })
		case c < 33:
			b := r.Bool()
			simple("LSetAuto "+vh.B(b), func() {
				w.h.SetAutoAccept(b)
				w.l.Add("OAuto " + vh.B(w.h.IsAutoAcceptEnabled()))
			})
		case c < 36:
			w.sawUser = true
			w.shutdown = true
			// a delayed dial whose delay runs out while Shutdown is still under way (inside the
			// provider's Shutdown): Shutdown has been invoked, so it is LShutdown then LFire
			var during *grpItem
			var pre []string
			if len(pend) > 0 && r.Chance(50) {
				kk := vh.Pick(r, pend)
				w.md.OnShutdown = func() {
					pre = w.l.Take()
					it := w.fire(kk)
					during = &it
				}
			}
			func() {
				defer func() { _ = recover() }()
				w.h.Shutdown()
			}()
			w.md.OnShutdown = nil
			lines := append(pre, w.l.Take()...)
			// the Close calls come in map order: canonical order = by SKI index
			var head, closes []string
			for _, ln := range lines {
				if strings.HasPrefix(ln, "OClose") {
					closes = append(closes, ln)
				} else {
					head = append(head, ln)
				}
			}
			sort.Slice(closes, func(a, b int) bool { return w.closeKey(closes[a]) < w.closeKey(closes[b]) })
			if during != nil {
				add(grpItem{label: "LShutdown", obs: append(head, closes...)}, *during)
			} else {
				add(grpItem{label: "LShutdown", obs: append(head, closes...)})
			}
		case c < 39:
			v := r.Intn(len(c10ShipIDs))
			w.shipid[k] = v
			simple(fmt.Sprintf("LSetShipID %d %d", k, v), func() { w.h.ServiceForSKI(w.spelling(r, k)).SetShipID(c10ShipIDs[v]) })
		case c < 58:
			var ks []int
			for j := 0; j < c10NSki; j++ {
				if r.Chance(55) {
					// without ballast the completion of the hub's own preparation goroutine would
					// not be observable: such sequences report queued SKIs only when they are skipped
					if ballast == 0 && w.immediateCandidate(j) {
						continue
					}
					ks = append(ks, j)
				}
			}
			add(w.report(ks, r.Bool())...)
		case c < 64:
			w.nextID++
			f := &c10Conn{id: w.nextID, k: k, ski: w.skis[k], w: &vh.FakeWriter{Id: w.nextID}, l: w.l}
			w.fakes[k] = append(w.fakes[k], f)
			simple(fmt.Sprintf("LFakeReg %d %d", k, f.id), func() { w.h.VerifRegisterConnection(f) })
		case c < 74:
			st := vh.Pick(r, c10States)
			if r.Chance(10) {
				st = r.Intn(40)
			}
			e := r.Chance(15)
			var err error
			if e {
				err = boom
			}
			simple(fmt.Sprintf("LState %d %d %s", k, st, vh.B(e)), func() {
				w.h.HandleShipHandshakeStateUpdate(w.skis[k], model.ShipState{State: model.ShipMessageExchangeState(st), Error: err})
			})
		case c < 82:
			if len(w.fakes[k]) == 0 {
				i--
				w.nextID++
				f := &c10Conn{id: w.nextID, k: k, ski: w.skis[k], w: &vh.FakeWriter{Id: w.nextID}, l: w.l}
				w.fakes[k] = append(w.fakes[k], f)
				if r.Bool() {
					simple(fmt.Sprintf("LFakeReg %d %d", k, f.id), func() { w.h.VerifRegisterConnection(f) })
				}
				continue
			}
			f := vh.Pick(r, w.fakes[k])
			comp := r.Bool()
			simple(fmt.Sprintf("LClosed %d %d %s", k, f.id, vh.B(comp)), func() { w.h.HandleConnectionClosed(f, comp) })
		case c < 92:
			if len(pend) == 0 {
				if ballast == 0 && w.immediateCandidate(k) {
					simple(fmt.Sprintf("LDisconnect %d", k), func() { w.h.DisconnectSKI(w.spelling(r, k), "bye") })
					continue
				}
				i--
				add(w.report([]int{k}, true)...)
				continue
			}
			add(w.fire(vh.Pick(r, pend)))
		default:
			if len(infl) == 0 {
				if len(pend) > 0 {
					add(w.fire(vh.Pick(r, pend)))
				} else {
					simple(fmt.Sprintf("LRegister %d", k), func() { w.h.RegisterRemoteSKI(w.spelling(r, k)) })
				}
				continue
			}
			add(w.dialFail(vh.Pick(r, infl)))
		}
	}

	var lgt []string
	for _, s := range w.skis {
		lgt = append(lgt, vh.B(localSKI > s))
	}
	var ss []string
	for _, s := range steps {
		ss = append(ss, s.coq())
	}
	coq := fmt.Sprintf("mkCase %s %d %s %s", vh.B(started), len(w.skis), vh.List(lgt), vh.List(ss))
	kind := "fakes"
	if terminal {
		kind = "fakes+real"
	}
	if ballast > 0 {
		kind += "+ballast"
	}
	return seqResult{coq: coq, nontrivial: w.nDial > 0 && w.sawUser, kind: kind, timeouts: w.timeouts,
		sample: map[string]any{"started": started, "ballast": ballast, "local_ski": localSKI, "skis": w.skis[:c10NSki], "steps": human, "capped_waits": w.toSites}}
}

func (w *world) closeKey(line string) int {
	f := strings.Fields(line)
	if len(f) < 2 {
		return 0
	}
	id, _ := strconv.Atoi(f[1])
	for k := 0; k < c10NSki; k++ {
		for _, c := range w.fakes[k] {
			if c.id == id {
				return k
			}
		}
	}
	return 50
}

func runC10(r *vh.Rng, n int, w *vh.Writer) {
	hub.VerifSetDialDelayRanges([][2]int{{3600, 3601}, {3600, 3601}, {3600, 3601}})
	c10Identities()
	res := make([]seqResult, n)
	rngs := make([]*vh.Rng, n)
	for i := range rngs {
		rngs[i] = r.Fork()
	}
	var wg sync.WaitGroup
	sem := make(chan struct{}, 48)
	for i := 0; i < n; i++ {
		wg.Add(1)
		sem <- struct{}{}
		go func(i int) {
			defer wg.Done()
			defer func() { <-sem }()
			res[i] = runC10Seq(rngs[i], 25)
		}(i)
	}
	wg.Wait()
	to := 0
	for _, s := range res {
		to += s.timeouts
		w.Put(vh.Case{Coq: s.coq, Nontrivial: s.nontrivial, Key: s.coq, Kind: s.kind, Sample: s.sample})
	}
	if to > 0 {
		fmt.Printf("c10: %d waits hit their cap\n", to)
	}
}
