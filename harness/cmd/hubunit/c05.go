package main

import (
	"crypto/tls"
	"fmt"

	"github.com/enbility/ship-go/api"
	"github.com/enbility/ship-go/hub"

	"verif/harness/internal/vh"
)

// C05, deterministic part: (a) the double-connection rule through the real
// keepThisConnection on thousands of SKI pairs; (c) registry: one entry per SKI, and
// HandleConnectionClosed removes only the identical object.

const hexdigits = "0123456789abcdef"

func c05Ski(r *vh.Rng, n int) string {
	b := make([]byte, n)
	for i := range b {
		b[i] = hexdigits[r.Intn(16)]
	}
	return string(b)
}

// a pair of SKIs: unrelated, sharing a long prefix, one a prefix of the other, differing in
// the last character, or equal
func c05Pair(r *vh.Rng) (string, string, string) {
	switch r.Intn(10) {
	case 0, 1, 2, 3:
		return c05Ski(r, 40), c05Ski(r, 40), "random"
	case 4, 5:
		p := c05Ski(r, 1+r.Intn(39))
		return p + c05Ski(r, 40-len(p)), p + c05Ski(r, 40-len(p)), "common_prefix"
	case 6:
		p := c05Ski(r, 39)
		return p + string(hexdigits[r.Intn(16)]), p + string(hexdigits[r.Intn(16)]), "last_char"
	case 7:
		p := c05Ski(r, 1+r.Intn(39))
		q := p + c05Ski(r, 1+r.Intn(8))
		if r.Bool() {
			return p, q, "proper_prefix"
		}
		return q, p, "proper_prefix"
	case 8:
		return c05Ski(r, 1+r.Intn(44)), c05Ski(r, 1+r.Intn(44)), "lengths"
	default:
		p := c05Ski(r, 40)
		return p, p, "equal"
	}
}

func c05Hub(local string, l *vh.Log) *hub.Hub {
	rd := &vh.FakeReader{L: l}
	md := &vh.FakeMdns{L: l}
	return hub.NewHub(rd, md, 0, tls.Certificate{}, api.NewServiceDetails(local))
}

func c05Keep(r *vh.Rng, w *vh.Writer) {
	local, remote, kind := c05Pair(r)
	existing, incoming := r.Chance(80), r.Bool()
	l := &vh.Log{}
	h := c05Hub(local, l)
	if existing {
		h.VerifRegisterConnection(&vh.FakeConn{Id: 1, Ski: remote, W: &vh.FakeWriter{Id: 1}, L: l})
	}
	got := h.VerifKeepThisConnection(incoming, remote)
	w.Put(vh.Case{
		Coq:        fmt.Sprintf("CKeep %s %s %s %s %s", vh.B(existing), vh.B(incoming), vh.HxS(local), vh.HxS(remote), vh.B(got)),
		Nontrivial: existing && local != remote,
		Key:        fmt.Sprintf("keep|%v|%v|%s|%s", existing, incoming, local, remote),
		Kind:       "keep_" + kind,
		Sample:     map[string]any{"existing": existing, "incoming": incoming, "local": local, "remote": remote, "kept": got},
	})
}

func c05Reg(r *vh.Rng, w *vh.Writer) {
	ski := c05Ski(r, 40)
	second := r.Bool()
	closed := 1 + r.Intn(2)
	completed := r.Bool()
	l := &vh.Log{}
	h := c05Hub(c05Ski(r, 40), l)
	h.ServiceForSKI(ski).SetTrusted(r.Bool())
	c1 := &vh.FakeConn{Id: 1, Ski: ski, W: &vh.FakeWriter{Id: 1}, L: l}
	c2 := &vh.FakeConn{Id: 2, Ski: ski, W: &vh.FakeWriter{Id: 2}, L: l}
	h.VerifRegisterConnection(c1)
	if second {
		h.VerifRegisterConnection(c2)
	}
	if closed == 1 {
		h.HandleConnectionClosed(c1, completed)
	} else {
		h.HandleConnectionClosed(c2, completed)
	}
	reg := h.VerifRegistry()
	left := 0
	if c, ok := reg[ski]; ok {
		left = c.(*vh.FakeConn).Id
	}
	w.Put(vh.Case{
		Coq:        fmt.Sprintf("CReg %s %d %d %d", vh.B(second), closed, len(reg), left),
		Nontrivial: true,
		Key:        fmt.Sprintf("reg|%v|%d|%v|%s", second, closed, completed, ski),
		Kind:       "registry",
		Sample:     map[string]any{"second_registered": second, "closed": closed, "completed": completed, "entries": len(reg), "left": left},
	})
}

func runC05(r *vh.Rng, n int, w *vh.Writer) {
	for i := 0; i < n; i++ {
		if i%10 == 9 {
			c05Reg(r, w)
		} else {
			c05Keep(r, w)
		}
	}
}
