package main

import (
	"crypto/tls"
	"errors"
	"fmt"
	"strings"

	"github.com/enbility/ship-go/api"
	"github.com/enbility/ship-go/hub"
	"github.com/enbility/ship-go/model"
	"github.com/enbility/ship-go/util"

	"verif/harness/internal/vh"
)

type scen struct {
	started, trusted bool
	pstate           int
	hasConn          bool
	cstate           int
	cerr             bool
	counter          bool
	others           int
	fresh            bool // no record for the SKI before the operation
}

func (s scen) coq() string {
	conn := "None"
	if s.hasConn {
		conn = fmt.Sprintf("(Some (%d, %s))", s.cstate, vh.B(s.cerr))
	}
	return fmt.Sprintf("{| sc_started := %s; sc_trusted := %s; sc_pstate := %d; sc_conn := %s; sc_counter := %s; sc_others := %d; sc_fresh := %s |}",
		vh.B(s.started), vh.B(s.trusted), s.pstate, conn, vh.B(s.counter), s.others, vh.B(s.fresh))
}

var opKinds = []string{"KDetail", "KRegister", "KUnregister", "KDisconnect", "KCancel", "KService"}

func newHub(l *vh.Log) (*hub.Hub, *vh.FakeReader) {
	rd := &vh.FakeReader{L: l}
	md := &vh.FakeMdns{L: l}
	local := api.NewServiceDetails("ffffffffffffffffffffffffffffffffffffff01")
	h := hub.NewHub(rd, md, 0, tls.Certificate{}, local)
	return h, rd
}

// runScenario builds a fresh hub in the scenario's state, applies one operation with the
// given spelling and returns the observations in Gallina form.
func runScenario(s scen, canon, spelling, op string) []string {
	l := &vh.Log{}
	h, _ := newHub(l)
	h.VerifSetStarted(s.started)
	if !s.fresh {
		svc := h.ServiceForSKI(canon)
		svc.SetTrusted(s.trusted)
		svc.ConnectionStateDetail().SetState(api.ConnectionState(s.pstate))
	}
	for i := s.others; i >= 1; i-- {
		o := h.ServiceForSKI(string(rune('0' + i)))
		o.SetTrusted(true)
	}
	if s.hasConn && !s.fresh {
		var err error
		if s.cerr {
			err = errors.New("boom")
		}
		c := &vh.FakeConn{Id: 1, Ski: canon, State: model.ShipMessageExchangeState(s.cstate), Err: err, W: &vh.FakeWriter{Id: 1}, L: l}
		h.VerifRegisterConnection(c)
	}
	if s.counter && !s.fresh {
		h.VerifSetAttemptCounter(canon, 0)
	}
	l.Take()

	switch op {
	case "KDetail":
		d := h.PairingDetailForSki(spelling)
		l.Add(fmt.Sprintf("ODetail %d %s", d.State(), vh.B(d.Error() != nil)))
	case "KRegister":
		h.RegisterRemoteSKI(spelling)
	case "KUnregister":
		h.UnregisterRemoteSKI(spelling)
	case "KDisconnect":
		h.DisconnectSKI(spelling, "bye!")
	case "KCancel":
		h.CancelPairingWithSKI(spelling)
	case "KService":
		sv := h.ServiceForSKI(spelling)
		l.Add(fmt.Sprintf("OSvc %s %s", vh.HxS(sv.SKI()), vh.B(sv.Trusted())))
	}
	obs := l.Take()
	nrec, npaired := h.VerifServiceCounts() // before the snapshot's own lookup, which may create the record
	sv := h.ServiceForSKI(canon)
	_, hasCounter := h.VerifAttemptCounter(canon)
	_, hasConn := h.VerifRegistry()[canon]
	obs = append(obs, fmt.Sprintf("OSnap %s %d %s %s %d %d", vh.B(sv.Trusted()), sv.ConnectionStateDetail().State(), vh.B(hasCounter), vh.B(hasConn), nrec, npaired))
	return obs
}

const skiAlphabet = "0123456789abcdef"

func randCanon(r *vh.Rng) string {
	n := 40
	switch r.Intn(6) {
	case 0:
		n = 3 + r.Intn(10)
	case 1:
		n = 41 + r.Intn(10)
	}
	var sb strings.Builder
	alpha := skiAlphabet
	if r.Chance(15) {
		alpha = "0123456789abcdefghijklmnopqrstuvwxyz_.:"
	}
	for i := 0; i < n; i++ {
		sb.WriteByte(alpha[r.Intn(len(alpha))])
	}
	return sb.String()
}

// reformat returns a spelling of the same SKI: case flips and inserted spaces/dashes.
func reformat(r *vh.Rng, canon string) (string, bool) {
	style := r.Intn(6)
	var sb strings.Builder
	changed := false
	for i := 0; i < len(canon); i++ {
		c := canon[i]
		switch style {
		case 0: // all upper
			if c >= 'a' && c <= 'z' {
				c -= 32
				changed = true
			}
		case 1: // dashed pairs, upper
			if i > 0 && i%2 == 0 {
				sb.WriteByte('-')
				changed = true
			}
			if c >= 'a' && c <= 'z' {
				c -= 32
				changed = true
			}
		case 2: // spaced groups of four
			if i > 0 && i%4 == 0 {
				sb.WriteByte(' ')
				changed = true
			}
		case 3: // random
			if r.Chance(20) {
				sb.WriteByte(" -"[r.Intn(2)])
				changed = true
			}
			if c >= 'a' && c <= 'z' && r.Chance(40) {
				c -= 32
				changed = true
			}
		case 4: // one single change
			if i == len(canon)/2 {
				if c >= 'a' && c <= 'z' {
					c -= 32
				} else {
					sb.WriteByte('-')
				}
				changed = true
			}
		case 5: // identical spelling (control)
		}
		sb.WriteByte(c)
	}
	if style == 3 && r.Chance(30) {
		sb.WriteByte(' ')
		changed = true
	}
	return sb.String(), changed
}

func randScen(r *vh.Rng) scen {
	s := scen{started: r.Chance(80), trusted: r.Bool(), counter: r.Bool(), others: r.Intn(3)}
	s.pstate = vh.Pick(r, []int{0, 0, 1, 3, 4, 7, 9})
	switch r.Intn(4) {
	case 0: // no connection
	case 1: // pending
		s.hasConn = true
		s.cstate = 11
	case 2: // completed
		s.hasConn = true
		s.cstate = 38
	case 3: // anything
		s.hasConn = true
		s.cstate = r.Intn(40)
		s.cerr = r.Chance(30)
	}
	s.fresh = r.Chance(20)
	return s
}

func runC15(r *vh.Rng, n int, w *vh.Writer) {
	// part 1: util.NormalizeSKI byte-exact on ASCII strings
	nStr := n / 2
	for i := 0; i < nStr; i++ {
		var s string
		if r.Chance(70) {
			s = randCanon(r)
		} else {
			ln := r.Intn(50)
			b := make([]byte, ln)
			for j := range b {
				b[j] = byte(r.Intn(128))
			}
			s = string(b)
		}
		v, changed := reformat(r, s)
		o := util.NormalizeSKI(s)
		o2 := util.NormalizeSKI(v)
		oo := util.NormalizeSKI(o)
		w.Put(vh.Case{
			Coq: fmt.Sprintf("CSki {| sk_s := %s; sk_s' := %s; sk_o := %s; sk_o' := %s; sk_oo := %s |}",
				vh.HxS(s), vh.HxS(v), vh.HxS(o), vh.HxS(o2), vh.HxS(oo)),
			Nontrivial: changed,
			Key:        "ski|" + s + "|" + v,
			Kind:       "normalize",
			Sample:     map[string]string{"s": s, "variant": v, "normalized": o},
		})
	}
	// part 2: metamorphic pairs on the real hub
	for i := nStr; i < n; i++ {
		sc := randScen(r)
		canon := util.NormalizeSKI(randCanon(r))
		variant, changed := reformat(r, canon)
		op := opKinds[r.Intn(len(opKinds))]
		oc := runScenario(sc, canon, canon, op)
		ov := runScenario(sc, canon, variant, op)
		w.Put(vh.Case{
			Coq: fmt.Sprintf("CHub {| hc_scen := %s; hc_op := %s; hc_canon := %s; hc_variant := %s; hc_obs_canon := %s; hc_obs_variant := %s |}",
				sc.coq(), op, vh.HxS(canon), vh.HxS(variant), vh.List(oc), vh.List(ov)),
			Nontrivial: changed,
			Key:        fmt.Sprintf("hub|%v|%s|%s|%s", sc, op, canon, variant),
			Kind:       "hub:" + op,
			Sample:     map[string]any{"scenario": fmt.Sprintf("%+v", sc), "op": op, "canonical": canon, "spelling": variant, "obs_canonical": oc, "obs_spelling": ov},
		})
	}
}
