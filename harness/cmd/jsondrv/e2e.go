package main

import (
	"bytes"

	"github.com/enbility/ship-go/api"
	"github.com/enbility/ship-go/model"
	"github.com/enbility/ship-go/ship"

	"verif/harness/internal/vh"
)

// ---- fakes around a real ship.ShipConnection ----
type capWriter struct{ msgs [][]byte }

func (w *capWriter) InitDataProcessing(api.WebsocketDataReaderInterface) {}
func (w *capWriter) WriteMessageToWebsocketConnection(m []byte) error {
	w.msgs = append(w.msgs, append([]byte{}, m...))
	return nil
}
func (w *capWriter) CloseDataConnection(int, string)       {}
func (w *capWriter) IsDataConnectionClosed() (bool, error) { return false, nil }

type capReader struct{ payloads [][]byte }

func (r *capReader) HandleShipPayloadMessage(m []byte) {
	r.payloads = append(r.payloads, append([]byte{}, m...))
}

type provider struct{ rd *capReader }

func (p *provider) IsRemoteServiceForSKIPaired(string) bool                  { return true }
func (p *provider) IsAutoAcceptEnabled() bool                                { return false }
func (p *provider) HandleConnectionClosed(api.ShipConnectionInterface, bool) {}
func (p *provider) ReportServiceShipID(string, string)                       {}
func (p *provider) AllowWaitingForTrust(string) bool                         { return true }
func (p *provider) HandleShipHandshakeStateUpdate(string, model.ShipState)   {}
func (p *provider) SetupRemoteDevice(string, api.ShipConnectionDataWriterInterface) api.ShipConnectionDataReaderInterface {
	return p.rd
}

// e2eCase sends the SPINE payload document through one real connection
// (WriteShipMessageWithPayload -> websocket message) and receives that message on another
// (HandleIncomingWebsocketMessage -> SPINE reader).  buffered: the message arrives before
// the receiver's handshake is complete and is delivered when it completes.
func e2eCase(d *node, input []byte, buffered bool, kind string, w *vh.Writer) {
	var msg, payload []byte
	haveMsg, havePayload := false, false
	func() {
		defer func() { _ = recover() }()
		wa := &capWriter{}
		a := ship.NewConnectionHandler(&provider{rd: &capReader{}}, wa, ship.ShipRoleClient, "LocalShipID", "RemoteSKI", "RemoteShipID")
		a.VerifApproveHandshake()
		a.WriteShipMessageWithPayload(input)
		if len(wa.msgs) != 1 {
			return
		}
		msg, haveMsg = wa.msgs[0], true

		rb := &capReader{}
		b := ship.NewConnectionHandler(&provider{rd: rb}, &capWriter{}, ship.ShipRoleServer, "RemoteShipID", "LocalSKI", "LocalShipID")
		if buffered {
			b.HandleIncomingWebsocketMessage(msg)
			b.VerifApproveHandshake()
		} else {
			b.VerifApproveHandshake()
			b.HandleIncomingWebsocketMessage(msg)
		}
		if len(rb.payloads) == 1 {
			payload, havePayload = rb.payloads[0], true
		}
	}()
	var flags byte
	if haveMsg {
		flags |= 1
	}
	if havePayload {
		flags |= 2
	}
	var enc bytes.Buffer
	enc.WriteByte(2)
	enc.WriteByte(flags)
	field(&enc, treeCode(d))
	field(&enc, msg)
	field(&enc, payload)
	w.Put(vh.Case{
		Coq:        rx(enc.Bytes()), // CE2E d msg payload (Eebus.decode_case)
		Nontrivial: havePayload && d.size() > 2,
		Key:        "e2e:" + string(d.compact()),
		Kind:       kind,
		Sample: map[string]any{"spine_payload": show(input), "websocket_message": show(msg), "message_written": haveMsg,
			"delivered_payload": show(payload), "delivered": havePayload, "buffered_before_completion": buffered,
			"has_empty_array": d.hasEmptyArray(), "depth": d.depth(), "nodes": d.size()},
	})
}

// genSpineDoc: a document the receiver routes to SPINE (the text contains "datagram").
func genSpineDoc(r *vh.Rng) (*node, string) {
	d, class := genDoc(r)
	name := canonString("datagram")
	if r.Chance(75) {
		// {"datagram": {...}} as SPINE sends it
		inner := d
		if r.Chance(20) && len(d.members) > 0 {
			inner = d.members[0]
		}
		return &node{kind: 'o', names: [][]byte{name}, members: []*node{inner}}, "e2e_datagram+" + class
	}
	// several top-level members, one of them named datagram
	i := r.Intn(len(d.members))
	for j, n := range d.names {
		if j != i && bytes.Equal(n, name) {
			d.names[j] = canonString("datagram2")
		}
	}
	d.names[i] = name
	return d, "e2e_multi_member+" + class
}
