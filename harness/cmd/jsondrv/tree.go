package main

import (
	"bytes"
	"strings"

	"verif/harness/internal/vh"
)

// node is a JSON document as the model sees it: scalars and member names are literal
// bytes (a string literal includes its quotes), members keep their order.
type node struct {
	kind    byte // 's' scalar, 'a' array, 'o' object
	lit     []byte
	elems   []*node
	names   [][]byte
	members []*node
}

func (d *node) coq() string {
	switch d.kind {
	case 's':
		return "(JS " + vh.Hx(d.lit) + ")"
	case 'a':
		xs := make([]string, len(d.elems))
		for i, e := range d.elems {
			xs[i] = e.coq()
		}
		return "(JA " + vh.List(xs) + ")"
	default:
		xs := make([]string, len(d.members))
		for i, e := range d.members {
			xs[i] = "(" + vh.Hx(d.names[i]) + ", " + e.coq() + ")"
		}
		return "(JO " + vh.List(xs) + ")"
	}
}

// code is the postfix transport code of the tree (see Eebus.v, "case transport"):
// 1 len2 bytes = scalar, 2 n2 = array of the last n values, 3 len2 bytes = member name for
// the last value, 4 n2 = object of the last n members.  nil tree = empty code.
func (d *node) code(b *bytes.Buffer) {
	put := func(op byte, n int, lit []byte) {
		if n > 0xffff {
			panic("transport code: length over 65535")
		}
		b.WriteByte(op)
		b.WriteByte(byte(n >> 8))
		b.WriteByte(byte(n))
		b.Write(lit)
	}
	switch d.kind {
	case 's':
		put(1, len(d.lit), d.lit)
	case 'a':
		for _, e := range d.elems {
			e.code(b)
		}
		put(2, len(d.elems), nil)
	default:
		for i, e := range d.members {
			e.code(b)
			put(3, len(d.names[i]), d.names[i])
		}
		put(4, len(d.members), nil)
	}
}

func treeCode(d *node) []byte {
	if d == nil {
		return nil
	}
	var b bytes.Buffer
	d.code(&b)
	return b.Bytes()
}

// rx writes a byte string as the Gallina term (rx "..."): printable ASCII stands for itself,
// every other byte, the quote and the tilde as ~hh (Eebus.rx).  Half the size of hex.
func rx(b []byte) string {
	const hexd = "0123456789abcdef"
	var sb strings.Builder
	sb.WriteString(`(rx "`)
	for _, c := range b {
		if c >= 0x20 && c < 0x7e && c != '"' {
			sb.WriteByte(c)
		} else {
			sb.WriteByte('~')
			sb.WriteByte(hexd[c>>4])
			sb.WriteByte(hexd[c&15])
		}
	}
	sb.WriteString(`")`)
	return sb.String()
}

// field writes one length-prefixed field of a transported case.
func field(b *bytes.Buffer, x []byte) {
	n := len(x)
	if n > 0xffffff {
		panic("transport field over 16 MiB")
	}
	b.WriteByte(byte(n >> 16))
	b.WriteByte(byte(n >> 8))
	b.WriteByte(byte(n))
	b.Write(x)
}

// render writes the document; ws > 0 sprinkles insignificant white space (percent chance
// per gap), alt maps a canonical literal to the spelling used in the input text.
func (d *node) render(b *bytes.Buffer, r *vh.Rng, ws int, alt func([]byte) []byte) {
	gap := func() {
		for r != nil && ws > 0 && r.Chance(ws) {
			b.WriteByte(" \t\n\r"[r.Intn(4)])
		}
	}
	lit := func(l []byte) {
		if alt != nil {
			l = alt(l)
		}
		b.Write(l)
	}
	gap()
	switch d.kind {
	case 's':
		lit(d.lit)
	case 'a':
		b.WriteByte('[')
		for i, e := range d.elems {
			if i > 0 {
				b.WriteByte(',')
			}
			e.render(b, r, ws, alt)
		}
		gap()
		b.WriteByte(']')
	default:
		b.WriteByte('{')
		for i, e := range d.members {
			if i > 0 {
				b.WriteByte(',')
			}
			gap()
			lit(d.names[i])
			gap()
			b.WriteByte(':')
			e.render(b, r, ws, alt)
		}
		gap()
		b.WriteByte('}')
	}
	gap()
}

func (d *node) compact() []byte {
	var b bytes.Buffer
	d.render(&b, nil, 0, nil)
	return b.Bytes()
}

func (d *node) walk(f func(*node)) {
	f(d)
	for _, e := range d.elems {
		e.walk(f)
	}
	for _, e := range d.members {
		e.walk(f)
	}
}

func (d *node) literals() [][]byte {
	var res [][]byte
	d.walk(func(x *node) {
		if x.kind == 's' {
			res = append(res, x.lit)
		}
		res = append(res, x.names...)
	})
	return res
}

func (d *node) hasEmptyArray() bool {
	found := false
	d.walk(func(x *node) {
		if x.kind == 'a' && len(x.elems) == 0 {
			found = true
		}
	})
	return found
}

func (d *node) depth() int {
	m := 0
	for _, e := range d.elems {
		if k := e.depth(); k > m {
			m = k
		}
	}
	for _, e := range d.members {
		if k := e.depth(); k > m {
			m = k
		}
	}
	return m + 1
}

func (d *node) size() int {
	k := 0
	d.walk(func(*node) { k++ })
	return k
}

// ---- an order- and literal-preserving tokenizer/parser (no float parsing, no maps) ----
type parser struct {
	s []byte
	i int
}

func (p *parser) ws() {
	for p.i < len(p.s) && strings.IndexByte(" \t\n\r", p.s[p.i]) >= 0 {
		p.i++
	}
}

// stringLit returns the literal starting at the quote at p.i, including both quotes.
func (p *parser) stringLit() ([]byte, bool) {
	j := p.i + 1
	for j < len(p.s) {
		switch p.s[j] {
		case '\\':
			j += 2
			continue
		case '"':
			l := p.s[p.i : j+1]
			p.i = j + 1
			return l, true
		}
		if p.s[j] < 0x20 {
			return nil, false
		}
		j++
	}
	return nil, false
}

func isAtomByte(c byte) bool {
	return c == '-' || c == '+' || c == '.' || (c >= '0' && c <= '9') || (c >= 'a' && c <= 'z') || (c >= 'A' && c <= 'Z')
}

func (p *parser) value(depth int) (*node, bool) {
	if depth > 200 {
		return nil, false
	}
	p.ws()
	if p.i >= len(p.s) {
		return nil, false
	}
	switch c := p.s[p.i]; {
	case c == '"':
		l, ok := p.stringLit()
		if !ok {
			return nil, false
		}
		return &node{kind: 's', lit: l}, true
	case c == '[':
		p.i++
		d := &node{kind: 'a'}
		p.ws()
		if p.i < len(p.s) && p.s[p.i] == ']' {
			p.i++
			return d, true
		}
		for {
			e, ok := p.value(depth + 1)
			if !ok {
				return nil, false
			}
			d.elems = append(d.elems, e)
			p.ws()
			if p.i >= len(p.s) {
				return nil, false
			}
			if p.s[p.i] == ',' {
				p.i++
				continue
			}
			if p.s[p.i] == ']' {
				p.i++
				return d, true
			}
			return nil, false
		}
	case c == '{':
		p.i++
		d := &node{kind: 'o'}
		p.ws()
		if p.i < len(p.s) && p.s[p.i] == '}' {
			p.i++
			return d, true
		}
		for {
			p.ws()
			if p.i >= len(p.s) || p.s[p.i] != '"' {
				return nil, false
			}
			k, ok := p.stringLit()
			if !ok {
				return nil, false
			}
			p.ws()
			if p.i >= len(p.s) || p.s[p.i] != ':' {
				return nil, false
			}
			p.i++
			e, ok := p.value(depth + 1)
			if !ok {
				return nil, false
			}
			d.names = append(d.names, k)
			d.members = append(d.members, e)
			p.ws()
			if p.i >= len(p.s) {
				return nil, false
			}
			if p.s[p.i] == ',' {
				p.i++
				continue
			}
			if p.s[p.i] == '}' {
				p.i++
				return d, true
			}
			return nil, false
		}
	case isAtomByte(c):
		j := p.i
		for j < len(p.s) && isAtomByte(p.s[j]) {
			j++
		}
		l := p.s[p.i:j]
		p.i = j
		return &node{kind: 's', lit: l}, true
	}
	return nil, false
}

// parseDoc returns the tree of a complete JSON text, or nil.
func parseDoc(s []byte) *node {
	p := &parser{s: s}
	d, ok := p.value(0)
	if !ok {
		return nil
	}
	p.ws()
	if p.i != len(p.s) {
		return nil
	}
	return d
}
