package main

import (
	"bytes"
	"encoding/json"
	"fmt"
	"strings"

	"github.com/enbility/ship-go/ship"

	"verif/harness/internal/vh"
)

var patterns = [][]byte{[]byte("[{"), []byte("},{"), []byte("}]"), []byte("[]")}

// ---------------------------------------------------------------- literals
// canonString is the literal json.Marshal writes for s (HTML escaping on, as in
// JsonIntoEEBUSJson); decoding any spelling of s and re-encoding it yields this.
func canonString(s string) []byte {
	b, err := json.Marshal(s)
	if err != nil {
		panic(err)
	}
	return b
}

// altSpelling returns another JSON spelling of the same string literal (raw <,>,&,
// \/ for /, \u00XX for some ASCII), used in the input text only.
func altSpelling(r *vh.Rng) func([]byte) []byte {
	return func(l []byte) []byte {
		if len(l) < 2 || l[0] != '"' {
			return l
		}
		var s string
		if json.Unmarshal(l, &s) != nil {
			return l
		}
		var b bytes.Buffer
		b.WriteByte('"')
		for _, c := range s {
			switch {
			case c == '"' || c == '\\':
				b.WriteByte('\\')
				b.WriteRune(c)
			case c < 0x20 || c == 0x2028 || c == 0x2029:
				fmt.Fprintf(&b, "\\u%04x", c)
			case c == '/' && r.Bool():
				b.WriteString("\\/")
			case c < 0x7f && r.Chance(15):
				fmt.Fprintf(&b, "\\u%04X", c)
			default:
				b.WriteRune(c)
			}
		}
		b.WriteByte('"')
		// only use it if it decodes to the same string
		var s2 string
		if json.Unmarshal(b.Bytes(), &s2) != nil || s2 != s {
			return l
		}
		return b.Bytes()
	}
}

var richAlphabet = []rune(`[]{},"\[]{},"\[{}]:ab 1`)
var safeA = []rune(`[},"\:ab [}, x/<`) // cannot form any of the four patterns
var safeB = []rune(`{],"\:ab {], y&>`) // neither can this
var plain = []rune("abcdefXYZ019 _-.:/é€ \n\t\x01<>&'")

type genCfg struct {
	alpha      [][]rune // string alphabets to draw from
	emptyArr   bool
	emptyObj   bool
	maxDepth   int
	maxWidth   int
	budget     int
	patternStr int // percent chance that a string is built around one of the patterns
}

func genString(r *vh.Rng, c *genCfg) string {
	if c.patternStr > 0 && r.Chance(c.patternStr) {
		p := string(vh.Pick(r, patterns))
		pre := genStringFrom(r, vh.Pick(r, c.alpha), r.Intn(4))
		post := genStringFrom(r, vh.Pick(r, c.alpha), r.Intn(4))
		return pre + p + post
	}
	k := r.Intn(9)
	if r.Chance(10) {
		k = 0
	}
	return genStringFrom(r, vh.Pick(r, c.alpha), k)
}

func genStringFrom(r *vh.Rng, alpha []rune, k int) string {
	var sb strings.Builder
	for i := 0; i < k; i++ {
		sb.WriteRune(vh.Pick(r, alpha))
	}
	return sb.String()
}

func digits(r *vh.Rng, k int) string {
	var sb strings.Builder
	for i := 0; i < k; i++ {
		d := r.Intn(10)
		if i == 0 && k > 1 && d == 0 {
			d = 1 + r.Intn(9)
		}
		sb.WriteByte(byte('0' + d))
	}
	return sb.String()
}

func genNumber(r *vh.Rng) string {
	s := ""
	if r.Chance(30) {
		s = "-"
	}
	switch r.Intn(7) {
	case 0:
		s += digits(r, 30+r.Intn(8)) // beyond float64 and uint64
	case 1:
		s += "0"
	case 2:
		s += digits(r, 1+r.Intn(3)) + "." + digits(r, 1+r.Intn(20)) + "0"
	case 3:
		s += digits(r, 1+r.Intn(2)) + vh.Pick(r, []string{"e", "E", "e+", "e-", "E+"}) + digits(r, 1+r.Intn(3))
	case 4:
		s += "0." + strings.Repeat("0", r.Intn(25)) + digits(r, 1+r.Intn(5))
	case 5:
		s += digits(r, 17+r.Intn(5)) + "." + digits(r, 1+r.Intn(3)) + "e" + digits(r, 3)
	default:
		s += digits(r, 1+r.Intn(6))
	}
	return s
}

func genScalar(r *vh.Rng, c *genCfg) *node {
	switch k := r.Intn(10); {
	case k < 5:
		return &node{kind: 's', lit: canonString(genString(r, c))}
	case k < 8:
		return &node{kind: 's', lit: []byte(genNumber(r))}
	default:
		return &node{kind: 's', lit: []byte(vh.Pick(r, []string{"true", "false", "null"}))}
	}
}

func genValue(r *vh.Rng, c *genCfg, depth int) *node {
	c.budget--
	if depth >= c.maxDepth || c.budget <= 0 || r.Chance(35) {
		return genScalar(r, c)
	}
	if r.Bool() {
		return genArray(r, c, depth)
	}
	return genObject(r, c, depth, false)
}

func genArray(r *vh.Rng, c *genCfg, depth int) *node {
	d := &node{kind: 'a'}
	w := r.Intn(c.maxWidth + 1)
	if w == 0 && !c.emptyArr {
		w = 1
	}
	for i := 0; i < w; i++ {
		d.elems = append(d.elems, genValue(r, c, depth+1))
	}
	return d
}

func genObject(r *vh.Rng, c *genCfg, depth int, top bool) *node {
	d := &node{kind: 'o'}
	w := r.Intn(c.maxWidth + 1)
	if w == 0 && (!c.emptyObj || top) {
		w = 1
	}
	seen := map[string]bool{}
	for i := 0; i < w; i++ {
		k := genString(r, c)
		for seen[k] { // member names are distinct within an object
			k += string(rune('a' + r.Intn(26)))
		}
		seen[k] = true
		d.names = append(d.names, canonString(k))
		d.members = append(d.members, genValue(r, c, depth+1))
	}
	return d
}

// genDoc returns a random document with a top-level object and the generator class.
func genDoc(r *vh.Rng) (*node, string) {
	c := &genCfg{maxDepth: 1 + r.Intn(6), maxWidth: 1 + r.Intn(6), budget: 6 + r.Intn(45), emptyObj: true}
	class := ""
	switch k := r.Intn(100); {
	case k < 45: // inside the theorem's hypotheses: brackets in strings, but no pattern
		c.alpha = [][]rune{vh.Pick(r, [][]rune{safeA, safeB}), plain}
		class = "doc_clean"
	case k < 65:
		c.alpha = [][]rune{vh.Pick(r, [][]rune{safeA, safeB}), plain}
		c.emptyArr = true
		class = "doc_empty_arrays"
	case k < 85:
		c.alpha = [][]rune{richAlphabet, plain, safeA}
		c.patternStr = 10
		class = "doc_rich_strings"
	default:
		c.alpha = [][]rune{richAlphabet, plain}
		c.patternStr = 10
		c.emptyArr = true
		class = "doc_rich_strings_empty_arrays"
	}
	return genObject(r, c, 1, true), class
}

// ---------------------------------------------------------------- running the code
func callInto(in []byte) (out string, failed bool) {
	defer func() {
		if e := recover(); e != nil {
			out, failed = "", true
		}
	}()
	s, err := ship.JsonIntoEEBUSJson(in)
	if err != nil {
		return "", true
	}
	return s, false
}

func callFrom(in []byte) (out []byte, panicked bool) {
	defer func() {
		if e := recover(); e != nil {
			out, panicked = nil, true
		}
	}()
	cp := append([]byte{}, in...)
	res := ship.JsonFromEEBUSJson(cp)
	return append([]byte{}, res...), false
}

func containsPattern(l []byte) bool {
	for _, p := range patterns {
		if bytes.Contains(l, p) {
			return true
		}
	}
	return false
}

func show(b []byte) string {
	if len(b) > 600 {
		return fmt.Sprintf("%q…(%d bytes)", b[:600], len(b))
	}
	return fmt.Sprintf("%q", b)
}

// docCase: document -> JsonIntoEEBUSJson -> JsonFromEEBUSJson, everything observed.
func docCase(d *node, input []byte, kind string, w *vh.Writer) {
	out, failed := callInto(input)
	var wtree, btree *node
	var back []byte
	if !failed {
		wtree = parseDoc([]byte("[" + out + "]"))
		var p bool
		back, p = callFrom([]byte(out))
		if p {
			failed = true
		} else {
			btree = parseDoc(back)
		}
	}
	// CDoc d err w wtree back btree, shipped as one byte string (Eebus.decode_case).  A text
	// that is exactly the compact rendering of its token tree is rebuilt from the tree in Coq.
	wrapped := []byte("[" + out + "]")
	var flags byte
	wtext, btext := []byte(out), back
	if wtree != nil && bytes.Equal(wtree.compact(), wrapped) {
		flags |= 1
		wtext = nil
	}
	if btree != nil && bytes.Equal(btree.compact(), back) {
		flags |= 2
		btext = nil
	}
	var enc bytes.Buffer
	enc.WriteByte(1)
	if failed {
		enc.WriteByte(1)
	} else {
		enc.WriteByte(0)
	}
	enc.WriteByte(flags)
	field(&enc, treeCode(d))
	field(&enc, treeCode(wtree))
	field(&enc, wtext)
	field(&enc, treeCode(btree))
	field(&enc, btext)
	coq := rx(enc.Bytes())
	patStr := false
	for _, l := range d.literals() {
		if containsPattern(l) {
			patStr = true
		}
	}
	w.Put(vh.Case{
		Coq:        coq,
		Nontrivial: !failed && out != string(d.compact()),
		Key:        "doc:" + string(d.compact()),
		Kind:       kind,
		Sample: map[string]any{"input": show(input), "into_eebus": show([]byte(out)), "error": failed,
			"from_eebus": show(back), "depth": d.depth(), "nodes": d.size(),
			"has_empty_array": d.hasEmptyArray(), "literal_contains_pattern": patStr},
	})
}

func bytesCase(in []byte, kind string, w *vh.Writer) {
	out, p := callFrom(in)
	if p {
		// a panic is not an output the model can produce: recorded as a disagreement
		out = []byte("\xffpanic")
	}
	var enc bytes.Buffer
	enc.WriteByte(0)
	field(&enc, in)
	field(&enc, out)
	w.Put(vh.Case{
		Coq:        rx(enc.Bytes()), // CBytes inp out (Eebus.decode_case)
		Nontrivial: !bytes.Equal(in, out),
		Key:        "bytes:" + string(in),
		Kind:       kind,
		Sample:     map[string]any{"input": show(in), "from_eebus": show(out)},
	})
}

// ---------------------------------------------------------------- fixed inputs
// the refutation witnesses of props/C07.v, the two known-on-the-pinned-tree cases of
// DESIGN.md, and the messages of ship/helper_test.go — run on the real code on every run
var fixedDocs = []string{
	`{"a":[]}`,
	`{"a":"[{x}]"}`,
	`{}`,
	`{"a":{}}`,
	`{"a":[[]]}`,
	`{"[]":1}`,
	`{"a":"x},{y"}`,
	`{"a":"}]"}`,
	`{"a":"[]"}`,
	`{"a":[{"b":1}]}`,
	`{"a":[{"b":1},{"c":2}]}`,
	`{"a":[[{"b":{}}],[2,[3]]]}`,
	`{"n":123456789012345678901234567890,"m":-0.10e+5,"z":1.0}`,
	`{"datagram":{"header":{"specificationVersion":"1.2.0","addressSource":{"device":"d:_i:3210_EVSE","entity":[1,1],"feature":6},"addressDestination":{"device":"d:_i:3210_HEMS","entity":[1],"feature":1},"msgCounter":194,"msgCounterReference":4890,"cmdClassifier":"reply"},"payload":{"cmd":[{"deviceClassificationManufacturerData":{"deviceName":"","deviceCode":"","brandName":"","powerSource":"mains3Phase"}}]}}}`,
	`{"datagram":{"header":{"specificationVersion":"1.2.0","addressSource":{"device":"Demo-EVSE-234567890","entity":[0],"feature":0},"addressDestination":{"device":"Demo-HEMS-123456789","entity":[0],"feature":0},"msgCounter":1,"cmdClassifier":"read"},"payload":{"cmd":[{"nodeManagementDetailedDiscoveryData":{}}]}}}`,
	`{"data":{"header":{"protocolId":"ee1.0"},"payload":{"place":"holder"}}}`,
}

var fixedWire = []string{
	`{"datagram":[{"header":[{"specificationVersion":"1.2.0"},{"addressSource":[{"device":"d:_i:3210_EVSE"},{"entity":[1,1]},{"feature":6}]},{"addressDestination":[{"device":"d:_i:3210_HEMS"},{"entity":[1]},{"feature":1}]},{"msgCounter":194},{"msgCounterReference":4890},{"cmdClassifier":"reply"}]},{"payload":[{"cmd":[[{"deviceClassificationManufacturerData":[{"deviceName":""},{"deviceCode":""},{"brandName":""},{"powerSource":"mains3Phase"}]}]]}]}]}`,
	`{"data":[{"header":[{"protocolId":"ee1.0"}]},{"payload":{"datagram":[{"header":[{"specificationVersion":"1.2.0"}]},{"payload":[{"cmd":[[{"nodeManagementDetailedDiscoveryData":[]}]]}]}]}}]}`,
	`{"connectionHello":[{"phase":"pending"},{"waiting":60000}]}`,
	`{"messageProtocolHandshake":[{"handshakeType":"announceMax"},{"version":[{"major":1},{"minor":0}]},{"formats":[{"format":["JSON-UTF8"]}]}]}`,
	`{"messageProtocolHandshake":[{"handshakeType":"select"},{"version":[{"major":1},{"minor":0}]},{"formats":[{"format":[ ]}]}]}`,
	``, "\x00", "\x00\x00{}\x00", "[", "[{", "[[{", "}]]", "},{},{", "[[]]", "[]]", "[[]", "}]}]", "[{[{", "},},{{", "[}]",
}

// ---------------------------------------------------------------- byte-level inputs
var byteAlphabet = []byte(`[]{},"\[]{},:a1 ` + "\x00")

func genBytes(r *vh.Rng) ([]byte, string) {
	switch r.Intn(3) {
	case 0:
		k := r.Intn(41)
		b := make([]byte, k)
		for i := range b {
			b[i] = vh.Pick(r, byteAlphabet)
		}
		return b, "bytes_structural_alphabet"
	case 1:
		k := r.Intn(31)
		b := make([]byte, k)
		for i := range b {
			b[i] = byte(r.Intn(256))
		}
		return b, "bytes_arbitrary"
	default:
		// concatenation of pattern fragments: dense in overlapping candidates
		var b []byte
		frag := []string{"[", "]", "{", "}", ",", "[{", "},{", "}]", "[]", "},", ",{", "\x00", "\"", "x"}
		for i, k := 0, r.Intn(16); i < k; i++ {
			b = append(b, vh.Pick(r, frag)...)
		}
		return b, "bytes_pattern_fragments"
	}
}

func mutate(r *vh.Rng, s []byte) []byte {
	b := append([]byte{}, s...)
	for i, k := 0, 1+r.Intn(4); i < k; i++ {
		pos := 0
		if len(b) > 0 {
			pos = r.Intn(len(b) + 1)
		}
		switch r.Intn(6) {
		case 0: // delete
			if pos < len(b) {
				b = append(b[:pos], b[pos+1:]...)
			}
		case 1: // insert a structural byte
			b = append(b[:pos], append([]byte{vh.Pick(r, byteAlphabet)}, b[pos:]...)...)
		case 2: // replace
			if pos < len(b) {
				b[pos] = vh.Pick(r, byteAlphabet)
			}
		case 3: // duplicate a slice
			if pos < len(b) {
				e := pos + 1 + r.Intn(6)
				if e > len(b) {
					e = len(b)
				}
				b = append(b[:e], append(append([]byte{}, b[pos:e]...), b[e:]...)...)
			}
		case 4: // NULs at the ends (the PMCP quirk) or in the middle
			switch r.Intn(3) {
			case 0:
				b = append(b, bytes.Repeat([]byte{0}, 1+r.Intn(3))...)
			case 1:
				b = append(bytes.Repeat([]byte{0}, 1+r.Intn(2)), b...)
			default:
				b = append(b[:pos], append([]byte{0}, b[pos:]...)...)
			}
		default: // white space
			b = append(b[:pos], append([]byte{' '}, b[pos:]...)...)
		}
	}
	return b
}

func runC07(r *vh.Rng, n int, w *vh.Writer) {
	// fixed inputs first
	for _, s := range fixedDocs {
		d := parseDoc([]byte(s))
		if d == nil || d.kind != 'o' {
			panic("fixed document does not parse: " + s)
		}
		// literals of fixed documents are already in json.Marshal's spelling
		docCase(d, []byte(s), "fixed_document", w)
	}
	// a top level that is not an object is refused (the model: into_eebus = None)
	for _, s := range []string{`[1,2]`, `[]`, `[{"a":1}]`, `"s"`, `12`, `null`, `true`} {
		docCase(parseDoc([]byte(s)), []byte(s), "fixed_document_not_an_object", w)
	}
	for _, s := range fixedWire {
		bytesCase([]byte(s), "fixed_wire_text", w)
	}
	for _, s := range fixedDocs {
		if !strings.Contains(s, "datagram") {
			continue
		}
		e2eCase(parseDoc([]byte(s)), []byte(s), false, "fixed_document_end_to_end", w)
	}
	e2eCase(parseDoc([]byte(`{"datagram":[]}`)), []byte(`{"datagram":[]}`), true, "fixed_document_end_to_end", w)
	e2eCase(parseDoc([]byte(`{"datagram":"[{x}],[]"}`)), []byte(`{"datagram":"[{x}],[]"}`), true, "fixed_document_end_to_end", w)
	for i := 0; i < n; i++ {
		switch k := r.Intn(100); {
		case k < 15:
			d, class := genSpineDoc(r)
			var in bytes.Buffer
			if r.Chance(25) {
				d.render(&in, r, 15, altSpelling(r))
			} else {
				d.render(&in, nil, 0, nil)
			}
			e2eCase(d, in.Bytes(), r.Bool(), class, w)
		case k < 62:
			d, class := genDoc(r)
			var in bytes.Buffer
			switch r.Intn(4) {
			case 0: // other spellings of the same literals and white space in the input
				d.render(&in, r, 20, altSpelling(r))
				class += "+respelled"
			case 1:
				d.render(&in, r, 15, nil)
			default:
				d.render(&in, nil, 0, nil)
			}
			docCase(d, in.Bytes(), class, w)
		case k < 80:
			b, kind := genBytes(r)
			bytesCase(b, kind, w)
		default:
			// mutated EEBUS text produced by the implementation itself
			d, _ := genDoc(r)
			out, failed := callInto(d.compact())
			if failed {
				out = string(d.compact())
			}
			if r.Chance(15) {
				bytesCase(append([]byte(out), bytes.Repeat([]byte{0}, r.Intn(3))...), "wire_text_with_trailing_nul", w)
			} else {
				bytesCase(mutate(r, []byte(out)), "wire_text_mutated", w)
			}
		}
	}
}
