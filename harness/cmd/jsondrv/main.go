// jsondrv runs the real ship.JsonIntoEEBUSJson / ship.JsonFromEEBUSJson on generated
// inputs and writes the observations as cases for bin/check (property C07).
package main

import (
	"flag"
	"fmt"
	"os"

	"verif/harness/internal/vh"
)

var (
	prop = flag.String("prop", "", "property mode (C07)")
	seed = flag.Uint64("seed", 1, "PRNG seed")
	n    = flag.Int("n", 1000, "number of generated cases (the fixed witness cases come on top)")
	out  = flag.String("out", "", "output JSONL")
)

func main() {
	flag.Parse()
	if *out == "" {
		fmt.Fprintln(os.Stderr, "need -out")
		os.Exit(2)
	}
	w := vh.NewWriter(*out)
	defer w.Close()
	r := vh.NewRng(*seed)
	switch *prop {
	case "C07":
		runC07(r, *n, w)
	default:
		fmt.Fprintln(os.Stderr, "unknown -prop", *prop)
		os.Exit(2)
	}
}
