package main

import (
	"errors"
	"fmt"
	"strings"
	"sync"
	"time"

	"github.com/enbility/ship-go/api"
	"github.com/enbility/ship-go/model"
	"github.com/enbility/ship-go/ship"

	"verif/harness/internal/vh"
)

// -prop pair: a real client-role and a real server-role ShipConnection joined by two FIFO
// queues owned by the harness, which is the scheduler (labels of coq/theories/Pair.v).

type wireItem struct {
	closed bool
	frame  []byte
}

type side struct {
	mu        sync.Mutex
	conn      *ship.ShipConnection
	out       *[]wireItem // frames this side has written, in order
	closed    bool        // CloseDataConnection called or transport error delivered
	sentClose bool
	trusted   *bool // the hub's trusted flag consulted by this side's info provider
	cfg       *pairCfg
	server    bool
	nsetup    int
	got       []int
	writer    api.ShipConnectionDataWriterInterface
	complete  bool
	idrep     bool
	done      bool
}

type pairCfg struct {
	paired, auto, allow, approves, cancels bool
	cid, sid                               int // 0 unknown 1 right 2 wrong
}

func (c pairCfg) coq() string {
	id := func(i int) string { return []string{"IdUnknown", "IdRight", "IdWrong"}[i] }
	return fmt.Sprintf("(mkCfg %s %s %s %s %s %s %s)", vh.B(c.paired), vh.B(c.auto), vh.B(c.allow), vh.B(c.approves), vh.B(c.cancels), id(c.cid), id(c.sid))
}

// data writer
func (s *side) InitDataProcessing(api.WebsocketDataReaderInterface) {}
func (s *side) WriteMessageToWebsocketConnection(b []byte) error {
	s.mu.Lock()
	defer s.mu.Unlock()
	if s.closed {
		return errors.New("connection is closed")
	}
	// like the websocket's write channel the queue holds the caller's slice, not a copy
	*s.out = append(*s.out, wireItem{frame: b})
	return nil
}
func (s *side) CloseDataConnection(code int, reason string) {
	s.mu.Lock()
	defer s.mu.Unlock()
	if !s.closed && !s.sentClose {
		*s.out = append(*s.out, wireItem{closed: true})
		s.sentClose = true
	}
	s.closed = true
}
func (s *side) IsDataConnectionClosed() (bool, error) {
	s.mu.Lock()
	defer s.mu.Unlock()
	if s.closed {
		return true, errors.New("connection is closed")
	}
	return false, nil
}

// info provider
func (s *side) IsRemoteServiceForSKIPaired(string) bool {
	if !s.server {
		return true
	}
	return s.cfg.paired || *s.trusted
}
func (s *side) IsAutoAcceptEnabled() bool                                { return s.server && s.cfg.auto }
func (s *side) HandleConnectionClosed(api.ShipConnectionInterface, bool) {}
func (s *side) ReportServiceShipID(string, string) {
	s.mu.Lock()
	s.idrep = true
	s.mu.Unlock()
}
func (s *side) AllowWaitingForTrust(string) bool {
	if !s.server {
		return true
	}
	return s.cfg.allow || *s.trusted
}
func (s *side) HandleShipHandshakeStateUpdate(_ string, st model.ShipState) {
	s.mu.Lock()
	defer s.mu.Unlock()
	if s.done {
		return
	}
	if st.State == model.SmeStateComplete {
		s.complete = true
	}
	if st.State == model.SmeHelloStateOk && s.server {
		*s.trusted = true
	}
}
func (s *side) SetupRemoteDevice(_ string, w api.ShipConnectionDataWriterInterface) api.ShipConnectionDataReaderInterface {
	s.mu.Lock()
	s.nsetup++
	s.writer = w
	s.mu.Unlock()
	return &nullReader{got: &s.got}
}

type nullReader struct{ got *[]int }

func (n *nullReader) HandleShipPayloadMessage(m []byte) {
	if n.got != nil {
		*n.got = append(*n.got, payloadID(m))
	}
}

func wireCode(w wireItem) int {
	if w.closed {
		return 1
	}
	switch f := frameOf(w.frame); {
	case f == "FInit":
		return 2
	case f == "(FHello HReady (Some 60000) PNone)":
		return 3
	case f == "(FHello HPending (Some 60000) PNone)":
		return 4
	case f == "(FHello HPending None PTrue)":
		return 5
	case f == "(FHello HAborted None PNone)":
		return 6
	case f == "(FProt PAnnounce)":
		return 7
	case f == "(FProt PSelect)":
		return 8
	case len(f) > 9 && f[:9] == "(FProtErr":
		var n int
		fmt.Sscanf(f, "(FProtErr %d)", &n)
		return 9 + n%4
	case f == "FPin":
		return 13
	case f == "FAccReq":
		return 14
	case len(f) > 5 && f[:5] == "(FAcc":
		return 15
	case len(f) > 6 && f[:6] == "(FData":
		return 16
	case f == "(FClose true)":
		return 17
	case f == "(FClose false)":
		return 18
	}
	return 19
}

var labelNames = []string{"LDeliverCS", "LDeliverSC", "LApprove", "LCancel", "LTimeoutC", "LTimeoutS", "LDeferredC", "LDeferredS"}

type pairScen struct {
	cfg                          pairCfg
	labels                       []string
	sums                         []string
	human                        []map[string]any
	final                        string
	csSent, csGot, scSent, scGot []int
	discard                      bool
	ids                          [2]string
}

func runPair(r *vh.Rng, directed int) *pairScen {
	cfg := pairCfg{paired: r.Chance(20), auto: r.Chance(15), allow: r.Chance(75), approves: r.Chance(50), cancels: r.Chance(15), cid: vh.Pick(r, []int{0, 0, 1, 1, 2}), sid: vh.Pick(r, []int{0, 0, 1, 1, 2})}
	early := false
	switch directed {
	case 0: // the recorded finding: approval before the server has seen the client's hello
		cfg = pairCfg{allow: true, approves: true}
		early = true
	case 1:
		cfg = pairCfg{allow: true, approves: true, cid: 1, sid: 1}
		early = true
	case 2:
		cfg = pairCfg{paired: true}
	case 3:
		cfg = pairCfg{allow: true, cancels: true}
	case 4:
		cfg = pairCfg{allow: false, approves: true}
	case 5:
		cfg = pairCfg{paired: true, cid: 2}
	case 6:
		cfg = pairCfg{auto: true, sid: 2}
	case 7:
		cfg = pairCfg{allow: true}
	case 8: // patient mode: prolongation rounds while the user has not acted, then the approval
		cfg = pairCfg{allow: true, approves: true}
	case 9:
		cfg = pairCfg{allow: true, approves: true, cid: 1, sid: 1}
	case 10:
		cfg = pairCfg{allow: true, cancels: true}
	case 11, 12: // a server that trusts beforehand: the user cancels / approves (again) while it waits in ready-listen
		cfg = pairCfg{paired: true, cancels: directed == 11, approves: directed == 12}
	case 13, 14:
		cfg = pairCfg{auto: true, allow: true, cancels: directed == 13, approves: directed == 14, cid: 1, sid: 1}
	case 15, 16: // a device whose SHIP id contains the word "datagram"
		cfg = pairCfg{paired: true, cid: directed - 15, sid: 16 - directed}
	}
	inReady := directed >= 11 && directed <= 14
	// patient mode (PairPatient.v): while the user has not acted and nothing is under way, the
	// pending server's timer may expire - a prolongation request is sent, the client answers -
	// before the approval or cancel comes
	rounds := 0
	if directed >= 8 && directed <= 10 {
		rounds = 1 + directed%2
	} else if directed > 16 && r.Chance(35) {
		rounds = 1 + r.Intn(3)
	}
	// racing mode (PairArb.v): in a quarter of the random runs a timer may expire at any moment
	// at which the peer has taken what the expiring side wrote and at most one frame is in flight
	// towards it - also while the user has not acted and while that frame is under way
	racing := directed > 16 && rounds == 0 && r.Chance(25)
	sc := &pairScen{cfg: cfg}
	began := time.Now()
	// the real handshake timers (10 s and more) must never expire by themselves during a scenario:
	// a run that took longer than 7 s (machine under heavy load) is discarded and repeated
	defer func() {
		if time.Since(began) > 7*time.Second {
			sc.discard = true
		}
	}()
	trusted := false
	var qcs, qsc []wireItem
	cl := &side{out: &qcs, trusted: &trusted, cfg: &cfg}
	sv := &side{out: &qsc, trusted: &trusted, cfg: &cfg, server: true}
	// the SHIP ids of the two devices: any strings - among them ids that use words of the protocol
	// ("datagram", "connectionClose", a JSON fragment); a wrong stored id is another id or the right
	// one in another letter case / with a blank appended
	idPairs := [][2]string{{"clientID", "serverID"}, {"clientID", "serverID"}, {"clientID", "serverID"},
		{"datagram-logger-1", "serverID"}, {"clientID", "the datagram server"}, {"connectionClose", "accessMethods"},
		{"id-{braces}", "[brackets],:"}}
	ids := idPairs[0]
	if directed == 15 {
		ids = idPairs[3]
	} else if directed == 16 {
		ids = idPairs[4]
	} else if directed > 16 {
		ids = vh.Pick(r, idPairs)
	}
	wrongs := func(right string) []string {
		w := []string{"wrongID", "wrongID", right + " "}
		for _, v := range []string{strings.ToUpper(right), strings.ToLower(right)} {
			if v != right {
				w = append(w, v)
			}
		}
		return w
	}
	stored := func(k int, right string) string {
		switch k {
		case 1:
			return right
		case 2:
			w := wrongs(right)
			if directed <= 16 {
				return w[0]
			}
			return vh.Pick(r, w)
		}
		return ""
	}
	sc.ids = ids
	cl.conn = ship.NewConnectionHandler(cl, cl, ship.ShipRoleClient, ids[0], "skiS", stored(cfg.cid, ids[1]))
	sv.conn = ship.NewConnectionHandler(sv, sv, ship.ShipRoleServer, ids[1], "skiC", stored(cfg.sid, ids[0]))
	cl.conn.Run()
	sv.conn.Run()
	userDone := false
	slowLeft := 3
	sum := func() string {
		sc1, ss := cl.conn.VerifSnapshot(), sv.conn.VerifSnapshot()
		codes := func(q []wireItem) string {
			l := make([]string, len(q))
			for i, w := range q {
				l[i] = fmt.Sprint(wireCode(w))
			}
			return vh.List(l)
		}
		cl.mu.Lock()
		sv.mu.Lock()
		defer cl.mu.Unlock()
		defer sv.mu.Unlock()
		return fmt.Sprintf("(mkSum %d %d %s %s %s %s %d %d %s %s %s %s %s %s)", sc1.State, ss.State, vh.B(cl.closed), vh.B(sv.closed),
			vh.B(sc1.TimerRunning), vh.B(ss.TimerRunning), min(cl.nsetup, 2), min(sv.nsetup, 2), vh.B(cl.complete), vh.B(sv.complete),
			vh.B(cl.idrep), vh.B(sv.idrep), codes(qcs), codes(qsc))
	}
	deliver := func(q *[]wireItem, to *side) {
		w := (*q)[0]
		*q = (*q)[1:]
		to.mu.Lock()
		closed := to.closed
		to.mu.Unlock()
		if closed {
			return
		}
		if w.closed {
			to.mu.Lock()
			to.closed = true
			to.mu.Unlock()
			to.conn.ReportConnectionError(errors.New("peer closed"))
			return
		}
		to.conn.HandleIncomingWebsocketMessage(w.frame)
	}
	fastSince := time.Now()
	exec := func(lb string) {
		before := sv.conn.VerifSnapshot()
		allowS := cfg.allow || trusted
		slow := false
		switch lb {
		case "LDeliverCS":
			deliver(&qcs, sv)
		case "LDeliverSC":
			deliver(&qsc, cl)
		case "LApprove":
			trusted = true
			userDone = true
			sv.conn.ApprovePendingHandshake()
		case "LCancel":
			userDone = true
			sv.conn.AbortPendingHandshake()
			trusted = false
		case "LTimeoutC":
			cl.conn.VerifFireTimeout()
		case "LTimeoutS":
			sv.conn.VerifFireTimeout()
		case "LDeferredC", "LDeferredS":
			slow = true
			time.Sleep(1250 * time.Millisecond)
			// under load a 1 s goroutine may be late: a side resting in abort-done / remote-abort-done
			// has its close pending, wait for it (generous cap)
			for _, sd := range []*side{cl, sv} {
				st := sd.conn.VerifSnapshot().State
				for i := 0; i < 500 && (st == 15 || st == 16); i++ {
					sd.mu.Lock()
					c := sd.closed
					sd.mu.Unlock()
					if c {
						break
					}
					time.Sleep(10 * time.Millisecond)
				}
			}
		}
		sc.labels = append(sc.labels, lb)
		sc.sums = append(sc.sums, sum())
		if slow {
			fastSince = time.Now()
		} else if time.Since(fastSince) > 350*time.Millisecond {
			sc.discard = true
		}
		// a reply timer armed with the 66000 ns default expires at once: it is a timeout label
		if lb == "LTimeoutS" && before.State == 11 && before.TimerRunning && before.TimerType == 1 && !allowS {
			for i := 0; i < 400; i++ {
				if st := sv.conn.VerifSnapshot().State; st == 15 || st == 39 {
					break
				}
				time.Sleep(time.Millisecond)
			}
			time.Sleep(20 * time.Millisecond)
			sc.labels = append(sc.labels, "LTimeoutS")
			sc.sums = append(sc.sums, sum())
		}
	}
	// the scheduler: random enabled labels; timers only when nothing else can happen and the
	// user (if any) has acted; up to 60 labels, then the outcome is read
	for step := 0; step < 70; step++ {
		var en []string
		if len(qcs) > 0 {
			en = append(en, "LDeliverCS", "LDeliverCS")
		}
		if len(qsc) > 0 {
			en = append(en, "LDeliverSC", "LDeliverSC")
		}
		if racing && r.Chance(12) {
			cs, ss := cl.conn.VerifSnapshot(), sv.conn.VerifSnapshot()
			if cs.TimerRunning && len(qcs) == 0 && len(qsc) <= 1 && r.Bool() {
				exec("LTimeoutC")
				continue
			}
			if ss.TimerRunning && len(qsc) == 0 && len(qcs) <= 1 {
				exec("LTimeoutS")
				continue
			}
		}
		if inReady && !userDone && sv.conn.VerifSnapshot().State == 8 {
			if cfg.approves {
				exec("LApprove")
			} else {
				exec("LCancel")
			}
			continue
		}
		userCan := !userDone && (cfg.approves || cfg.cancels)
		if userCan && rounds > 0 && len(en) == 0 {
			ss := sv.conn.VerifSnapshot()
			if ss.State == 11 && ss.TimerRunning && (cfg.allow || trusted) && (directed <= 16 || r.Chance(70)) {
				rounds--
				exec("LTimeoutS")
				continue
			}
		}
		if userCan {
			pend := sv.conn.VerifSnapshot().State == 11
			if (early && pend) || (!early && (pend || r.Chance(10))) {
				if cfg.approves && (!cfg.cancels || r.Bool()) {
					en = append(en, "LApprove")
				} else if cfg.cancels {
					en = append(en, "LCancel")
				}
			}
		}
		if len(en) == 0 || (slowLeft > 0 && r.Chance(4)) {
			// deferred goroutines may be pending: give them time (the model treats a label
			// that is not enabled as a no-op)
			if slowLeft > 0 && (len(en) == 0 || r.Chance(50)) {
				cs, ss := cl.conn.VerifSnapshot().State, sv.conn.VerifSnapshot().State
				if cs == 15 || cs == 16 || len(en) > 0 {
					slowLeft--
					exec("LDeferredC")
					continue
				}
				if ss == 15 || ss == 16 {
					slowLeft--
					exec("LDeferredC") // one real wait lets the pending goroutines of both sides run
					continue
				}
			}
		}
		if len(en) == 0 {
			if userCan {
				if cfg.approves {
					exec("LApprove")
				} else {
					exec("LCancel")
				}
				continue
			}
			ca, sa := cl.conn.VerifSnapshot().TimerRunning, sv.conn.VerifSnapshot().TimerRunning
			if ca && (!sa || r.Bool()) {
				exec("LTimeoutC")
				continue
			}
			if sa {
				exec("LTimeoutS")
				continue
			}
			break
		}
		lb := vh.Pick(r, en)
		if early && lb != "LApprove" && userCan && sv.conn.VerifSnapshot().State == 11 && len(qcs) > 0 {
			lb = "LApprove"
		}
		exec(lb)
	}
	// SPINE burst on a completed, open pair: written back to back, delivered afterwards
	cs1, ss1 := cl.conn.VerifSnapshot(), sv.conn.VerifSnapshot()
	if cs1.State == 38 && ss1.State == 38 && !cl.closed && !sv.closed && cl.writer != nil && sv.writer != nil && len(qcs) == 0 && len(qsc) == 0 {
		k := 2 + r.Intn(6)
		for i := 1; i <= k; i++ {
			sc.csSent = append(sc.csSent, 100+i)
			// payloads are the application's: some use the words of SHIP messages as key or value
			word := shipWords[(i+k)%len(shipWords)]
			if i%3 == 1 {
				cl.writer.WriteShipMessageWithPayload([]byte(fmt.Sprintf(`{"datagram":{"n":%d,"%s":{"phase":"announce"}}}`, 100+i, word)))
				sc.scSent = append(sc.scSent, 200+i)
				sv.writer.WriteShipMessageWithPayload([]byte(fmt.Sprintf(`{"datagram":{"n":%d,"note":"%s"}}`, 200+i, word)))
				continue
			}
			cl.writer.WriteShipMessageWithPayload([]byte(fmt.Sprintf(`{"datagram":{"n":%d}}`, 100+i)))
			sc.scSent = append(sc.scSent, 200+i)
			sv.writer.WriteShipMessageWithPayload([]byte(fmt.Sprintf(`{"datagram":{"n":%d}}`, 200+i)))
		}
		for len(qcs) > 0 {
			deliver(&qcs, sv)
		}
		for len(qsc) > 0 {
			deliver(&qsc, cl)
		}
		sc.csGot = append([]int(nil), sv.got...)
		sc.scGot = append([]int(nil), cl.got...)
	}
	cl.mu.Lock()
	cl.done = true
	cl.mu.Unlock()
	sv.mu.Lock()
	sv.done = true
	sv.mu.Unlock()
	return sc
}

func (sc *pairScen) toCase() vh.Case {
	ints := func(l []int) string {
		x := make([]string, len(l))
		for i, v := range l {
			x[i] = fmt.Sprint(v)
		}
		return vh.List(x)
	}
	coq := fmt.Sprintf("mkPairCase %s %s %s %s %s %s %s", sc.cfg.coq(), vh.List(sc.labels), vh.List(sc.sums), ints(sc.csSent), ints(sc.csGot), ints(sc.scSent), ints(sc.scGot))
	kind := fmt.Sprintf("paired=%v auto=%v allow=%v approves=%v cancels=%v", sc.cfg.paired, sc.cfg.auto, sc.cfg.allow, sc.cfg.approves, sc.cfg.cancels)
	return vh.Case{Coq: coq, Nontrivial: len(sc.labels) >= 6, Key: coq, Kind: kind,
		Sample: map[string]any{"config": fmt.Sprintf("%+v", sc.cfg), "ship_ids_client_server": sc.ids, "labels": sc.labels, "summaries_after_each_label": sc.sums,
			"spine_burst": map[string]any{"client_wrote": sc.csSent, "server_got": sc.csGot, "server_wrote": sc.scSent, "client_got": sc.scGot}}}
}

func mainPair(seed uint64, n int, out string, parallel int) {
	w := vh.NewWriter(out)
	defer w.Close()
	master := vh.NewRng(seed)
	seeds := make([]uint64, n)
	for i := range seeds {
		seeds[i] = master.Next()
	}
	res := make([]*pairScen, n)
	sem := make(chan struct{}, parallel)
	var wg sync.WaitGroup
	for i := 0; i < n; i++ {
		wg.Add(1)
		sem <- struct{}{}
		go func(i int) {
			defer wg.Done()
			defer func() { <-sem }()
			r := vh.NewRng(seeds[i])
			for try := 0; try < 3; try++ {
				res[i] = runPair(r, i)
				if !res[i].discard {
					break
				}
			}
		}(i)
	}
	wg.Wait()
	disc := 0
	for _, sc := range res {
		if sc.discard {
			disc++
			continue
		}
		w.Put(sc.toCase())
	}
	fmt.Printf("pair scenarios=%d discarded_for_timing=%d\n", n, disc)
}
