package main

import (
	"fmt"
	"strings"

	"verif/harness/internal/vh"
)

// Message construction: valid ship-go wire messages as templates, hand-made variants for
// every field (missing, null, wrong type, wrong enum, whitespace), and byte-level mutation.

func ctl(s string) []byte { return append([]byte{1}, []byte(s)...) }
func end(s string) []byte { return append([]byte{3}, []byte(s)...) }
func dat(s string) []byte { return append([]byte{2}, []byte(s)...) }

var waitingValues = []string{"60000", "30000", "29999", "1000", "999", "0", "1", "45000", "120000",
	"9223372036854775", "9223372036854776", "18446744073709551615", "18446744073709", "18446744073709551616", "-1", "1.5", `"60000"`, "null"}

func helloMsg(r *vh.Rng, phase string, waiting string, prolong string) []byte {
	s := `{"connectionHello":[{"phase":"` + phase + `"}`
	if waiting != "" {
		s += `,{"waiting":` + waiting + `}`
	}
	if prolong != "" {
		s += `,{"prolongationRequest":` + prolong + `}`
	}
	return ctl(s + `]}`)
}

func validHello(r *vh.Rng, st int) []byte {
	switch r.Intn(10) {
	case 0, 1, 2, 3, 4:
		return helloMsg(r, "ready", "60000", "")
	case 5:
		return helloMsg(r, "pending", "60000", "")
	case 6:
		return helloMsg(r, "pending", "", "true")
	case 7:
		return helloMsg(r, "aborted", "", "")
	case 8:
		return helloMsg(r, "ready", pickWaiting(r), "")
	default:
		return helloMsg(r, "pending", pickWaiting(r), "")
	}
}

// half the time one of the plain classes (>= 30 s, 1..30 s, < 1 s), else any of the odd values
func pickWaiting(r *vh.Rng) string {
	if r.Bool() {
		return vh.Pick(r, []string{"60000", "45000", "29999", "15000", "12000", "999", "500"})
	}
	return vh.Pick(r, waitingValues)
}

func anyHello(r *vh.Rng) []byte {
	phase := vh.Pick(r, []string{"ready", "pending", "aborted", "foo", "", "READY"})
	w := ""
	if r.Chance(60) {
		w = vh.Pick(r, waitingValues)
	}
	p := ""
	if r.Chance(40) {
		p = vh.Pick(r, []string{"true", "false", "null", `"true"`, "1"})
	}
	return helloMsg(r, phase, w, p)
}

func protMsg(typ, major, minor, formats string) []byte {
	s := `{"messageProtocolHandshake":[{"handshakeType":"` + typ + `"},{"version":[{"major":` + major + `},{"minor":` + minor + `}]}`
	if formats != "" {
		s += `,{"formats":` + formats + `}`
	}
	return ctl(s + `]}`)
}

var formatVariants = []string{
	`[{"format":["JSON-UTF8"]}]`, `[{"format":["JSON-UTF8"]}]`, `[{"format":["JSON-UTF8"]}]`,
	`[{"format":["JSON-UTF16"]}]`, `[{"format":["JSON-UTF8","JSON-UTF16"]}]`, `[{"format":["JSON-UTF16","JSON-UTF8"]}]`,
	`[{"format":[]}]`, `[{"format":[ ]}]`, `[{"format":null}]`, `[]`, `[ ]`, `[{"format":"JSON-UTF8"}]`, `[{"format":[1]}]`, `null`, ``,
}

func anyProt(r *vh.Rng) []byte {
	typ := vh.Pick(r, []string{"announceMax", "select", "select", "foo", ""})
	major := vh.Pick(r, []string{"1", "1", "1", "2", "0", "256", `"1"`})
	minor := vh.Pick(r, []string{"0", "0", "0", "1", "-1"})
	return protMsg(typ, major, minor, vh.Pick(r, formatVariants))
}

func pinMsg(state string) []byte {
	return ctl(`{"connectionPinState":[{"pinState":` + state + `}]}`)
}

var pinVariants = []string{`"none"`, `"none"`, `"required"`, `"optional"`, `"pinOk"`, `"foo"`, `""`, `null`, `1`}

func accReq(r *vh.Rng) []byte {
	return ctl(vh.Pick(r, []string{`{"accessMethodsRequest":[]}`, `{"accessMethodsRequest":[]}`, `{"accessMethodsRequest":{}}`, `{"accessMethodsRequest":[ ]}`, `{"accessMethodsRequest":null}`}))
}

func accMethods(id string) []byte {
	return ctl(`{"accessMethods":[{"id":` + id + `}]}`)
}

func closeMsg(r *vh.Rng, phase string) []byte {
	// maxTime is peer-controlled: usual, absent, zero, huge
	switch r.Intn(5) {
	case 1:
		return end(`{"connectionClose":[{"phase":"` + phase + `"}]}`)
	case 2:
		return end(`{"connectionClose":[{"phase":"` + phase + `"},{"maxTime":4294967295}]}`)
	case 3:
		return end(`{"connectionClose":[{"phase":"` + phase + `"},{"maxTime":0},{"reason":"unspecific"}]}`)
	}
	return end(`{"connectionClose":[{"phase":"` + phase + `"},{"maxTime":500}]}`)
}

func dataMsg(n int) []byte {
	return dat(fmt.Sprintf(`{"data":[{"header":[{"protocolId":"ee1.0"}]},{"payload":{"datagram":[{"n":%d}]}}]}`, n))
}

// SPINE payloads are the application's: any JSON, also one that uses the words of SHIP messages
var shipWords = []string{"connectionClose", "connectionHello", "messageProtocolHandshake", "messageProtocolHandshakeError", "connectionPinState", "accessMethods", "accessMethodsRequest", "data", "header", "payload"}

func dataVariant(r *vh.Rng, n int) []byte {
	if r.Chance(4) {
		return dat(fmt.Sprintf(`{"data":[{"header":[{"protocolId":"ee1.0"}]},{"payload":{"datagram":[{"n":%d},{"pad":"%s"}]}}]}`, n, strings.Repeat("y", 20000+r.Intn(60000))))
	}
	switch r.Intn(11) {
	case 8:
		return dat(fmt.Sprintf(`{"data":[{"header":[{"protocolId":"ee1.0"}]},{"payload":{"datagram":[{"n":%d},{"%s":[{"phase":"announce"}]}]}}]}`, n, vh.Pick(r, shipWords)))
	case 9:
		return dat(fmt.Sprintf(`{"data":[{"header":[{"protocolId":"ee1.0"}]},{"payload":{"datagram":[{"n":%d},{"note":"%s"}]}}]}`, n, vh.Pick(r, shipWords)))
	case 10:
		return dat(fmt.Sprintf(`{"data":[{"header":[{"protocolId":"ee1.0"}]},{"payload":{"datagram":[{"n":%d},{"note":"a \"%s\" in quotes"}]}}]}`, n, vh.Pick(r, shipWords)))
	case 0:
		return dat(`{"data":[{"header":[{"protocolId":"ee1.0"}]}]}`) // no payload
	case 1:
		return dat(`{"data":[{"header":[{"protocolId":"ee1.0"}]},{"payload":{"datagram":[{"n":` + fmt.Sprint(n) + `}]}}`) // truncated
	case 2:
		return ctl(fmt.Sprintf(`{"connectionHello":[{"phase":"ready"},{"waiting":60000}],"x":"datagram %d"}`, n)) // hello that mentions datagram
	case 3:
		return dat(`datagram`)
	default:
		return dataMsg(n)
	}
}

func mutateBytes(r *vh.Rng, b []byte) []byte {
	b = append([]byte(nil), b...)
	k := 1 + r.Intn(3)
	for i := 0; i < k && len(b) > 0; i++ {
		p := r.Intn(len(b))
		switch r.Intn(4) {
		case 0:
			b[p] = byte(r.Intn(256))
		case 1:
			b = append(b[:p], b[p+1:]...)
		case 2:
			b = append(b[:p], append([]byte{vh.Pick(r, []byte(`[]{}",: 0a`))}, b[p:]...)...)
		case 3:
			b = b[:p]
		}
	}
	return b
}

func rawVariants(r *vh.Rng) []byte {
	switch r.Intn(10) {
	case 0:
		return []byte{}
	case 1:
		return []byte{byte(r.Intn(4))}
	case 2:
		return []byte{0, 0}
	case 3:
		return []byte{0, 1}
	case 4:
		return []byte{1, 0}
	case 5:
		return []byte{0, 0, 0}
	case 6:
		return ctl(`{}`)
	case 7:
		return ctl(`[]`)
	case 8:
		return ctl(`{"connectionClose":[{"phase":"foo"}]}`)
	default:
		n := r.Intn(40)
		b := make([]byte, n)
		for i := range b {
			b[i] = byte(r.Intn(256))
		}
		return b
	}
}

// shipIDs used in scenarios
var shipIDs = []string{"idA", "idB", "", "datagram-id", "ID-with-\\\"quote", "IDA", "ida", "idA ", "idb"}

// validFor returns the message a cooperative peer would send next in state st.
func validFor(r *vh.Rng, st int, storedID string, coop bool) []byte {
	if coop && r.Chance(80) {
		switch st {
		case 8, 11:
			return helloMsg(r, "ready", "60000", "")
		case 36:
			if r.Chance(45) {
				return accReq(r)
			}
			id := storedID
			if id == "" {
				id = "idA"
			}
			return accMethods(`"` + id + `"`)
		}
	}
	switch st {
	case 2, 4:
		return []byte{0, 0}
	case 8, 11:
		return validHello(r, st)
	case 20:
		return protMsg("announceMax", "1", "0", `[{"format":["JSON-UTF8"]}]`)
	case 21, 22:
		return protMsg("select", "1", "0", `[{"format":["JSON-UTF8"]}]`)
	case 27:
		return pinMsg(`"none"`)
	case 36:
		if r.Chance(40) {
			return accReq(r)
		}
		id := storedID
		if id == "" || r.Chance(25) {
			id = vh.Pick(r, shipIDs)
		}
		switch r.Intn(12) {
		case 0:
			return ctl(`{"accessMethods":[]}`)
		case 1:
			return accMethods(`null`)
		case 2:
			return accMethods(`7`)
		case 3:
			return ctl(`{"accessMethods":[{"dns":[{"uri":"x"}]}]}`)
		}
		return accMethods(`"` + id + `"`)
	case 38:
		return dataMsg(r.Intn(1000) + 1)
	}
	return rawVariants(r)
}

// anyMessage returns a message of an arbitrary phase (out-of-phase input) or a variant.
func anyMessage(r *vh.Rng) []byte {
	switch r.Intn(9) {
	case 0:
		return anyHello(r)
	case 1:
		return anyProt(r)
	case 2:
		return pinMsg(vh.Pick(r, pinVariants))
	case 3:
		return accReq(r)
	case 4:
		return accMethods(`"` + vh.Pick(r, shipIDs) + `"`)
	case 5:
		return dataVariant(r, r.Intn(1000)+1)
	case 6:
		return closeMsg(r, vh.Pick(r, []string{"announce", "confirm", "foo"}))
	case 7:
		return rawVariants(r)
	default:
		return []byte{0, 0}
	}
}
