// shipdrv drives real ship.ShipConnection objects between a recording info provider and a
// recording, fault-injecting data writer, one scenario per goroutine, and writes the event
// lists with the implementation's observations as cases for bin/check.
package main

import (
	"encoding/hex"
	"encoding/json"
	"errors"
	"flag"
	"fmt"
	"os"
	"runtime"
	"strconv"
	"strings"
	"sync"
	"sync/atomic"
	"time"

	"github.com/enbility/ship-go/api"
	"github.com/enbility/ship-go/model"
	"github.com/enbility/ship-go/ship"

	"verif/harness/internal/vh"
)

var (
	prop       = flag.String("prop", "conn", "case stream (conn)")
	seed       = flag.Uint64("seed", 1, "PRNG seed")
	n          = flag.Int("n", 1000, "number of scenarios")
	out        = flag.String("out", "", "output JSONL")
	parallel   = flag.Int("parallel", 192, "scenarios in flight")
	maxLen     = flag.Int("len", 14, "max events per scenario")
	variantsOf = flag.String("variants", "", "JSONL of earlier cases: run fault/perturbation variants of them instead of new scenarios")
)

// ---- fakes -----------------------------------------------------------------
type scenEnv struct {
	mu          sync.Mutex
	obs         []string
	done        bool
	paired      bool
	auto        bool
	allow       bool
	closed      bool
	expectClose bool // a safe close of a completed connection was requested while the transport was open
	left        int  // data-writer calls left before the transport turns closed; -1 = never
	ncb         int  // HandleConnectionClosed calls so far
}

func (s *scenEnv) add(o string) {
	s.mu.Lock()
	if !s.done {
		s.obs = append(s.obs, o)
	}
	s.mu.Unlock()
}
func (s *scenEnv) take() []string {
	s.mu.Lock()
	defer s.mu.Unlock()
	r := s.obs
	s.obs = nil
	return r
}
func (s *scenEnv) tick() bool {
	s.mu.Lock()
	defer s.mu.Unlock()
	if s.closed {
		return true
	}
	if s.left == 0 {
		s.closed = true
		s.left = -1
		return true
	}
	if s.left > 0 {
		s.left--
	}
	return false
}

type fakeWriter struct{ s *scenEnv }

func (w *fakeWriter) InitDataProcessing(api.WebsocketDataReaderInterface) {}
func (w *fakeWriter) WriteMessageToWebsocketConnection(b []byte) error {
	closed := w.s.tick()
	w.s.add(fmt.Sprintf("OWrite %s %s", frameOf(b), vh.B(!closed)))
	if closed {
		return errors.New("connection is closed")
	}
	return nil
}
func (w *fakeWriter) CloseDataConnection(code int, reason string) {
	w.s.add(fmt.Sprintf("OCloseData %d %s", code, vh.B(reason != "")))
	w.s.mu.Lock()
	w.s.closed = true
	w.s.left = -1
	w.s.mu.Unlock()
}
func (w *fakeWriter) IsDataConnectionClosed() (bool, error) {
	if w.s.tick() {
		return true, errors.New("connection is closed")
	}
	return false, nil
}

type fakeReader struct{ s *scenEnv }

func (r *fakeReader) HandleShipPayloadMessage(m []byte) {
	r.s.add(fmt.Sprintf("ODeliver %d", payloadID(m)))
}

type fakeInfo struct{ s *scenEnv }

func (i *fakeInfo) IsRemoteServiceForSKIPaired(string) bool {
	i.s.add("OPairedQ " + vh.B(i.s.paired))
	return i.s.paired
}
func (i *fakeInfo) IsAutoAcceptEnabled() bool { i.s.add("OAutoQ " + vh.B(i.s.auto)); return i.s.auto }
func (i *fakeInfo) HandleConnectionClosed(c api.ShipConnectionInterface, completed bool) {
	i.s.add("OClosedCb " + vh.B(completed))
	i.s.mu.Lock()
	i.s.ncb++
	i.s.mu.Unlock()
}
func (i *fakeInfo) ReportServiceShipID(ski string, id string) { i.s.add("OShipId " + vh.HxS(id)) }
func (i *fakeInfo) AllowWaitingForTrust(string) bool {
	i.s.add("OAllowQ " + vh.B(i.s.allow))
	return i.s.allow
}
func (i *fakeInfo) HandleShipHandshakeStateUpdate(ski string, st model.ShipState) {
	i.s.add(fmt.Sprintf("OReport %d %s", st.State, vh.B(st.Error != nil)))
}
func (i *fakeInfo) SetupRemoteDevice(ski string, w api.ShipConnectionDataWriterInterface) api.ShipConnectionDataReaderInterface {
	i.s.add("OSetup")
	return &fakeReader{i.s}
}

// ---- events ----------------------------------------------------------------
type event struct {
	kind                string // run recv timeout connerr wclosed approve abort close spine deferred
	msg                 []byte
	safe                bool
	code                int
	reason              bool
	pay                 int
	paired, auto, allow bool
	wf                  int // -1 none
	coqEv               string
	slow                bool
}

func (e *event) coq() string {
	wf := "None"
	if e.wf >= 0 {
		wf = fmt.Sprintf("(Some %d%%nat)", e.wf)
	}
	return fmt.Sprintf("mkX %s %s %s %s %s", e.coqEv, vh.B(e.paired), vh.B(e.auto), vh.B(e.allow), wf)
}

// genEvent picks the next event from the PRNG, aware of the implementation's current state.
// dangerous reports whether a hello message would arm a real timer that can expire within
// the lifetime of a scenario without being "immediate" (durations between 100 us and 9 s):
// real time would then decide the order of events.
func dangerous(v viewInfo) bool {
	if !v.hasWait {
		return false
	}
	const s = int64(1000000000)
	nd := v.waitNs
	if nd >= 30*s && nd < 39*s {
		return true // SendProlongationRequest timer of (nd - 30 s): 0 ns .. 9 s
	}
	if nd >= 1*s && nd < 9*s {
		return true // later used as ProlongRequestReply duration
	}
	return false
}

func genEvent(r *vh.Rng, st int, started bool, storedID string, payCounter *int, coop bool, slowLeft *int, wclosed bool, readerSet bool) []*event {
	e := &event{wf: -1, paired: r.Chance(30), auto: r.Chance(12), allow: r.Chance(70)}
	if coop {
		e.allow = r.Chance(95)
	} else if r.Chance(14) {
		e.wf = r.Intn(6)
	}
	if !started {
		if r.Chance(92) || wclosed {
			e.kind, e.coqEv = "run", "ERun"
			return []*event{e}
		}
	}
	recv := func(m []byte) []*event {
		v := viewOf(m)
		for try := 0; dangerous(v) || (v.isAnnounce && *slowLeft < 2); try++ {
			m = validFor(r, st, storedID, coop)
			if try > 5 {
				m = []byte{0, 0}
			}
			v = viewOf(m)
		}
		e.kind, e.msg, e.coqEv = "recv", m, "(ERecv "+v.coq+")"
		if v.isAnnounce {
			// the announce handler sleeps 500 ms: flush pending deferred actions first so
			// that real time cannot reorder them against later events
			d := &event{kind: "deferred", coqEv: "EDeferred", wf: -1, allow: true, slow: true}
			e.slow = true
			*slowLeft -= 2
			return []*event{d, e}
		}
		return []*event{e}
	}
	p := r.Intn(100)
	if coop && p >= 52 && r.Chance(80) {
		p = r.Intn(52)
	}
	// environment assumption (see coq/theories/ConnEvents.v): SPINE writes need the writer handed out at setup
	if wclosed && (p < 70 || p >= 97) && r.Chance(70) {
		p = 70 + r.Intn(27) // mostly other events once the transport is closed; deliveries after it stay possible
	}
	if !readerSet && p >= 89 && p < 93 {
		p = 70 + r.Intn(19)
	}
	if p >= 93 && p < 97 && *slowLeft < 1 {
		p = 0
		if wclosed {
			p = 70 + r.Intn(19)
			if !readerSet && p >= 89 {
				p = 70
			}
		}
	}
	switch {
	case p < 52:
		if coop && st == 11 && r.Chance(45) {
			e.kind, e.coqEv = "approve", "EApprove"
			return []*event{e}
		}
		m := validFor(r, st, storedID, coop)
		if r.Chance(6) {
			m = mutateBytes(r, m)
		}
		return recv(m)
	case p < 66:
		return recv(anyMessage(r))
	case p < 70:
		*payCounter++
		return recv(dataMsg(*payCounter))
	case p < 74:
		e.kind, e.coqEv = "timeout", "ETimeout"
	case p < 77:
		e.kind, e.coqEv = "connerr", "EConnErr"
	case p < 79:
		e.kind, e.coqEv = "wclosed", "EWClosed"
	case p < 83:
		e.kind, e.coqEv = "approve", "EApprove"
	case p < 85:
		e.kind, e.coqEv = "abort", "EAbort"
	case p < 89:
		e.kind = "close"
		e.safe = r.Bool()
		e.code = vh.Pick(r, []int{0, 0, 4500, 4452})
		e.reason = r.Bool()
		e.coqEv = fmt.Sprintf("(EClose %s %d %s)", vh.B(e.safe), e.code, vh.B(e.reason))
	case p < 93:
		*payCounter++
		e.kind, e.pay = "spine", *payCounter
		e.coqEv = fmt.Sprintf("(ESpineWrite %d)", e.pay)
	case p < 97:
		e.kind, e.coqEv, e.slow = "deferred", "EDeferred", true
		*slowLeft--
	default:
		return recv(closeMsg(r, vh.Pick(r, []string{"announce", "confirm", "confirm", "foo"})))
	}
	return []*event{e}
}

// immediateTimer: will handling e in the state of snapshot b arm a timer that expires at once?
// (a) pending-listen timeout without waiting allowed after a SendProlongationRequest timer:
//
//	the reply timer is armed with lastReceivedWaitingValue, by default 66000 ns;
//
// (b) a hello in pending-listen whose waiting value is exactly the 30 s threshold: the
//
//	SendProlongationRequest timer is armed with duration zero.
func immediateTimer(b ship.VerifSnapshot, e *event) bool {
	return b.State == 11 && (e.kind == "timeout" || e.kind == "selftimeout") && b.TimerRunning && b.TimerType == 1 && !e.allow && b.LastWaiting == 0
}

// settle waits for a self-firing timer: first for any observation to appear, then for the
// log to stay unchanged for a while. Returns false if nothing happened.
func settle(env *scenEnv) bool {
	count := func() int { env.mu.Lock(); defer env.mu.Unlock(); return len(env.obs) }
	for i := 0; i < 300 && count() == 0; i++ {
		time.Sleep(time.Millisecond)
	}
	if count() == 0 {
		return false
	}
	stable, prev := 0, count()
	for i := 0; i < 100 && stable < 3; i++ {
		time.Sleep(3 * time.Millisecond)
		if c := count(); c == prev {
			stable++
		} else {
			stable, prev = 0, c
		}
	}
	return true
}

// lastType: the timer type recorded by the snapshot before the latest event
func lastType(sc *scenario) uint {
	if len(sc.obs) < 2 {
		return 0
	}
	o := sc.obs[len(sc.obs)-2]
	if len(o) == 0 {
		return 0
	}
	var st, tt, bl int
	var a, b, c string
	if _, err := fmt.Sscanf(o[len(o)-1], "OSnap %d %s %s %d %s %d", &st, &a, &b, &tt, &c, &bl); err != nil {
		return 0
	}
	return uint(tt)
}

// ---- directed scenarios: kept from earlier disagreements and from the defects found on the
// pinned tree; they are executed against the implementation on every run, before the
// random ones.
type scriptT struct {
	client bool
	stored string
	local  string
	steps  []string
	fixed  []scriptEv // when set, these exact events are executed (variants of an earlier scenario)
}

var scripts = []scriptT{
	// C08: select reply with a present but empty format list
	{client: true, steps: []string{"run", "valid", "ready", "msg:" + string(protMsg("select", "1", "0", `[{"format":[ ]}]`)), "valid"}},
	{client: true, steps: []string{"run", "valid", "ready", "msg:" + string(protMsg("select", "1", "0", `[{"format":[]}]`))}},
	// C04: select reply cannot be sent (transport closes between the closed query and the write / before)
	{steps: []string{"run", "valid", "approve", "wf1:valid", "valid", "timeout"}},
	{steps: []string{"run", "valid", "approve", "wf0:valid", "valid", "timeout"}},
	// C04: approval while the ready message cannot be sent
	{steps: []string{"run", "valid", "wf0:approve", "timeout", "deferred"}},
	{steps: []string{"run", "valid", "wf1:approve", "timeout", "deferred"}},
	// C04/C11: close announce / confirm during the handshake, before Run, while pending
	{steps: []string{"run", "valid", "deferred", "announce", "approve", "timeout"}},
	{steps: []string{"deferred", "announce", "run", "timeout"}},
	{steps: []string{"run", "confirm", "valid", "timeout"}},
	// C11: graceful close, both roles of the exchange, and the races around it
	{client: true, stored: "idA", steps: []string{"run", "valid", "ready", "valid", "valid", "accreq", "acc:idA", "closeS", "confirm", "deferred"}},
	{client: true, stored: "idA", steps: []string{"run", "valid", "ready", "valid", "valid", "accreq", "acc:idA", "closeS", "deferred", "confirm"}},
	{client: true, steps: []string{"run", "valid", "ready", "valid", "valid", "acc:idB", "deferred", "announce", "closeS", "deferred"}},
	{client: true, steps: []string{"run", "valid", "ready", "valid", "valid", "acc:idB", "wclosed", "closeS", "connerr", "deferred"}},
	{client: true, steps: []string{"run", "valid", "ready", "valid", "valid", "acc:idB", "closeS", "connerr", "deferred", "closeU"}},
	{client: true, steps: []string{"run", "valid", "ready", "valid", "valid", "acc:idB", "spine", "wclosed", "spine", "connerr"}},
	// C04/C11: a local graceful close of a completed connection whose transport turns closed right
	// before / right after the closed-query / after the announce was written
	{client: true, steps: []string{"run", "valid", "ready", "valid", "valid", "acc:idB", "wf0:closeS", "deferred", "timeout"}},
	{client: true, steps: []string{"run", "valid", "ready", "valid", "valid", "acc:idB", "wf1:closeS", "deferred", "timeout"}},
	{client: true, steps: []string{"run", "valid", "ready", "valid", "valid", "acc:idB", "wf2:closeS", "deferred", "timeout"}},
	{steps: []string{"run", "valid", "approve", "valid", "valid", "valid", "acc:idA", "wf1:closeS", "deferred", "timeout"}},
	{steps: []string{"run", "valid", "approve", "valid", "valid", "valid", "acc:idA", "wf2:closeS", "deferred", "connerr"}},
	// C06: large datagrams (80 KB, 3 x 30 KB) that arrive before the receiver's handshake is over
	{steps: []string{"run", "valid", "bigdata:80000", "data", "approve", "valid", "valid", "valid", "acc:idA", "data"}},
	{client: true, steps: []string{"run", "valid", "ready", "bigdata:30000", "bigdata:30000", "bigdata:30000", "data", "valid", "valid", "acc:idB", "data"}},
	// C09: wrong / missing id while one is stored; unknown id reported once
	{client: true, stored: "idA", steps: []string{"run", "valid", "ready", "valid", "valid", "acc:idB", "acc:idA"}},
	{stored: "idA", steps: []string{"run", "valid", "approve", "valid", "valid", "valid", "msg:" + string(accMethods("null")), "acc:idA"}},
	{steps: []string{"run", "valid", "approve", "valid", "valid", "valid", "acc:", "data", "spine"}},
	// C14/C04: a pending server's wait is ended by a hello with every class of waiting value
	// (> 30 s re-arms, 1..30 s stops, < 1 s aborts, none aborts; exactly 30 s arms a 0 ns timer that fires by itself - left to the random stream, which waits for it), then the old timer's expiry is tried
	{steps: []string{"run", "valid", "ready", "msg:" + string(helloMsg(nil, "pending", "29999", "")), "timeout", "approve", "timeout"}},
	{steps: []string{"run", "valid", "ready", "msg:" + string(helloMsg(nil, "pending", "12000", "")), "timeout", "deferred"}},
	{steps: []string{"run", "valid", "msg:" + string(helloMsg(nil, "pending", "15000", "")), "timeout", "approve"}},
	{steps: []string{"run", "valid", "ready", "msg:" + string(helloMsg(nil, "ready", "15000", "")), "timeout", "approve", "timeout"}},
	{steps: []string{"run", "valid", "ready", "msg:" + string(helloMsg(nil, "pending", "999", "")), "timeout", "deferred"}},
	// C01/C06: data before completion, pending without approval, cancel
	{steps: []string{"run", "valid", "data", "data", "ready", "timeout", "data", "abort", "data", "deferred"}},
	{steps: []string{"run", "valid", "data", "approve", "data", "valid", "valid", "valid", "data", "acc:idA", "data"}},
}

// every shape of a hello message in both listening states of the hello phase: phase x waiting
// (absent, >= 30 s, 1..30 s, < 1 s) x prolongationRequest (absent, true, false); in pending-listen
// (server, peer not trusted, waiting allowed) and in ready-listen (client)
func init() {
	for _, phase := range []string{"ready", "pending", "aborted", "foo"} {
		for _, w := range []string{"", "60000", "15000", "500"} {
			for _, p := range []string{"", "true", "false"} {
				m := "msg:" + string(helloMsg(nil, phase, w, p))
				scripts = append(scripts,
					scriptT{steps: []string{"run", "valid", m, "timeout", "deferred"}},
					scriptT{client: true, steps: []string{"run", "valid", m, "timeout", "deferred"}})
			}
		}
	}
}

func scriptEvent(r *vh.Rng, step string, st int, storedID string, pay *int) []*event {
	e := &event{wf: -1, allow: true}
	for strings.HasPrefix(step, "wf") && strings.Contains(step, ":") && len(step) > 3 && step[2] >= '0' && step[2] <= '9' {
		e.wf = int(step[2] - '0')
		step = step[4:]
	}
	recv := func(m []byte) []*event {
		v := viewOf(m)
		e.kind, e.msg, e.coqEv = "recv", m, "(ERecv "+v.coq+")"
		if v.isAnnounce {
			e.slow = true
		}
		return []*event{e}
	}
	switch {
	case step == "run":
		e.kind, e.coqEv = "run", "ERun"
	case step == "valid":
		return recv(validFor(r, st, storedID, true))
	case step == "ready":
		return recv(helloMsg(r, "ready", "60000", ""))
	case step == "accreq":
		return recv(ctl(`{"accessMethodsRequest":[]}`))
	case strings.HasPrefix(step, "acc:"):
		return recv(accMethods(`"` + step[4:] + `"`))
	case strings.HasPrefix(step, "msg:"):
		return recv([]byte(step[4:]))
	case step == "data":
		*pay++
		return recv(dataMsg(*pay))
	case strings.HasPrefix(step, "bigdata:"):
		*pay++
		n, _ := strconv.Atoi(step[8:])
		return recv(dat(fmt.Sprintf(`{"data":[{"header":[{"protocolId":"ee1.0"}]},{"payload":{"datagram":[{"n":%d},{"pad":"%s"}]}}]}`, *pay, strings.Repeat("x", n))))
	case step == "announce":
		return recv(closeMsg(r, "announce"))
	case step == "confirm":
		return recv(closeMsg(r, "confirm"))
	case step == "timeout":
		e.kind, e.coqEv = "timeout", "ETimeout"
	case step == "connerr":
		e.kind, e.coqEv = "connerr", "EConnErr"
	case step == "wclosed":
		e.kind, e.coqEv = "wclosed", "EWClosed"
	case step == "approve":
		e.kind, e.coqEv = "approve", "EApprove"
	case step == "abort":
		e.kind, e.coqEv = "abort", "EAbort"
	case step == "closeS":
		e.kind, e.safe, e.reason, e.coqEv = "close", true, true, "(EClose true 0 true)"
	case step == "closeU":
		e.kind, e.safe, e.coqEv = "close", false, "(EClose false 0 false)"
	case step == "spine":
		*pay++
		e.kind, e.pay = "spine", *pay
		e.coqEv = fmt.Sprintf("(ESpineWrite %d)", e.pay)
	case step == "deferred":
		e.kind, e.coqEv, e.slow = "deferred", "EDeferred", true
	default:
		panic("unknown script step " + step)
	}
	return []*event{e}
}

// scriptEv is the machine-readable form of an executed event, enough to run it again.
type scriptEv struct {
	Kind   string `json:"kind"`
	Msg    string `json:"msg"`
	Safe   bool   `json:"safe"`
	Code   int    `json:"code"`
	Reason bool   `json:"reason"`
	Pay    int    `json:"pay"`
	Paired bool   `json:"paired"`
	Auto   bool   `json:"auto"`
	Allow  bool   `json:"allow"`
	Wf     int    `json:"wf"`
}

func (se scriptEv) event() *event {
	e := &event{kind: se.Kind, safe: se.Safe, code: se.Code, reason: se.Reason, pay: se.Pay, paired: se.Paired, auto: se.Auto, allow: se.Allow, wf: se.Wf}
	switch se.Kind {
	case "run":
		e.coqEv = "ERun"
	case "recv":
		e.msg, _ = hex.DecodeString(se.Msg)
		v := viewOf(e.msg)
		e.coqEv = "(ERecv " + v.coq + ")"
		e.slow = v.isAnnounce
	case "timeout", "selftimeout":
		e.kind, e.coqEv = "timeout", "ETimeout"
	case "connerr":
		e.coqEv = "EConnErr"
	case "wclosed":
		e.coqEv = "EWClosed"
	case "approve":
		e.coqEv = "EApprove"
	case "abort":
		e.coqEv = "EAbort"
	case "close":
		e.coqEv = fmt.Sprintf("(EClose %s %d %s)", vh.B(e.safe), e.code, vh.B(e.reason))
	case "spine":
		e.coqEv = fmt.Sprintf("(ESpineWrite %d)", e.pay)
	case "deferred":
		e.coqEv, e.slow = "EDeferred", true
	}
	return e
}

type result struct {
	obs     []string
	outcome string // "", "panic", "hang"
}

func perform(c *ship.ShipConnection, env *scenEnv, e *event) (outcome string) {
	defer func() {
		if r := recover(); r != nil {
			env.add("OPanic")
			outcome = "panic"
		}
	}()
	switch e.kind {
	case "run":
		c.Run()
	case "recv":
		c.HandleIncomingWebsocketMessage(e.msg)
	case "timeout":
		c.VerifFireTimeout()
	case "connerr":
		// the websocket layer sets its closed flag before it reports
		env.mu.Lock()
		env.closed = true
		env.left = -1
		env.mu.Unlock()
		c.ReportConnectionError(errors.New("transport error"))
	case "wclosed":
		env.mu.Lock()
		env.closed = true
		env.left = -1
		env.mu.Unlock()
	case "approve":
		c.ApprovePendingHandshake()
	case "abort":
		c.AbortPendingHandshake()
	case "close":
		if e.safe && c.VerifSnapshot().State == 38 {
			env.mu.Lock()
			if !env.closed {
				env.expectClose = true // the announce was (or will be) written: a 500 ms goroutine closes
			}
			env.mu.Unlock()
		}
		reason := ""
		if e.reason {
			reason = "bye"
		}
		c.CloseConnection(e.safe, e.code, reason)
	case "spine":
		c.WriteShipMessageWithPayload([]byte(fmt.Sprintf(`{"datagram":{"n":%d}}`, e.pay)))
	case "deferred":
		time.Sleep(1250 * time.Millisecond)
		// under load a pending goroutine may be late: if the connection rests in abort-done /
		// remote-abort-done, or a safe close was announced, its close is pending - wait for it
		// (the end of the connection is reported by that goroutine, or was reported before: the
		// transport being closed already, by the peer, says nothing about the goroutine)
		st := c.VerifSnapshot().State
		for i := 0; i < 450 && (st == 15 || st == 16 || env.expectClose); i++ {
			env.mu.Lock()
			cl := env.ncb > 0
			env.mu.Unlock()
			if cl {
				break
			}
			time.Sleep(10 * time.Millisecond)
		}
	}
	return ""
}

type scenario struct {
	role          string
	stored, local string
	events        []*event
	obs           [][]string
	discarded     bool
	kinds         map[string]int
	maxState      int
	outcome       string
}

func runScenario(r *vh.Rng, maxLen int, script *scriptT) *scenario {
	sc := &scenario{kinds: map[string]int{}}
	began := time.Now()
	// the real handshake timers (10 s and more) must never expire by themselves during a scenario:
	// a run that took longer than 7 s without a recorded hang (machine under heavy load) is discarded
	defer func() {
		if sc.outcome == "" && time.Since(began) > 7*time.Second {
			sc.discarded = true
		}
	}()
	env := &scenEnv{left: -1}
	role := ship.ShipRoleServer
	sc.role = "Server"
	if r.Chance(45) {
		role = ship.ShipRoleClient
		sc.role = "Client"
	}
	sc.local = vh.Pick(r, []string{"localShip", "L"})
	if r.Chance(45) {
		sc.stored = vh.Pick(r, shipIDs[:2])
	}
	if script != nil && script.local != "" {
		sc.local = script.local
	}
	if script != nil {
		role, sc.role, sc.stored = ship.ShipRoleServer, "Server", script.stored
		if script.client {
			role, sc.role = ship.ShipRoleClient, "Client"
		}
	}
	conn := ship.NewConnectionHandler(&fakeInfo{env}, &fakeWriter{env}, role, sc.local, "ski", sc.stored)
	started := false
	pay := 0
	coop := r.Chance(45)
	slowLeft := 3
	length := 3 + r.Intn(maxLen-2)
	if script != nil {
		length = 1000
	}
	step := 0
	fastSince := time.Now()
	for len(sc.events) < length {
		if script != nil && script.fixed == nil && step >= len(script.steps) {
			break
		}
		if script != nil && script.fixed != nil && step >= len(script.fixed) {
			break
		}
		snap := conn.VerifSnapshot()
		env.mu.Lock()
		wclosed := env.closed
		env.mu.Unlock()
		var evs []*event
		if script != nil && script.fixed != nil {
			evs = []*event{script.fixed[step].event()}
			step++
		} else if script != nil {
			evs = scriptEvent(r, script.steps[step], int(snap.State), snap.RemoteShipID, &pay)
			step++
		} else {
			evs = genEvent(r, int(snap.State), started, snap.RemoteShipID, &pay, coop, &slowLeft, wclosed, snap.ReaderSet)
		}
		for k := 0; k < len(evs); k++ {
			e := evs[k]
			before := conn.VerifSnapshot()
			// pending-listen timeout after a SendProlongationRequest timer, waiting not allowed and
			// no waiting value received: the code arms the reply timer with 66000 ns, which would
			// expire by itself within the same event. Real time would then decide what belongs
			// to which event, so this corner is only exercised with a received waiting value.
			if script == nil && before.State == 11 && e.kind == "timeout" && before.TimerRunning && before.TimerType == 1 && !e.allow && before.LastWaiting == 0 {
				e.allow = true
			}
			env.mu.Lock()
			env.paired, env.auto, env.allow = e.paired, e.auto, e.allow
			if e.wf >= 0 && !env.closed {
				env.left = e.wf
			}
			env.mu.Unlock()
			if e.slow {
				fastSince = time.Time{}
			}
			done := make(chan string, 1)
			go func() { done <- perform(conn, env, e) }()
			outcome := ""
			select {
			case outcome = <-done:
			case <-time.After(6 * time.Second):
				env.add("OHang")
				hangs.Add(1)
				outcome = "hang"
			}
			if e.kind == "run" {
				started = true
			}
			env.mu.Lock()
			if env.left >= 0 {
				env.left = -1
			}
			env.mu.Unlock()
			obs := env.take()
			if outcome == "" {
				s := conn.VerifSnapshot()
				obs = append(obs, fmt.Sprintf("OSnap %d %s %s %d %s %d", s.State, vh.B(s.HasError), vh.B(s.TimerRunning), s.TimerType, vh.B(s.ReaderSet), s.BufferLen))
				if int(s.State) > sc.maxState && s.State != 39 {
					sc.maxState = int(s.State)
				}
			}
			sc.events = append(sc.events, e)
			sc.obs = append(sc.obs, obs)
			sc.kinds[e.kind]++
			if e.slow {
				fastSince = time.Now()
			} else if outcome == "" && !fastSince.IsZero() && time.Since(fastSince) > 350*time.Millisecond {
				// the fast segment took long enough for a pending 500 ms / 1 s goroutine to
				// interleave: timing is not controlled any more, drop the scenario
				sc.discarded = true
			}
			if outcome != "" {
				sc.outcome = outcome
				goto end
			}
			// a timer armed with a (near-)zero duration expires by itself at once: wait for it
			// and record it as the timeout event it is
			if immediateTimer(before, e) {
				// the reply timer was armed with lastReceivedWaitingValue (66000 ns unless the peer
				// announced a waiting time): if it expires by itself the connection aborts (abort done or
				// error state). Wait for that definite end of the expiry handler, then record the expiry
				// as the timeout event it is.
				fired := false
				for i := 0; i < 400; i++ {
					st := conn.VerifSnapshot().State
					if st == 15 || st == 39 {
						fired = true
						break
					}
					time.Sleep(time.Millisecond)
				}
				if fired {
					time.Sleep(20 * time.Millisecond)
					se := &event{kind: "selftimeout", coqEv: "ETimeout", wf: -1, paired: e.paired, auto: e.auto, allow: e.allow}
					o := env.take()
					s := conn.VerifSnapshot()
					o = append(o, fmt.Sprintf("OSnap %d %s %s %d %s %d", s.State, vh.B(s.HasError), vh.B(s.TimerRunning), s.TimerType, vh.B(s.ReaderSet), s.BufferLen))
					sc.events = append(sc.events, se)
					sc.obs = append(sc.obs, o)
					sc.kinds[se.kind]++
				}
			}
		}
	}
end:
	env.mu.Lock()
	env.done = true
	env.mu.Unlock()
	return sc
}

func (sc *scenario) toCase() vh.Case {
	evs := make([]string, len(sc.events))
	obs := make([]string, len(sc.events))
	var hum []map[string]any
	var script []scriptEv
	for i, e := range sc.events {
		evs[i] = e.coq()
		obs[i] = vh.List(sc.obs[i])
		h := map[string]any{"event": e.kind, "obs": sc.obs[i]}
		if e.kind == "recv" {
			h["msg_hex"] = fmt.Sprintf("%x", e.msg)
			if len(e.msg) > 0 {
				h["msg"] = fmt.Sprintf("%d|%s", e.msg[0], strings.ToValidUTF8(string(e.msg[1:]), "?"))
			}
		}
		if e.wf >= 0 {
			h["transport_closes_after_calls"] = e.wf
		}
		h["env"] = fmt.Sprintf("paired=%v auto=%v allow=%v", e.paired, e.auto, e.allow)
		hum = append(hum, h)
		script = append(script, scriptEv{Kind: e.kind, Msg: fmt.Sprintf("%x", e.msg), Safe: e.safe, Code: e.code, Reason: e.reason, Pay: e.pay,
			Paired: e.paired, Auto: e.auto, Allow: e.allow, Wf: e.wf})
	}
	coq := fmt.Sprintf("mkConnCase %s %s %s %s %s", sc.role, vh.HxS(sc.stored), vh.HxS(sc.local), vh.List(evs), vh.List(obs))
	kind := fmt.Sprintf("%s/max%d", sc.role, sc.maxState)
	if sc.outcome != "" {
		kind += "/" + sc.outcome
	}
	return vh.Case{
		Coq: coq, Nontrivial: sc.maxState >= 8, Key: sc.role + sc.stored + sc.local + strings.Join(evs, ";"),
		Kind:   kind,
		Sample: map[string]any{"role": sc.role, "stored_ship_id": sc.stored, "local_ship_id": sc.local, "events": hum, "script": script},
	}
}

// loadVariants replaces the directed scenarios by variants of earlier cases (the search for
// a failing input around a disagreement): the case itself, and for every event the same
// scenario with the transport closing before the k-th data-writer call of that event
// (k < 6), with the waiting-allowed answer flipped, and truncated after that event followed
// by a timeout and a wait for the deferred goroutines.
func loadVariants(path string) {
	f, err := os.Open(path)
	if err != nil {
		fmt.Fprintln(os.Stderr, err)
		os.Exit(2)
	}
	defer f.Close()
	scripts = nil
	dec := json.NewDecoder(f)
	for {
		var c struct {
			Sample struct {
				Role   string     `json:"role"`
				Stored string     `json:"stored_ship_id"`
				Local  string     `json:"local_ship_id"`
				Script []scriptEv `json:"script"`
			} `json:"sample"`
		}
		if err := dec.Decode(&c); err != nil {
			break
		}
		base := scriptT{client: c.Sample.Role == "Client", stored: c.Sample.Stored, local: c.Sample.Local}
		add := func(evs []scriptEv) {
			s := base
			s.fixed = evs
			scripts = append(scripts, s)
		}
		evs := c.Sample.Script
		add(evs)
		for i := range evs {
			for k := 0; k < 6; k++ {
				v := append([]scriptEv(nil), evs...)
				v[i].Wf = k
				add(v)
			}
			v := append([]scriptEv(nil), evs...)
			v[i].Allow = !v[i].Allow
			add(v)
			t := append([]scriptEv(nil), evs[:i+1]...)
			t = append(t, scriptEv{Kind: "timeout", Wf: -1, Allow: true}, scriptEv{Kind: "deferred", Wf: -1, Allow: true}, scriptEv{Kind: "timeout", Wf: -1, Allow: true})
			add(t)
		}
	}
}

// handlers that did not return: their goroutines cannot be stopped and may spin; after a few
// of them the remaining scenarios are skipped (the recorded hangs carry the verdict)
var hangs atomic.Int32

const maxHangs = 3

func main() {
	flag.Parse()
	if *out == "" {
		fmt.Fprintln(os.Stderr, "need -out")
		os.Exit(2)
	}
	runtime.GOMAXPROCS(runtime.NumCPU())
	if *prop == "e2e" {
		mainE2E(*seed, *n, *out)
		return
	}
	if *prop == "closerace" {
		mainCloseRace(*seed, *n, *out)
		return
	}
	if *prop == "pair" {
		mainPair(*seed, *n, *out, *parallel)
		return
	}
	w := vh.NewWriter(*out)
	defer w.Close()
	if *variantsOf != "" {
		loadVariants(*variantsOf)
		*n = len(scripts)
	}
	master := vh.NewRng(*seed)
	// one PRNG per scenario index, so a scenario is a function of (seed, index) and of the
	// implementation's behaviour only
	results := make([]*scenario, *n)
	sem := make(chan struct{}, *parallel)
	var wg sync.WaitGroup
	seeds := make([]uint64, *n)
	for i := range seeds {
		seeds[i] = master.Next()
	}
	for i := 0; i < *n; i++ {
		wg.Add(1)
		sem <- struct{}{}
		go func(i int) {
			defer wg.Done()
			defer func() { <-sem }()
			if hangs.Load() >= maxHangs {
				return
			}
			r := vh.NewRng(seeds[i])
			var sc *scenario
			for try := 0; try < 3; try++ {
				var script *scriptT
				if i < len(scripts) {
					script = &scripts[i]
				}
				sc = runScenario(r, *maxLen, script)
				if !sc.discarded {
					break
				}
			}
			results[i] = sc
		}(i)
	}
	wg.Wait()
	discarded, skipped := 0, 0
	for _, sc := range results {
		if sc == nil {
			skipped++
			continue
		}
		if sc.discarded {
			discarded++
			continue
		}
		w.Put(sc.toCase())
	}
	fmt.Printf("scenarios=%d discarded_for_timing=%d skipped_after_%d_hangs=%d\n", *n, discarded, maxHangs, skipped)
}
