package main

import (
	"errors"
	"fmt"
	"runtime"
	"sync"
	"sync/atomic"
	"time"

	"github.com/enbility/ship-go/api"
	"github.com/enbility/ship-go/model"
	"github.com/enbility/ship-go/ship"

	"verif/harness/internal/vh"
)

// closerace (C11, coinciding causes on different goroutines; coq/theories/RegRace.v (b)):
// fresh connections, each ended by k goroutines released together from a spin barrier -
// CloseConnection(false), CloseConnection(true), ReportConnectionError, CloseConnection with a
// code - and the number of HandleConnectionClosed reports the hub side received for it.

type raceInfo struct{ reports atomic.Int32 }

func (i *raceInfo) IsRemoteServiceForSKIPaired(string) bool { return true }
func (i *raceInfo) HandleConnectionClosed(api.ShipConnectionInterface, bool) {
	i.reports.Add(1)
}
func (i *raceInfo) ReportServiceShipID(string, string)                     {}
func (i *raceInfo) AllowWaitingForTrust(string) bool                       { return true }
func (i *raceInfo) IsAutoAcceptEnabled() bool                              { return false }
func (i *raceInfo) HandleShipHandshakeStateUpdate(string, model.ShipState) {}
func (i *raceInfo) SetupRemoteDevice(string, api.ShipConnectionDataWriterInterface) api.ShipConnectionDataReaderInterface {
	return nil
}

type raceWriter struct{ closed atomic.Bool }

func (w *raceWriter) InitDataProcessing(api.WebsocketDataReaderInterface) {}
func (w *raceWriter) WriteMessageToWebsocketConnection([]byte) error      { return nil }
func (w *raceWriter) CloseDataConnection(int, string)                     { w.closed.Store(true) }
func (w *raceWriter) IsDataConnectionClosed() (bool, error)               { return w.closed.Load(), nil }

func raceOne(k int, client bool) int {
	info, wr := &raceInfo{}, &raceWriter{}
	role := ship.ShipRoleServer
	if client {
		role = ship.ShipRoleClient
	}
	c := ship.NewConnectionHandler(info, wr, role, "local", "ski", "")
	c.Run()
	var ready, wg sync.WaitGroup
	var gate atomic.Bool
	ready.Add(k)
	wg.Add(k)
	for j := 0; j < k; j++ {
		go func(j int) {
			defer wg.Done()
			ready.Done()
			for !gate.Load() {
			}
			switch j % 4 {
			case 0:
				c.CloseConnection(false, 0, "")
			case 1:
				c.ReportConnectionError(errors.New("transport"))
			case 2:
				c.CloseConnection(true, 4001, "bye")
			default:
				c.CloseConnection(false, 4452, "node rejected")
			}
		}(j)
	}
	ready.Wait()
	gate.Store(true)
	wg.Wait()
	// the reports are made on the closers' goroutines before they return (the connection is not
	// complete, so no close is deferred); a short grace period for a straggler
	time.Sleep(200 * time.Microsecond)
	return int(info.reports.Load())
}

func mainCloseRace(seed uint64, n int, out string) {
	w := vh.NewWriter(out)
	defer w.Close()
	r := vh.NewRng(seed)
	k := 4
	if runtime.NumCPU() < 4 {
		k = 2
	}
	const batch = 100
	for done := 0; done < n; done += batch {
		client := r.Bool()
		reps := make([]string, 0, batch)
		hist := map[int]int{}
		for i := 0; i < batch && done+i < n; i++ {
			x := raceOne(k, client)
			reps = append(reps, fmt.Sprint(x))
			hist[x]++
		}
		w.Put(vh.Case{
			Coq:        fmt.Sprintf("mkCloseRace %d %s", k, vh.List(reps)),
			Nontrivial: true,
			Key:        fmt.Sprintf("closerace|%d|%d", seed, done),
			Kind:       fmt.Sprintf("closers=%d client=%v", k, client),
			Sample:     map[string]any{"closers": k, "client_role": client, "connections": len(reps), "reports_per_connection_histogram": hist, "cpus": runtime.NumCPU()},
		})
	}
}
