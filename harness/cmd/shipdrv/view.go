package main

import (
	"bytes"
	"encoding/json"
	"fmt"
	"regexp"
	"strconv"
	"strings"
	"time"

	"github.com/enbility/ship-go/model"
	"github.com/enbility/ship-go/ship"

	"verif/harness/internal/vh"
)

// The view of a received frame: the result of every test and decoder the handlers may
// apply to it, computed here with encoding/json on the repository's public model structs
// and ship.JsonFromEEBUSJson — independently of the handlers.

var payloadNum = regexp.MustCompile(`"n":(\d+)`)

func jsonPart(msg []byte) []byte {
	if len(msg) == 0 {
		return nil
	}
	// the transform is the implementation's own: under a deadline, so that a version of it that
	// does not return cannot wedge the generator (the handler that gets this message hangs in
	// the same call and is recorded as OHang by the deadline around it)
	done := make(chan []byte, 1)
	go func() { done <- ship.JsonFromEEBUSJson(msg[1:]) }()
	select {
	case b := <-done:
		return b
	case <-time.After(3 * time.Second):
		return nil
	}
}

func optN(p *uint) string {
	if p == nil {
		return "None"
	}
	return fmt.Sprintf("(Some %d)", *p)
}

func payloadID(raw []byte) int {
	m := payloadNum.FindSubmatch(raw)
	if m == nil {
		return 0
	}
	n, _ := strconv.Atoi(string(m[1]))
	return n
}

type viewInfo struct {
	hasWait    bool
	waitNs     int64 // time.Duration(uint)*time.Millisecond as Go computes it (wraps)
	coq        string
	dg         string
	cl         string
	summary    string
	isAnnounce bool
}

func viewOf(msg []byte) viewInfo {
	js := jsonPart(msg)
	// datagram
	dg, payload := "NotDatagram", 0
	// the router of the connection (ship.hasSpineDatagram): a frame of message type data that
	// contains the word - a control message that merely mentions it is a SHIP message
	if len(msg) > 0 && msg[0] == model.MsgTypeData && bytes.Contains(msg, []byte("datagram")) {
		var d model.ShipData
		if err := json.Unmarshal(js, &d); err != nil {
			dg = "DgErr"
		} else if d.Data.Payload == nil {
			dg = "DgNoPayload"
		} else {
			dg = "DgOk"
			payload = payloadID(d.Data.Payload)
		}
	}
	// close
	cl := "NoClose"
	if len(msg) > 2 {
		var c model.ConnectionClose
		if err := json.Unmarshal(js, &c); err == nil && c.ConnectionClose.Phase != "" {
			switch c.ConnectionClose.Phase {
			case model.ConnectionClosePhaseTypeAnnounce:
				cl = "ClAnnounce"
			case model.ConnectionClosePhaseTypeConfirm:
				cl = "ClConfirm"
			default:
				cl = "ClOther"
			}
		}
	}
	// init
	ini := "InitOk"
	if len(msg) > 0 {
		if msg[0] != model.MsgTypeInit {
			ini = "InitBadType"
		} else if len(msg) > 1 && msg[1] != 0 {
			ini = "InitBadSecond"
		}
	}
	// hello
	hasWait, waitNs := false, int64(0)
	hello := "None"
	{
		var h model.ConnectionHello
		if err := json.Unmarshal(js, &h); err == nil {
			ph := "HOther"
			switch h.ConnectionHello.Phase {
			case model.ConnectionHelloPhaseTypeReady:
				ph = "HReady"
			case model.ConnectionHelloPhaseTypePending:
				ph = "HPending"
			case model.ConnectionHelloPhaseTypeAborted:
				ph = "HAborted"
			}
			pr := "PNone"
			if h.ConnectionHello.ProlongationRequest != nil {
				if *h.ConnectionHello.ProlongationRequest {
					pr = "PTrue"
				} else {
					pr = "PFalse"
				}
			}
			hello = fmt.Sprintf("(Some (%s, %s, %s))", ph, optN(h.ConnectionHello.Waiting), pr)
			if h.ConnectionHello.Waiting != nil {
				hasWait = true
				waitNs = int64(*h.ConnectionHello.Waiting) * 1000000
			}
		}
	}
	// protocol handshake
	prot := "ProtErr"
	{
		var p model.MessageProtocolHandshake
		if err := json.Unmarshal(js, &p); err == nil {
			t := "POtherT"
			switch p.MessageProtocolHandshake.HandshakeType {
			case model.ProtocolHandshakeTypeTypeAnnounceMax:
				t = "PAnnounce"
			case model.ProtocolHandshakeTypeTypeSelect:
				t = "PSelect"
			}
			ver := p.MessageProtocolHandshake.Version.Major == 1 && p.MessageProtocolHandshake.Version.Minor == 0
			f := p.MessageProtocolHandshake.Formats.Format
			fc := "FOther"
			if f == nil {
				fc = "FNil"
			} else if len(f) == 0 {
				fc = "FEmpty"
			} else if len(f) == 1 && f[0] == model.MessageProtocolFormatTypeUTF8 {
				fc = "FUtf8"
			}
			prot = fmt.Sprintf("(Prot %s %s %s)", t, vh.B(ver), fc)
		}
	}
	// pin
	pin := "PinErr"
	{
		var p model.ConnectionPinState
		if err := json.Unmarshal(js, &p); err == nil {
			if p.ConnectionPinState.PinState == model.PinStateTypeNone {
				pin = "PinNone"
			} else {
				pin = "PinOther"
			}
		}
	}
	// access methods
	acc := "VAccNeither"
	{
		s := string(js)
		if strings.Contains(s, `"accessMethodsRequest":{`) {
			acc = "VAccReq"
		} else if strings.Contains(s, `"accessMethods":{`) {
			var a model.AccessMethods
			if err := json.Unmarshal(js, &a); err != nil {
				acc = "VAccErr"
			} else if a.AccessMethods.Id == nil {
				acc = "VAccNoId"
			} else {
				acc = "(VAccId " + vh.HxS(*a.AccessMethods.Id) + ")"
			}
		}
	}
	return viewInfo{
		coq: fmt.Sprintf("(mkView %s %d %s %s %s %s %s %s)", dg, payload, cl, ini, hello, prot, pin, acc),
		dg:  dg, cl: cl, hasWait: hasWait, waitNs: waitNs,
		isAnnounce: dg == "NotDatagram" && cl == "ClAnnounce",
	}
}

// frameOf classifies a frame written by the implementation.
func frameOf(msg []byte) string {
	if bytes.Equal(msg, model.ShipInit) {
		return "FInit"
	}
	if len(msg) < 2 {
		return "FUnknown"
	}
	js := jsonPart(msg)
	var top map[string]json.RawMessage
	if err := json.Unmarshal(js, &top); err != nil || len(top) != 1 {
		return "FUnknown"
	}
	for k := range top {
		switch k {
		case "connectionHello":
			var h model.ConnectionHello
			if json.Unmarshal(js, &h) != nil || msg[0] != model.MsgTypeControl {
				return "FUnknown"
			}
			ph := "HOther"
			switch h.ConnectionHello.Phase {
			case model.ConnectionHelloPhaseTypeReady:
				ph = "HReady"
			case model.ConnectionHelloPhaseTypePending:
				ph = "HPending"
			case model.ConnectionHelloPhaseTypeAborted:
				ph = "HAborted"
			}
			pr := "PNone"
			if h.ConnectionHello.ProlongationRequest != nil {
				if *h.ConnectionHello.ProlongationRequest {
					pr = "PTrue"
				} else {
					pr = "PFalse"
				}
			}
			return fmt.Sprintf("(FHello %s %s %s)", ph, optN(h.ConnectionHello.Waiting), pr)
		case "messageProtocolHandshake":
			var p model.MessageProtocolHandshake
			if json.Unmarshal(js, &p) != nil || msg[0] != model.MsgTypeControl {
				return "FUnknown"
			}
			hs := p.MessageProtocolHandshake
			if hs.Version.Major != 1 || hs.Version.Minor != 0 || len(hs.Formats.Format) != 1 || hs.Formats.Format[0] != model.MessageProtocolFormatTypeUTF8 {
				return "FUnknown"
			}
			switch hs.HandshakeType {
			case model.ProtocolHandshakeTypeTypeAnnounceMax:
				return "(FProt PAnnounce)"
			case model.ProtocolHandshakeTypeTypeSelect:
				return "(FProt PSelect)"
			}
			return "(FProt POtherT)"
		case "error":
			var e model.MessageProtocolHandshakeError
			if json.Unmarshal(js, &e) != nil {
				return "FUnknown"
			}
			return fmt.Sprintf("(FProtErr %d)", e.Error)
		case "connectionPinState":
			var p model.ConnectionPinState
			if json.Unmarshal(js, &p) != nil || p.ConnectionPinState.PinState != model.PinStateTypeNone {
				return "FUnknown"
			}
			return "FPin"
		case "accessMethodsRequest":
			return "FAccReq"
		case "accessMethods":
			var a model.AccessMethods
			if json.Unmarshal(js, &a) != nil || a.AccessMethods.Id == nil {
				return "FUnknown"
			}
			return "(FAcc " + vh.HxS(*a.AccessMethods.Id) + ")"
		case "data":
			var d model.ShipData
			if json.Unmarshal(js, &d) != nil || msg[0] != model.MsgTypeData {
				return "FUnknown"
			}
			return fmt.Sprintf("(FData %d)", payloadID(d.Data.Payload))
		case "connectionClose":
			var c model.ConnectionClose
			if json.Unmarshal(js, &c) != nil || msg[0] != model.MsgTypeEnd {
				return "FUnknown"
			}
			switch c.ConnectionClose.Phase {
			case model.ConnectionClosePhaseTypeAnnounce:
				return "(FClose true)"
			case model.ConnectionClosePhaseTypeConfirm:
				return "(FClose false)"
			}
		}
	}
	return "FUnknown"
}
