package main

import (
	"bytes"
	"fmt"
	"net/http"
	"net/http/httptest"
	"os"
	"strings"
	"sync"
	"sync/atomic"
	"time"

	"github.com/enbility/ship-go/api"
	"github.com/enbility/ship-go/model"
	"github.com/enbility/ship-go/ship"
	"github.com/enbility/ship-go/ws"
	"github.com/gorilla/websocket"

	"verif/harness/internal/vh"
)

// e2e (C06 over the real transport; coq/theories/RegRace.v, e2e_case): two ShipConnections on
// two real ws.WebsocketConnections over a loopback websocket, both trusted.  After both sides
// completed, each side's application writes a burst of SPINE datagrams (n, padded to a size)
// while the PEER's application is slow: its reader blocks on the first datagram until the writers
// have returned or a while has passed, so that socket buffers and the write queue fill up; then it reads on.  What each reader got, in
// order, against what the other side's writer was handed.

type e2eSide struct {
	mu       sync.Mutex
	name     string
	writer   api.ShipConnectionDataWriterInterface
	got      []int
	gate     chan struct{}
	blocked  atomic.Bool
	closedCb atomic.Int32
	setups   atomic.Int32
	complete atomic.Bool
	states   []string
}

func (s *e2eSide) IsRemoteServiceForSKIPaired(string) bool { return true }
func (s *e2eSide) HandleConnectionClosed(api.ShipConnectionInterface, bool) {
	s.closedCb.Add(1)
}
func (s *e2eSide) ReportServiceShipID(string, string) {}
func (s *e2eSide) AllowWaitingForTrust(string) bool   { return true }
func (s *e2eSide) IsAutoAcceptEnabled() bool          { return false }
func (s *e2eSide) HandleShipHandshakeStateUpdate(_ string, st model.ShipState) {
	s.mu.Lock()
	if st.Error != nil {
		s.states = append(s.states, fmt.Sprintf("%d(%v)", st.State, st.Error))
	} else {
		s.states = append(s.states, fmt.Sprint(st.State))
	}
	s.mu.Unlock()
	if st.State == model.SmeStateComplete {
		s.complete.Store(true)
	}
}
func (s *e2eSide) SetupRemoteDevice(_ string, w api.ShipConnectionDataWriterInterface) api.ShipConnectionDataReaderInterface {
	s.mu.Lock()
	s.writer = w
	s.mu.Unlock()
	s.setups.Add(1)
	return s
}
func (s *e2eSide) HandleShipPayloadMessage(m []byte) {
	if s.blocked.CompareAndSwap(true, false) {
		<-s.gate // the slow application
	}
	s.mu.Lock()
	s.got = append(s.got, payloadID(m))
	s.mu.Unlock()
}

func e2eOne(r *vh.Rng, idx int) vh.Case {
	a, b := &e2eSide{name: "client", gate: make(chan struct{})}, &e2eSide{name: "server", gate: make(chan struct{})}
	var srvConn *ship.ShipConnection
	var srvMu sync.Mutex
	up := websocket.Upgrader{Subprotocols: []string{api.ShipWebsocketSubProtocol}, CheckOrigin: func(*http.Request) bool { return true }}
	srv := httptest.NewServer(http.HandlerFunc(func(w http.ResponseWriter, rq *http.Request) {
		c, err := up.Upgrade(w, rq, nil)
		if err != nil {
			return
		}
		dh := ws.NewWebsocketConnection(c, "skiA")
		sc := ship.NewConnectionHandler(b, dh, ship.ShipRoleServer, "shipB", "skiA", "")
		srvMu.Lock()
		srvConn = sc
		srvMu.Unlock()
		sc.Run()
	}))
	defer srv.Close()
	d := websocket.Dialer{Subprotocols: []string{api.ShipWebsocketSubProtocol}}
	cc, _, err := d.Dial("ws"+strings.TrimPrefix(srv.URL, "http"), nil)
	note := ""
	var sentA, sentB []int
	slowMs, size, n := []int{0, 200, 1000, 2500}[idx%4], []int{40, 2000, 16000}[(idx/4)%3], 200+r.Intn(1300)
	if size < 16000 {
		n = 100 + r.Intn(400)
	}
	if os.Getenv("E2E_HANDSHAKE_ONLY") != "" {
		slowMs, size, n = 0, 40, 1
	}
	var cliConn *ship.ShipConnection
	if err != nil {
		note = "dial failed: " + err.Error()
	} else {
		dh := ws.NewWebsocketConnection(cc, "skiB")
		cliConn = ship.NewConnectionHandler(a, dh, ship.ShipRoleClient, "shipA", "skiB", "")
		cliConn.Run()
		deadline := time.Now().Add(10 * time.Second)
		for time.Now().Before(deadline) && !(a.complete.Load() && b.complete.Load() && a.setups.Load() == 1 && b.setups.Load() == 1) {
			time.Sleep(2 * time.Millisecond)
		}
		if !(a.complete.Load() && b.complete.Load()) {
			a.mu.Lock()
			b.mu.Lock()
			note = fmt.Sprintf("handshake did not complete: client states %v, server states %v", a.states, b.states)
			a.mu.Unlock()
			b.mu.Unlock()
		} else {
			pad := bytes.Repeat([]byte("x"), size)
			if slowMs > 0 {
				a.blocked.Store(true)
				b.blocked.Store(true)
			}
			var wg sync.WaitGroup
			burst := func(from *e2eSide, base int, sent *[]int) {
				defer wg.Done()
				from.mu.Lock()
				w := from.writer
				from.mu.Unlock()
				for i := 1; i <= n; i++ {
					*sent = append(*sent, base+i)
					w.WriteShipMessageWithPayload([]byte(fmt.Sprintf(`{"datagram":{"n":%d,"pad":"%s"}}`, base+i, pad)))
				}
			}
			wg.Add(2)
			go burst(a, 100000, &sentA)
			go burst(b, 200000, &sentB)
			done := make(chan struct{})
			go func() { wg.Wait(); close(done) }()
			if slowMs > 0 {
				// the slow applications read on when the writers have returned from all their
				// writes (a writer that is never held up) or after slowMs (a writer that waits)
				select {
				case <-done:
				case <-time.After(time.Duration(slowMs) * time.Millisecond):
				}
				close(a.gate)
				close(b.gate)
			}
			select {
			case <-done:
			case <-time.After(60 * time.Second):
				note = "a writer did not return within 60 s"
			}
			// everything written: wait until the readers have it all, or nothing moves for 3 s
			last, lastT := -1, time.Now()
			for {
				a.mu.Lock()
				b.mu.Lock()
				k := len(a.got) + len(b.got)
				a.mu.Unlock()
				b.mu.Unlock()
				if k == len(sentA)+len(sentB) {
					break
				}
				if k != last {
					last, lastT = k, time.Now()
				} else if time.Since(lastT) > 3*time.Second {
					break
				}
				time.Sleep(5 * time.Millisecond)
			}
		}
	}
	a.mu.Lock()
	b.mu.Lock()
	gotA, gotB := append([]int(nil), a.got...), append([]int(nil), b.got...)
	a.mu.Unlock()
	b.mu.Unlock()
	open := note == "" && a.closedCb.Load() == 0 && b.closedCb.Load() == 0
	if cliConn != nil {
		cliConn.CloseConnection(false, 0, "")
	}
	srvMu.Lock()
	if srvConn != nil {
		srvConn.CloseConnection(false, 0, "")
	}
	srvMu.Unlock()
	ints := func(l []int) string {
		x := make([]string, len(l))
		for i, v := range l {
			x[i] = fmt.Sprint(v)
		}
		return vh.List(x)
	}
	firstGap := func(sent, got []int) int {
		for i := range sent {
			if i >= len(got) || got[i] != sent[i] {
				return i
			}
		}
		return -1
	}
	return vh.Case{
		Coq:        fmt.Sprintf("mkE2E %s %s %s %s %s", vh.B(open), ints(sentA), ints(gotB), ints(sentB), ints(gotA)),
		Nontrivial: slowMs > 0 && note == "",
		Key:        fmt.Sprintf("e2e|%d|%d|%d", slowMs, size, n),
		Kind:       fmt.Sprintf("slow_reader_%dms_size_%d", slowMs, size),
		Sample: map[string]any{"datagrams_per_direction": n, "payload_bytes": size, "reader_blocked_ms": slowMs, "note": note, "connection_still_open": open,
			"client_to_server": map[string]any{"written": len(sentA), "received": len(gotB), "first_difference_at": firstGap(sentA, gotB)},
			"server_to_client": map[string]any{"written": len(sentB), "received": len(gotA), "first_difference_at": firstGap(sentB, gotA)}},
	}
}

func mainE2E(seed uint64, n int, out string) {
	w := vh.NewWriter(out)
	defer w.Close()
	r := vh.NewRng(seed)
	cases := make([]vh.Case, n)
	var wg sync.WaitGroup
	sem := make(chan struct{}, 4)
	subs := make([]*vh.Rng, n)
	for i := range subs {
		subs[i] = r.Fork()
	}
	for i := 0; i < n; i++ {
		wg.Add(1)
		sem <- struct{}{}
		go func(i int) {
			defer wg.Done()
			defer func() { <-sem }()
			cases[i] = e2eOne(subs[i], i)
		}(i)
	}
	wg.Wait()
	for _, c := range cases {
		w.Put(c)
	}
}
