package main

import (
	"crypto/tls"
	"encoding/json"
	"fmt"
	"net"
	"os"
	"sort"
	"strings"
	"sync"

	"github.com/enbility/ship-go/api"
	"github.com/enbility/ship-go/hub"

	"verif/harness/internal/vh"
)

const own17 = "own0"

// the address table of every C17 case: both byte forms of one IPv4 address (same text), a
// second IPv4, an IPv4 link-local (kept), a global IPv6, two IPv6 link-local (dropped)
var atab17 = []net.IP{
	net.IPv4(192, 168, 1, 10),
	net.IPv4(192, 168, 1, 10).To4(),
	net.IPv4(10, 0, 0, 2).To4(),
	net.ParseIP("fe80::1"),
	net.ParseIP("2001:db8::1"),
	net.ParseIP("fe80::2:3"),
	net.IPv4(169, 254, 1, 5),
}

func coqAddr(ip net.IP) string {
	return fmt.Sprintf("{| a_v4 := %s; a_ll6 := %s; a_text := %s |}", vh.B(ip.To4() != nil),
		vh.B(ip.To4() == nil && ip.IsLinkLocalUnicast()), pk(ip.String()))
}

func aindex(ip net.IP) int {
	for i, a := range atab17 {
		if a.String() == ip.String() {
			return i
		}
	}
	return 99
}

// the TXT record table of every C17 case (mirrored by MdnsMap.std_recs): four services, a
// second different record of service 1, seven damaged records
func recTable() []map[string]string {
	var recs []map[string]string
	for k := 1; k <= 4; k++ {
		recs = append(recs, map[string]string{"txtvers": "1", "id": fmt.Sprintf("i%d", k), "path": "/ship/", "ski": fmt.Sprintf("s%d", k),
			"register": []string{"true", "false"}[(k+1)%2], "brand": fmt.Sprintf("b%d", k), "model": "m", "type": "t", "cat": "1,2"})
	}
	// fields of an existing entry are not replaced by a later, different record
	recs = append(recs, map[string]string{"txtvers": "1", "id": "other", "path": "/x/", "ski": "s1", "register": "true", "serial": "9"})
	return append(recs,
		map[string]string{},
		map[string]string{"txtvers": "2", "id": "i2", "path": "/ship/", "ski": "s2", "register": "true"},
		map[string]string{"txtvers": "1", "id": "i3", "path": "/ship/", "ski": "s3", "register": "maybe"},
		map[string]string{"txtvers": "1", "id": "i1", "path": "/ship/", "register": "true"},
		map[string]string{"txtvers": "1", "path": "/ship/", "ski": "s4", "register": "false"},
		map[string]string{"txtvers": "1", "id": "me", "path": "/ship/", "ski": own17, "register": "true"},
		map[string]string{"txtvers": "1", "id": "i2", "ski": "s2", "register": "true"},
		map[string]string{"id": "i3", "path": "/ship/", "ski": "s3", "register": "true"},
		map[string]string{"txtvers": "1", "id": "i4", "path": "/ship/", "ski": "s4"})
}

type ev17 struct {
	rec    int
	addrs  []int
	remove bool
}

func genHistory(r *vh.Rng, nrecs int) []ev17 {
	var ln int
	switch r.Intn(4) {
	case 0:
		ln = 1 + r.Intn(6)
	case 1:
		ln = 6 + r.Intn(12)
	default:
		ln = 15 + r.Intn(26)
	}
	focus := r.Intn(3) // 0: all services, 1: mostly two services, 2: mostly one
	evs := make([]ev17, 0, ln)
	for i := 0; i < ln; i++ {
		var e ev17
		switch {
		case r.Chance(12):
			e.rec = 5 + r.Intn(nrecs-5) // damaged record
		case focus == 2 && r.Chance(70):
			e.rec = vh.Pick(r, []int{0, 0, 0, 4})
		case focus == 1 && r.Chance(70):
			e.rec = vh.Pick(r, []int{0, 1, 4})
		default:
			e.rec = r.Intn(5)
		}
		e.remove = r.Chance(18)
		if e.remove && r.Chance(70) {
			e.addrs = nil // avahi removes carry no address
		} else {
			k := vh.Pick(r, []int{0, 1, 1, 1, 2, 2, 3})
			for j := 0; j < k; j++ {
				if j > 0 && r.Chance(20) {
					e.addrs = append(e.addrs, e.addrs[r.Intn(len(e.addrs))]) // duplicate inside one call
				} else {
					e.addrs = append(e.addrs, r.Intn(len(atab17)))
				}
			}
		}
		evs = append(evs, e)
	}
	return evs
}

func coqAobs(e *api.MdnsEntry) string {
	if e == nil {
		return "None"
	}
	idx := make([]string, len(e.Addresses))
	for i, a := range e.Addresses {
		idx[i] = fmt.Sprint(aindex(a))
	}
	return fmt.Sprintf("(Some ((%d)%%Z, %s%%nat))", e.Port, vh.List(idx))
}

func coqKeys(ks []string) string {
	xs := make([]string, len(ks))
	for i, k := range ks {
		xs[i] = pk(k)
	}
	return vh.List(xs)
}

func coqFentry(e *api.MdnsEntry) string {
	as := make([]string, len(e.Addresses))
	for i, a := range e.Addresses {
		as[i] = coqAddr(a)
	}
	inner := coqEntry(e)
	inner = strings.TrimSuffix(strings.TrimPrefix(inner, "(Some "), ")")
	return fmt.Sprintf("{| f_e := %s; f_name := %s; f_host := %s; f_port := (%d)%%Z; f_addrs := %s |}", inner, pk(e.Name), pk(e.Host), e.Port, vh.List(as))
}

func coqMmap(m map[string]*api.MdnsEntry) string {
	ks := make([]string, 0, len(m))
	for k := range m {
		ks = append(ks, k)
	}
	sort.Strings(ks)
	xs := make([]string, len(ks))
	for i, k := range ks {
		xs[i] = "(" + pk(k) + ", " + coqFentry(m[k]) + ")"
	}
	return vh.List(xs)
}

func keysOf[V any](m map[string]V) []string {
	ks := make([]string, 0, len(m))
	for k := range m {
		ks = append(ks, k)
	}
	sort.Strings(ks)
	return ks
}

func sameEntry(a, b *api.MdnsEntry) bool {
	if (a == nil) != (b == nil) {
		return false
	}
	if a == nil {
		return true
	}
	if a.Port != b.Port || a.Name != b.Name || len(a.Addresses) != len(b.Addresses) {
		return false
	}
	for i := range a.Addresses {
		if a.Addresses[i].String() != b.Addresses[i].String() {
			return false
		}
	}
	return true
}

func entrySample17(e *api.MdnsEntry) any {
	if e == nil {
		return nil
	}
	as := make([]string, len(e.Addresses))
	for i, a := range e.Addresses {
		as[i] = a.String()
	}
	return map[string]any{"name": e.Name, "port": e.Port, "id": e.Identifier, "addresses": as}
}

// c08: the same histories for C08's mDNS stream - a panic or a hang of the resolver callback is
// recorded as a case of its own (MCrash) instead of ending the driver, the histories are wrapped in MHist
func runC17(r *vh.Rng, n int, w *vh.Writer, c08 bool) int {
	if c08 {
		// raw TXT slices as a provider hands them over, through the real parseTxt and the callback
		own := "ffffffffffffffffffffffffffffffffffffff01"
		for i := 0; i < n/2; i++ {
			txt, _ := randTxt(r, own)
			if i%7 == 0 {
				txt = append(txt, "")
			}
			if i%11 == 0 {
				txt = []string{""}
			}
			_, err := readTxt(own, txt)
			term, kind := "MTxtOk", "txt_slice"
			if err != nil {
				term, kind = fmt.Sprintf("MCrash %s", vh.B(strings.Contains(err.Error(), "no return"))), "txt_slice_crash"
			}
			w.Put(vh.Case{Coq: term, Nontrivial: true, Key: fmt.Sprintf("txt|%q", txt), Kind: kind,
				Sample: map[string]any{"txt": fmt.Sprintf("%+q", txt), "error": fmt.Sprint(err)}})
		}
	}
histories:
	for c := 0; c < n; c++ {
		recs := recTable()
		evs := genHistory(r, len(recs))
		if c == 0 { // the witness of the first-add question: one add carrying an address twice
			evs = []ev17{{rec: 0, addrs: []int{2, 2}}}
		}
		if c == 1 { // both byte forms of one address in the first add, then the same address again
			evs = []ev17{{rec: 1, addrs: []int{0, 1}}, {rec: 1, addrs: []int{1}}, {rec: 1, remove: true}, {rec: 1, addrs: []int{3}}}
		}
		m := newManager(own17, "b", "m", "t", "s", nil, "id")
		rep := &reporter{}
		m.VerifSetReport(rep)
		cb := m.VerifResolverCallback()
		expected := 0
		prevKeys := []string{}
		var obs []string
		var sampleEvs []any
		nontrivial := false
		for i, e := range evs {
			el := recs[e.rec]
			var ips []net.IP
			for _, k := range e.addrs {
				ips = append(ips, atab17[k])
			}
			key, hasKey := el["ski"]
			before := m.VerifEntries()
			var bEntry *api.MdnsEntry
			if hasKey {
				if b, ok := before[key]; ok {
					bEntry = &b
					nontrivial = true
				}
			}
			// the callback gets its own copy of the elements map, as the providers hand over fresh maps
			elc := make(map[string]string, len(el))
			for k, v := range el {
				elc[k] = v
			}
			err := call("resolver callback", func() { cb(elc, fmt.Sprintf("n%d", i), fmt.Sprintf("h%d", i), ips, 1000+i, e.remove) })
			if err != nil && c08 {
				as := make([]string, len(ips))
				for j, a := range ips {
					as[j] = a.String()
				}
				w.Put(vh.Case{
					Coq:        fmt.Sprintf("MCrash %s", vh.B(strings.Contains(err.Error(), "no return"))),
					Nontrivial: true,
					Key:        fmt.Sprintf("crash|%v|%v|%v|%d", el, as, e.remove, i),
					Kind:       "callback_crash",
					Sample: map[string]any{"error": err.Error(), "event_index": i, "txt": el, "addresses": as, "remove": e.remove,
						"events_before": sampleEvs},
				})
				continue histories
			}
			if err != nil {
				fmt.Fprintln(os.Stderr, "mdnsdrv:", err)
				return 1
			}
			after := m.VerifEntries()
			var aEntry *api.MdnsEntry
			if hasKey {
				if a, ok := after[key]; ok {
					aEntry = &a
				}
			}
			keys := keysOf(after)
			changed := strings.Join(keys, "\x00") != strings.Join(prevKeys, "\x00") || !sameEntry(bEntry, aEntry)
			prevKeys = keys
			repObs := "None"
			var repSample any
			if changed {
				expected++
				if !rep.waitCount(expected) {
					fmt.Fprintf(os.Stderr, "mdnsdrv: event %d changed the stored entries but no report arrived within the cap\n", i)
					return 1
				}
			}
			if got := rep.count(); got > expected {
				fmt.Fprintf(os.Stderr, "mdnsdrv: %d reports after event %d although the stored entries changed only %d times\n", got, i, expected)
				return 1
			}
			if changed {
				snap := rep.get(expected - 1)
				var rEntry *api.MdnsEntry
				if hasKey {
					rEntry = snap.entries[key]
				}
				repObs = fmt.Sprintf("(Some (%s, %s))", coqKeys(keysOf(snap.entries)), coqAobs(rEntry))
				repSample = map[string]any{"skis": keysOf(snap.entries), "entry": entrySample17(rEntry)}
			}
			obs = append(obs, fmt.Sprintf("{| o_keys := %s; o_before := %s; o_after := %s; o_rep := %s |}", coqKeys(keys), coqAobs(bEntry), coqAobs(aEntry), repObs))
			sampleEvs = append(sampleEvs, map[string]any{"txt": el, "addrs": e.addrs, "remove": e.remove, "stored_skis": keys,
				"entry_after": entrySample17(aEntry), "report": repSample})
		}
		// full final state and full last report
		fin := m.VerifEntries()
		finp := make(map[string]*api.MdnsEntry, len(fin))
		for k := range fin {
			e := fin[k]
			finp[k] = &e
		}
		last := "None"
		if expected > 0 {
			last = "(Some " + coqMmap(rep.get(expected-1).entries) + ")"
		}
		evsCoq := make([]string, len(evs))
		var key strings.Builder
		for i, e := range evs {
			idx := make([]string, len(e.addrs))
			for j, a := range e.addrs {
				idx[j] = fmt.Sprint(a)
			}
			evsCoq[i] = fmt.Sprintf("{| ce_rec := %d%%nat; ce_addrs := %s%%nat; ce_remove := %s |}", e.rec, vh.List(idx), vh.B(e.remove))
			fmt.Fprintf(&key, "%v|%v|%v;", recs[e.rec], e.addrs, e.remove)
		}
		kind := "history:1-5"
		switch {
		case len(evs) > 25:
			kind = "history:26-40"
		case len(evs) > 12:
			kind = "history:13-25"
		case len(evs) > 5:
			kind = "history:6-12"
		}
		term := fmt.Sprintf("{| h_own := %s; h_recs := std_recs; h_atab := std_atab; h_evs := %s; h_obs := %s; h_final := %s; h_last := %s |}",
			pk(own17), vh.List(evsCoq), vh.List(obs), coqMmap(finp), last)
		if c08 {
			term = "MHist " + term
		}
		w.Put(vh.Case{
			Coq: term,
			Nontrivial: nontrivial,
			Key:        key.String(),
			Kind:       kind,
			Sample:     map[string]any{"reader_ski": own17, "events": sampleEvs, "final_skis": keysOf(fin), "reports": expected},
		})
	}
	if !c08 {
		inversionReplay(r)
	}
	return 0
}

// ---- statistical replay of the report inversion (never decides anything) ----
// a receiver that does not serialise: it records, per report, how many entries the snapshot
// carried, in the order the goroutines got to it
type racyReporter struct {
	mu    sync.Mutex
	sizes []int
}

func (r *racyReporter) ReportMdnsEntries(entries map[string]*api.MdnsEntry, newEntries bool) {
	n := len(entries)
	r.mu.Lock()
	r.sizes = append(r.sizes, n)
	r.mu.Unlock()
}
func (r *racyReporter) count() int {
	r.mu.Lock()
	defer r.mu.Unlock()
	return len(r.sizes)
}

func inversionReplay(r *vh.Rng) {
	if *side == "" {
		*side = *out + ".inversion.json"
	}
	trials, inverted, incomplete := 3000, 0, 0
	el := func(k int) map[string]string {
		return map[string]string{"txtvers": "1", "id": fmt.Sprint("i", k), "path": "/ship/", "ski": fmt.Sprint("s", k), "register": "true"}
	}
	for t := 0; t < trials; t++ {
		m := newManager(own17, "b", "m", "t", "s", nil, "id")
		rep := &racyReporter{}
		m.VerifSetReport(rep)
		cb := m.VerifResolverCallback()
		cb(el(1), "n1", "h1", []net.IP{atab17[0]}, 1001, false)
		cb(el(2), "n2", "h2", []net.IP{atab17[2]}, 1002, false)
		ok := false
		for i := 0; i < 200000; i++ {
			if rep.count() >= 2 {
				ok = true
				break
			}
			if i > 1000 {
				sleepShort()
			}
		}
		if !ok {
			incomplete++
			continue
		}
		rep.mu.Lock()
		if rep.sizes[len(rep.sizes)-1] != 2 {
			inverted++
		}
		rep.mu.Unlock()
	}
	// the same with a real hub.Hub as the receiver: what the application's last
	// VisibleRemoteServicesUpdated shows
	hubTrials, hubStale, hubIncomplete := 1000, 0, 0
	for t := 0; t < hubTrials; t++ {
		m := newManager(own17, "b", "m", "t", "s", nil, "id")
		l := &vh.Log{}
		h := hub.NewHub(&vh.FakeReader{L: l}, m, 0, tls.Certificate{}, api.NewServiceDetails(own17))
		m.VerifSetReport(h)
		cb := m.VerifResolverCallback()
		cb(el(1), "n1", "h1", []net.IP{atab17[0]}, 1001, false)
		cb(el(2), "n2", "h2", []net.IP{atab17[2]}, 1002, false)
		ok := false
		for i := 0; i < 200000; i++ {
			if l.Len() >= 2 {
				ok = true
				break
			}
			if i > 1000 {
				sleepShort()
			}
		}
		if !ok {
			hubIncomplete++
			continue
		}
		calls := l.Take()
		if calls[len(calls)-1] != "OVisible 2" {
			hubStale++
		}
	}
	b, _ := json.Marshal(map[string]any{"scenario": "two adds back to back, unserialised receiver", "trials": trials,
		"last_delivered_report_is_not_the_final_map": inverted, "incomplete": incomplete,
		"hub_trials": hubTrials, "hub_last_VisibleRemoteServicesUpdated_is_stale": hubStale, "hub_incomplete": hubIncomplete})
	_ = os.WriteFile(*side, b, 0o644)
}
