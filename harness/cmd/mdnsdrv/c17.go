package main

import "verif/harness/internal/vh"

func runC17(r *vh.Rng, n int, w *vh.Writer) int { return 2 }
