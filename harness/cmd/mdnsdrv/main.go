// mdnsdrv drives real mdns.MdnsManager instances over a recording fake provider and a
// recording report receiver (hooks: mdns/verif_hooks.go, build tag verif) and writes cases
// for bin/check: -prop C16 (announce -> TXT -> parseTxt -> second manager -> entry, QR text),
// -prop C17 (resolver-callback histories -> entries map and reports).
package main

import (
	"flag"
	"fmt"
	"net"
	"os"
	"sort"
	"strconv"
	"strings"
	"sync"
	"time"

	"github.com/enbility/ship-go/api"
	"github.com/enbility/ship-go/mdns"

	"verif/harness/internal/vh"
)

var (
	prop = flag.String("prop", "", "property mode (C16, C17)")
	seed = flag.Uint64("seed", 1, "PRNG seed")
	n    = flag.Int("n", 1000, "number of cases")
	out  = flag.String("out", "", "output JSONL")
	side = flag.String("side", "", "C17: file for the statistical replay of the report inversion (JSON)")
)

func main() {
	flag.Parse()
	if *out == "" {
		fmt.Fprintln(os.Stderr, "need -out")
		os.Exit(2)
	}
	w := vh.NewWriter(*out)
	r := vh.NewRng(*seed)
	rc := 0
	switch *prop {
	case "C16":
		rc = runC16(r, *n, w)
	case "C17":
		rc = runC17(r, *n, w, false)
	case "C08":
		rc = runC17(r, *n, w, true)
	default:
		fmt.Fprintln(os.Stderr, "unknown -prop", *prop)
		rc = 2
	}
	w.Close()
	os.Exit(rc)
}

// ---- fake provider: records what the manager announces ----
type fakeProvider struct {
	mu        sync.Mutex
	announces [][]string
	names     []string
	ports     []int
}

func (p *fakeProvider) Start(autoReconnect bool, cb api.MdnsResolveCB) bool { return true }
func (p *fakeProvider) Shutdown()                                           {}
func (p *fakeProvider) Announce(serviceName string, port int, txt []string) error {
	p.mu.Lock()
	defer p.mu.Unlock()
	p.announces = append(p.announces, append([]string(nil), txt...))
	p.names = append(p.names, serviceName)
	p.ports = append(p.ports, port)
	return nil
}
func (p *fakeProvider) Unannounce() {}
func (p *fakeProvider) last() ([]string, bool) {
	p.mu.Lock()
	defer p.mu.Unlock()
	if len(p.announces) == 0 {
		return nil, false
	}
	return p.announces[len(p.announces)-1], true
}

// ---- report receiver: serialises, records every snapshot in arrival order ----
type snapshot struct {
	entries map[string]*api.MdnsEntry
	isNew   bool
}

type reporter struct {
	mu    sync.Mutex
	snaps []snapshot
}

// The receiver owns what it is handed (the hub rewrites the address list of a paired service in
// place): it keeps its own copy for the record and then scribbles over the entries it got - which
// must not reach what the manager knows.
func (r *reporter) ReportMdnsEntries(entries map[string]*api.MdnsEntry, newEntries bool) {
	r.mu.Lock()
	defer r.mu.Unlock()
	keep := make(map[string]*api.MdnsEntry, len(entries))
	for k, e := range entries {
		if e == nil {
			keep[k] = nil
			continue
		}
		c := *e
		c.Addresses = append([]net.IP(nil), e.Addresses...)
		c.Categories = append([]api.DeviceCategoryType(nil), e.Categories...)
		keep[k] = &c
	}
	r.snaps = append(r.snaps, snapshot{keep, newEntries})
	for k, e := range entries {
		if e != nil {
			e.Addresses = []net.IP{net.IPv4(203, 0, 113, 9)}
			e.Name, e.Port, e.Identifier = "scribbled", -7, "scribbled"
			if len(e.Categories) > 0 {
				e.Categories[0] = 99
			}
		}
		delete(entries, k)
	}
}
func (r *reporter) count() int {
	r.mu.Lock()
	defer r.mu.Unlock()
	return len(r.snaps)
}
func (r *reporter) get(i int) snapshot {
	r.mu.Lock()
	defer r.mu.Unlock()
	return r.snaps[i]
}

// waitCount polls until at least k reports have arrived (cap: 10 s); no fixed sleep decides anything.
func (r *reporter) waitCount(k int) bool {
	deadline := time.Now().Add(10 * time.Second)
	for i := 0; ; i++ {
		if r.count() >= k {
			return true
		}
		if time.Now().After(deadline) {
			return false
		}
		if i < 200 {
			time.Sleep(20 * time.Microsecond)
		} else {
			time.Sleep(time.Millisecond)
		}
	}
}

// call runs f under recover and a deadline; a panic or a hang of the implementation is reported.
func call(what string, f func()) (err error) {
	done := make(chan error, 1)
	go func() {
		defer func() {
			if p := recover(); p != nil {
				done <- fmt.Errorf("%s: panic: %v", what, p)
			}
		}()
		f()
		done <- nil
	}()
	select {
	case e := <-done:
		return e
	case <-time.After(20 * time.Second):
		return fmt.Errorf("%s: no return within 20 s", what)
	}
}

func newManager(ski, brand, model, typ, serial string, cats []api.DeviceCategoryType, id string) *mdns.MdnsManager {
	return mdns.NewMDNS(ski, brand, model, typ, serial, cats, id, "svc", 4711, nil, mdns.MdnsProviderSelectionGoZeroConfOnly)
}

func sortedKeys(m map[string]string) []string {
	ks := make([]string, 0, len(m))
	for k := range m {
		ks = append(ks, k)
	}
	sort.Strings(ks)
	return ks
}

// pk writes a byte string as (up [w; …]%uint63): six bytes per primitive 63-bit word under a
// leading 01 byte (theories/Pack.v); far cheaper for coqc to elaborate than a hex string.
func pk(s string) string {
	var sb strings.Builder
	sb.WriteString("(up [")
	for i := 0; i < len(s); i += 6 {
		j := i + 6
		if j > len(s) {
			j = len(s)
		}
		w := uint64(1)
		for k := i; k < j; k++ {
			w = w<<8 | uint64(s[k])
		}
		if i > 0 {
			sb.WriteByte(';')
		}
		sb.WriteString(strconv.FormatUint(w, 10))
	}
	sb.WriteString("]%uint63)")
	return sb.String()
}

func coqElements(m map[string]string) string {
	var xs []string
	for _, k := range sortedKeys(m) {
		xs = append(xs, "("+pk(k)+", "+pk(m[k])+")")
	}
	return vh.List(xs)
}

func coqStrs(xs []string) string {
	ys := make([]string, len(xs))
	for i, x := range xs {
		ys[i] = pk(x)
	}
	return vh.List(ys)
}

func coqCats(cs []api.DeviceCategoryType) string {
	ys := make([]string, len(cs))
	for i, c := range cs {
		ys[i] = fmt.Sprintf("%d", uint64(c))
	}
	return vh.List(ys)
}

func sleepShort() { time.Sleep(10 * time.Microsecond) }

var _ = net.IPv4
