package main

import (
	"fmt"
	"net"
	"os"
	"strings"
	"unicode/utf8"

	"github.com/enbility/ship-go/api"
	"github.com/enbility/ship-go/mdns"

	"verif/harness/internal/vh"
)

type cfg16 struct {
	ski, id, brand, model, typ, serial string
	cats                               []api.DeviceCategoryType
	auto                               bool
}

func (c cfg16) coq() string {
	return fmt.Sprintf("{| c_ski := %s; c_id := %s; c_brand := %s; c_model := %s; c_type := %s; c_serial := %s; c_cats := %s; c_auto := %s |}",
		pk(c.ski), pk(c.id), pk(c.brand), pk(c.model), pk(c.typ), pk(c.serial), coqCats(c.cats), vh.B(c.auto))
}

func coqEntry(e *api.MdnsEntry) string {
	if e == nil {
		return "None"
	}
	return fmt.Sprintf("(Some {| e_ski := %s; e_id := %s; e_path := %s; e_register := %s; e_brand := %s; e_type := %s; e_model := %s; e_serial := %s; e_cats := %s |})",
		pk(e.Ski), pk(e.Identifier), pk(e.Path), vh.B(e.Register), pk(e.Brand), pk(e.Type), pk(e.Model), pk(e.Serial), coqCats(e.Categories))
}

// ---- string generators ----
var runePool = [][]rune{
	[]rune("abcdefghijklmnopqrstuvwxyzABCDEFGHIJKLMNOPQRSTUVWXYZ0123456789 -_."), // 1 byte
	[]rune("éüßñøΩДжק"),              // 2 bytes
	[]rune("€あ中한� ࠀ￿"),               // 3 bytes
	[]rune("😀𝄞\U00010000\U0010FFFF"), // 4 bytes
}

const specials = "=;:"

// utf8String builds a well-formed string of exactly (or just above) `target` bytes out of
// 1-4-byte runes; `mix` selects how often multi-byte runes are used, `spec` how often a
// special character ('=', ';', ':') is inserted.
func utf8String(r *vh.Rng, target, mix, spec int) string {
	var sb strings.Builder
	for sb.Len() < target {
		if r.Chance(spec) {
			sb.WriteByte(specials[r.Intn(len(specials))])
			continue
		}
		k := 0
		if r.Chance(mix) {
			k = 1 + r.Intn(3)
		}
		sb.WriteRune(vh.Pick(r, runePool[k]))
	}
	return sb.String()
}

var badSeqs = []string{"\x80", "\xbf", "\xc0\x80", "\xc1\xbf", "\xc3", "\xe2\x82", "\xe0\x80\x80", "\xed\xa0\x80", "\xf0\x80\x80\x80",
	"\xf4\x90\x80\x80", "\xf5\x80\x80\x80", "\xff", "\xfe", "\xe2\x28\xa1", "\xf0\x9f\x98"}

// lengths cluster around the 32-byte limit
func pickLen(r *vh.Rng) int {
	switch r.Intn(10) {
	case 0:
		return 0
	case 1:
		return 1 + r.Intn(12)
	case 2, 3, 4, 5, 6:
		return 28 + r.Intn(10)
	case 7:
		return 13 + r.Intn(15)
	default:
		return 38 + r.Intn(43)
	}
}

func descrString(r *vh.Rng, invalid bool) string {
	ln := pickLen(r)
	mix := vh.Pick(r, []int{0, 20, 60, 100})
	spec := vh.Pick(r, []int{0, 0, 0, 5, 15})
	s := utf8String(r, ln, mix, spec)
	if invalid && r.Chance(40) {
		// splice an ill-formed sequence somewhere (rune-aligned or not)
		pos := r.Intn(len(s) + 1)
		s = s[:pos] + vh.Pick(r, badSeqs) + s[pos:]
	}
	return s
}

func skiString(r *vh.Rng, invalid bool) string {
	switch r.Intn(10) {
	case 0:
		return descrString(r, invalid)
	case 1:
		return utf8String(r, r.Intn(45), 10, 25)
	default:
		const hexd = "0123456789abcdef"
		b := make([]byte, 40)
		for i := range b {
			b[i] = hexd[r.Intn(16)]
		}
		return string(b)
	}
}

func idString(r *vh.Rng, invalid bool) string {
	switch r.Intn(6) {
	case 0:
		return descrString(r, invalid)
	case 1:
		return utf8String(r, r.Intn(60), 20, 20)
	case 2:
		return ""
	default:
		return "Brand-" + utf8String(r, 4+r.Intn(10), 0, 0) + "-" + fmt.Sprint(r.Intn(100000))
	}
}

func catList(r *vh.Rng) []api.DeviceCategoryType {
	if r.Chance(8) {
		return nil
	}
	n := r.Intn(5)
	cs := make([]api.DeviceCategoryType, 0, n)
	for i := 0; i < n; i++ {
		switch {
		case r.Chance(3):
			cs = append(cs, api.DeviceCategoryType(vh.Pick(r, []uint64{4294967295, 4294967296, 1 << 40, 18446744073709551615})))
		case r.Chance(5):
			cs = append(cs, api.DeviceCategoryType(r.Intn(100000)))
		default:
			cs = append(cs, api.DeviceCategoryType(r.Intn(9)))
		}
	}
	if n == 0 && r.Bool() {
		return []api.DeviceCategoryType{}
	}
	return cs
}

func hasSpecial(s string) bool { return strings.ContainsAny(s, specials) }

// ---- reading a TXT slice back on a second manager ----
type readBack struct {
	elements map[string]string
	stored   *api.MdnsEntry // the entry in the second manager's map (nil: none)
	reported *api.MdnsEntry // the copy its report receiver got (nil: no report / no entry)
}

func readTxt(own string, txt []string) (readBack, error) {
	var rb readBack
	m2 := newManager(own, "b2", "m2", "t2", "s2", nil, "id2")
	rep := &reporter{}
	m2.VerifSetReport(rep)
	cb := m2.VerifResolverCallback()
	err := call("parseTxt+resolver callback", func() {
		rb.elements = mdns.VerifParseTxt(txt)
		cb(rb.elements, "name", "host", []net.IP{net.IPv4(192, 168, 1, 10)}, 4711, false)
	})
	if err != nil {
		return rb, err
	}
	stored := m2.VerifEntries()
	if len(stored) > 1 {
		return rb, fmt.Errorf("one add produced %d entries", len(stored))
	}
	for k, e := range stored {
		if k != e.Ski {
			return rb, fmt.Errorf("entry stored under key %q has SKI %q", k, e.Ski)
		}
		ec := e
		rb.stored = &ec
	}
	if rb.stored != nil {
		if !rep.waitCount(1) {
			return rb, fmt.Errorf("a new entry was stored but no report arrived within the cap")
		}
		snap := rep.get(0)
		if len(snap.entries) != 1 {
			return rb, fmt.Errorf("report carries %d entries, the map has 1", len(snap.entries))
		}
		for _, e := range snap.entries {
			rb.reported = e
		}
	} else if rep.count() != 0 {
		return rb, fmt.Errorf("a report arrived although no entry was stored")
	}
	return rb, nil
}

func entrySample(e *api.MdnsEntry) any {
	if e == nil {
		return nil
	}
	return map[string]any{"ski": e.Ski, "id": e.Identifier, "path": e.Path, "register": e.Register, "brand": e.Brand,
		"type": e.Type, "model": e.Model, "serial": e.Serial, "categories": e.Categories}
}

func q(s string) string { return fmt.Sprintf("%+q", s) }

// fixed configurations: the classical witnesses first, so that they are in every run
func fixedConfigs() []cfg16 {
	a31 := strings.Repeat("a", 31)
	ski := "0123456789abcdef0123456789abcdef01234567"
	one := []api.DeviceCategoryType{2}
	return []cfg16{
		{ski, "shipid", "brand", "model", "EnergyManagementSystem", "12345", one, false},
		{ski, "shipid", a31 + "é", "model", "type", "12345", one, true},         // 2-byte rune across the limit
		{ski, "shipid", "brand", a31[:30] + "€", "type", "12345", one, true},    // 3-byte rune across the limit
		{ski, "shipid", "brand", "model", a31[:29] + "😀", "12345", one, true},   // 4-byte rune across the limit
		{ski, "shipid", "brand", "model", "type", a31 + "😀", one, true},         // 4-byte rune, 1 byte fits
		{ski, "id=x", "brand", "model", "type", "12345", one, false},            // '=' in the identifier
		{ski, "shipid", "bra=nd", "mo=del=", "=type", "ser=ial", one, false},    // '=' in descriptive fields
		{"ab=cd", "shipid", "brand", "model", "type", "12345", one, false},      // '=' in the SKI
		{ski, "id;x=y", "brand", "model", "type", "12345", one, false},          // ';' in the identifier
		{"ab;ENDSHIP", "shipid", "brand", "model", "type", "12345", one, false}, // ';' in the SKI
		{ski, "shipid", "br;and", ";", "ty:pe", "a:b;c", one, false},            // ';' and ':' in optionals
		{ski, "shipid", "", "", "", "", nil, false},                             // everything optional absent
		{ski, "", "", "", "", "", []api.DeviceCategoryType{}, true},             // empty identifier
		{ski, "shipid", "brand", "model", "type", "12345", []api.DeviceCategoryType{4294967296}, false},
		{ski, "shipid", "brand", "model", "type", "12345", []api.DeviceCategoryType{1, 4294967295, 0, 8}, false},
		{ski, "shipid", strings.Repeat("é", 16), strings.Repeat("é", 17), strings.Repeat("€", 11), strings.Repeat("😀", 9), one, false},
	}
}

func runC16(r *vh.Rng, n int, w *vh.Writer) int {
	nShort := n / 10
	n -= nShort
	nCfg := n * 4 / 5
	fixed := fixedConfigs()
	for i := 0; i < nCfg; i++ {
		var c cfg16
		kind := "cfg"
		if i < len(fixed) {
			c = fixed[i]
			kind = "cfg:fixed"
		} else {
			invalid := r.Chance(6)
			c = cfg16{ski: skiString(r, invalid), id: idString(r, invalid), brand: descrString(r, invalid), model: descrString(r, invalid),
				typ: descrString(r, invalid), serial: descrString(r, invalid), cats: catList(r), auto: r.Bool()}
			if invalid {
				kind = "cfg:ill-formed-utf8"
			}
		}
		own := "ffffffffffffffffffffffffffffffffffffff01"
		if i >= len(fixed) && r.Chance(4) {
			own = c.ski
			kind += ":own-ski"
		}
		// announce on the first manager
		m1 := newManager(c.ski, c.brand, c.model, c.typ, c.serial, c.cats, c.id)
		fp := &fakeProvider{}
		m1.VerifSetProvider(fp)
		var qr string
		reannounce := i >= len(fixed) && r.Bool()
		err := call("announce", func() {
			if reannounce {
				// announce with the default first, then switch: SetAutoAccept re-announces
				if e := m1.AnnounceMdnsEntry(); e != nil {
					panic(e)
				}
				m1.SetAutoAccept(c.auto)
			} else {
				m1.SetAutoAccept(c.auto)
				if e := m1.AnnounceMdnsEntry(); e != nil {
					panic(e)
				}
			}
			qr = m1.QRCodeText()
		})
		if err != nil {
			fmt.Fprintln(os.Stderr, "mdnsdrv:", err, "config:", q(c.ski), q(c.id), q(c.brand), q(c.model), q(c.typ), q(c.serial), c.cats, c.auto)
			return 1
		}
		txt, ok := fp.last()
		if !ok {
			fmt.Fprintln(os.Stderr, "mdnsdrv: AnnounceMdnsEntry did not call the provider")
			return 1
		}
		rb, err := readTxt(own, txt)
		if err != nil {
			fmt.Fprintln(os.Stderr, "mdnsdrv:", err, "txt:", fmt.Sprintf("%+q", txt))
			return 1
		}
		long := len(c.brand) > 32 || len(c.model) > 32 || len(c.typ) > 32 || len(c.serial) > 32
		special := hasSpecial(c.ski) || hasSpecial(c.id) || hasSpecial(c.brand) || hasSpecial(c.model) || hasSpecial(c.typ) || hasSpecial(c.serial)
		if long {
			kind += ":long"
		}
		if special {
			kind += ":special"
		}
		w.Put(vh.Case{
			Coq: fmt.Sprintf("KCfg %s %s %s %s %s %s %s", c.coq(), pk(own), coqStrs(txt), coqElements(rb.elements),
				coqEntry(rb.stored), coqEntry(rb.reported), pk(qr)),
			Nontrivial: long || special,
			Key:        fmt.Sprintf("cfg|%q|%q|%q|%q|%q|%q|%v|%v|%q", c.ski, c.id, c.brand, c.model, c.typ, c.serial, c.cats, c.auto, own),
			Kind:       kind,
			Sample: map[string]any{"config": map[string]any{"ski": q(c.ski), "id": q(c.id), "brand": q(c.brand), "model": q(c.model),
				"type": q(c.typ), "serial": q(c.serial), "categories": c.cats, "autoaccept": c.auto}, "reader_ski": own,
				"txt": fmt.Sprintf("%+q", txt), "entry": entrySample(rb.stored), "reported": entrySample(rb.reported), "qr": q(qr)},
		})
	}
	// arbitrary TXT slices (mostly damaged SHIP records) through parseTxt and the resolver callback
	for i := nCfg; i < n; i++ {
		own := "ffffffffffffffffffffffffffffffffffffff01"
		txt, damaged := randTxt(r, own)
		rb, err := readTxt(own, txt)
		if err != nil {
			fmt.Fprintln(os.Stderr, "mdnsdrv:", err, "txt:", fmt.Sprintf("%+q", txt))
			return 1
		}
		w.Put(vh.Case{
			Coq:        fmt.Sprintf("KTxt %s %s %s %s %s", pk(own), coqStrs(txt), coqElements(rb.elements), coqEntry(rb.stored), coqEntry(rb.reported)),
			Nontrivial: damaged,
			Key:        fmt.Sprintf("txt|%q", txt),
			Kind:       "txt",
			Sample:     map[string]any{"reader_ski": own, "txt": fmt.Sprintf("%+q", txt), "entry": entrySample(rb.stored), "reported": entrySample(rb.reported)},
		})
	}
	// shortenString itself, any limit (the manager only ever uses 32)
	for i := 0; i < nShort; i++ {
		s := descrString(r, r.Chance(15))
		var lim int
		switch r.Intn(4) {
		case 0:
			lim = r.Intn(6)
		case 1:
			lim = len(s) - 3 + r.Intn(7)
			if lim < 0 {
				lim = 0
			}
		default:
			lim = r.Intn(len(s) + 4)
		}
		var o string
		if err := call("shortenString", func() { o = mdns.VerifShortenString(s, lim) }); err != nil {
			fmt.Fprintln(os.Stderr, "mdnsdrv:", err, "input:", q(s), lim)
			return 1
		}
		w.Put(vh.Case{
			Coq:        fmt.Sprintf("KShort %s %d %s", pk(s), lim, pk(o)),
			Nontrivial: len(s) > lim,
			Key:        fmt.Sprintf("short|%q|%d", s, lim),
			Kind:       "shorten",
			Sample:     map[string]any{"input": q(s), "limit": lim, "output": q(o)},
		})
	}
	return 0
}

// randTxt: a SHIP record with a few mutations
func randTxt(r *vh.Rng, own string) ([]string, bool) {
	items := []string{"txtvers=1", "path=/ship/", "id=" + idString(r, false), "ski=" + skiString(r, false), "brand=" + descrString(r, r.Chance(10)),
		"model=" + descrString(r, false), "type=" + descrString(r, false), "register=" + vh.Pick(r, []string{"true", "false"})}
	if r.Bool() {
		items = append(items, "serial="+descrString(r, false))
	}
	catItems := []string{"1", "2", "8", "007", "x", "", " 1", "-1", "+1", "1_0", "4294967295", "4294967296", "99999999999999999999999", "0x10", "٣", "3.0"}
	if r.Chance(70) {
		k := r.Intn(5)
		var cs []string
		for j := 0; j < k; j++ {
			if r.Chance(60) {
				cs = append(cs, fmt.Sprint(r.Intn(9)))
			} else {
				cs = append(cs, vh.Pick(r, catItems))
			}
		}
		items = append(items, "cat="+strings.Join(cs, ","))
	}
	damaged := false
	muts := r.Intn(4)
	for j := 0; j < muts; j++ {
		damaged = true
		switch r.Intn(12) {
		case 0: // drop an item
			k := r.Intn(len(items))
			items = append(items[:k:k], items[k+1:]...)
			if len(items) == 0 {
				return items, true
			}
		case 1:
			items[0] = "txtvers=" + vh.Pick(r, []string{"2", "01", "", "1 ", "1=1", "one"})
		case 2:
			k := r.Intn(len(items))
			items[k] = strings.SplitN(items[k], "=", 2)[0] + "=" + vh.Pick(r, []string{"True", "maybe", "", "1", "false ", "true=false"})
		case 3: // duplicate key, later value
			k := r.Intn(len(items))
			items = append(items, strings.SplitN(items[k], "=", 2)[0]+"="+vh.Pick(r, []string{"x", "", "true", "false", "1", "2"}))
		case 4: // no separator at all
			k := r.Intn(len(items))
			items[k] = strings.ReplaceAll(items[k], "=", "")
		case 5: // several separators
			k := r.Intn(len(items))
			items[k] += "=" + vh.Pick(r, []string{"", "x", "=y"})
		case 6: // empty key
			items = append(items, "="+vh.Pick(r, []string{"", "v"}))
		case 7: // own SKI
			for k := range items {
				if strings.HasPrefix(items[k], "ski=") {
					items[k] = "ski=" + own
				}
			}
		case 8: // key in another case / with blanks
			k := r.Intn(len(items))
			kv := strings.SplitN(items[k], "=", 2)
			if len(kv) == 2 {
				items[k] = vh.Pick(r, []string{strings.ToUpper(kv[0]), " " + kv[0], kv[0] + " "}) + "=" + kv[1]
			}
		case 9: // empty item / shuffled order
			items = append(items, "")
			a, b := r.Intn(len(items)), r.Intn(len(items))
			items[a], items[b] = items[b], items[a]
		case 10: // ill-formed UTF-8 in a value
			k := r.Intn(len(items))
			items[k] += vh.Pick(r, badSeqs)
		case 11: // register replaced
			for k := range items {
				if strings.HasPrefix(items[k], "register=") {
					items[k] = "register=" + vh.Pick(r, []string{"TRUE", "0", "", "true", "falsee"})
				}
			}
		}
	}
	return items, damaged
}

var _ = utf8.RuneError
