// timerdrv drives the handshake timer of real ship.ShipConnections through the verif
// hooks (VerifArmTimer / VerifStopTimer): thousands of connections concurrently, each in
// CmiStateServerWait (where a delivered timeout is reported as the error state), each
// with its own sequence of arm / stop / re-arm calls separated by gaps from the seeded
// PRNG.  Recorded per connection: the time just before each call and just after its
// return, and the time of every timeout delivery (the first one through
// HandleShipHandshakeStateUpdate, later ones through the "connection is in error state"
// debug line of handleState).  The cases are judged inside Coq (Timer.check_c14).
package main

import (
	"flag"
	"fmt"
	"os"
	"runtime"
	"strings"
	"sync"
	"time"

	"github.com/enbility/ship-go/api"
	"github.com/enbility/ship-go/logging"
	"github.com/enbility/ship-go/model"
	"github.com/enbility/ship-go/ship"

	"verif/harness/internal/vh"
)

var (
	prop  = flag.String("prop", "C14", "property mode")
	seed  = flag.Uint64("seed", 1, "PRNG seed")
	n     = flag.Int("n", 1000, "number of connections")
	out   = flag.String("out", "", "output JSONL")
	batch = flag.Int("batch", 2000, "connections run concurrently")
)

// ---- scenario ----
type op struct {
	arm   bool
	dMs   int   // duration of an arm, ms
	gapUs int   // pause before the call, us (0 = back to back)
	par   bool  // this call and the next one are made by two goroutines released together
	call  int64 // us since scenario start, just before the call
	ret   int64 // us since scenario start, just after the return
}

type scenario struct {
	id      int
	kind    string
	ops     []op
	delayUs int // start offset within the batch, spreads the start-up load

	mu       sync.Mutex
	start    time.Time
	fires    []int64 // us, timeout deliveries
	reported bool    // the error-state report of the first delivery was seen
	runCall  int64
	runRet   int64
	end      int64
	failure  string
}

func (s *scenario) us() int64 { return time.Since(s.start).Microseconds() }

// ---- fakes ----
type provider struct{ s *scenario }

func (p *provider) IsRemoteServiceForSKIPaired(string) bool { return false }
func (p *provider) IsAutoAcceptEnabled() bool               { return false }
func (p *provider) HandleConnectionClosed(api.ShipConnectionInterface, bool) {
	// nothing but a delivered timeout closes these connections
	p.s.firstDelivery()
}
func (p *provider) ReportServiceShipID(string, string) {}
func (p *provider) AllowWaitingForTrust(string) bool   { return false }
func (p *provider) HandleShipHandshakeStateUpdate(ski string, st model.ShipState) {
	// nothing but a delivered timeout puts these connections into the error state
	if st.State == model.SmeStateError {
		p.s.firstDelivery()
	}
}

// firstDelivery records the first timeout delivered to the connection: in
// CmiStateServerWait it ends the handshake, which is reported as the error state (more
// than once) and as a closed connection; whichever report comes first counts, once.
func (s *scenario) firstDelivery() {
	t := s.us()
	s.mu.Lock()
	if !s.reported {
		s.reported = true
		s.fires = append(s.fires, t)
	}
	s.mu.Unlock()
}
func (p *provider) SetupRemoteDevice(string, api.ShipConnectionDataWriterInterface) api.ShipConnectionDataReaderInterface {
	return nil
}

type writer struct{}

func (w *writer) InitDataProcessing(api.WebsocketDataReaderInterface) {}
func (w *writer) WriteMessageToWebsocketConnection([]byte) error      { return nil }
func (w *writer) CloseDataConnection(int, string)                     {}
func (w *writer) IsDataConnectionClosed() (bool, error)               { return false, nil }

// logger: a timeout delivered to a connection that is already in the error state leaves
// no trace but handleState's debug line (first argument: the remote SKI)
type logger struct{ bySki sync.Map }

func (l *logger) Trace(args ...interface{})                 {}
func (l *logger) Tracef(format string, args ...interface{}) {}
func (l *logger) Debug(args ...interface{}) {
	if len(args) < 2 {
		return
	}
	ski, ok1 := args[0].(string)
	msg, ok2 := args[1].(string)
	if !ok1 || !ok2 || msg != "connection is in error state" {
		return
	}
	if v, ok := l.bySki.Load(ski); ok {
		s := v.(*scenario)
		t := s.us()
		s.mu.Lock()
		s.fires = append(s.fires, t)
		s.mu.Unlock()
	}
}
func (l *logger) Debugf(format string, args ...interface{}) {}
func (l *logger) Info(args ...interface{})                  {}
func (l *logger) Infof(format string, args ...interface{})  {}
func (l *logger) Error(args ...interface{})                 {}
func (l *logger) Errorf(format string, args ...interface{}) {}

// ---- generation ----
var durations = []int{5, 20, 50}
var gaps = []int{0, 50, 1000, 10000}

func witnessScenario(i int) *scenario {
	d := durations[i%3]
	switch (i / 3) % 5 {
	case 4: // two goroutines arm the same connection's timer at the same moment (reader, expiring timer and application goroutines all arm it), then it is stopped
		return &scenario{kind: "witness:arm||arm-stop", ops: []op{{arm: true, dMs: d, par: true}, {arm: true, dMs: d}, {gapUs: 1000}}}
	case 0: // the refuting schedule of the pinned tree: arm; stop back to back
		return &scenario{kind: "witness:arm-stop", ops: []op{{arm: true, dMs: d}, {gapUs: 0}}}
	case 1: // stop directly after Run()'s own arm, then arm and let it fire
		return &scenario{kind: "witness:stop-arm", ops: []op{{gapUs: 0}, {arm: true, dMs: d, gapUs: 0}}}
	case 2: // replaced back to back, then stopped
		return &scenario{kind: "witness:arm-arm-stop", ops: []op{{arm: true, dMs: d}, {arm: true, dMs: d, gapUs: 0}, {gapUs: 1000}}}
	default: // stopped after the goroutine had time to reach its select
		return &scenario{kind: "witness:arm-wait-stop", ops: []op{{arm: true, dMs: d}, {gapUs: 1000}}}
	}
}

func randomScenario(r *vh.Rng) *scenario {
	k := 1 + r.Intn(6)
	s := &scenario{}
	for i := 0; i < k; i++ {
		o := op{gapUs: vh.Pick(r, gaps)}
		if r.Chance(60) {
			o.arm = true
			o.dMs = vh.Pick(r, durations)
		}
		s.ops = append(s.ops, o)
	}
	if k >= 2 && r.Chance(20) {
		// two goroutines arm the timer together, with the same duration (whichever comes last,
		// the observable behaviour is that of the sequence arm; arm)
		d := vh.Pick(r, durations)
		s.ops[0] = op{arm: true, dMs: d, gapUs: s.ops[0].gapUs, par: true}
		s.ops[1] = op{arm: true, dMs: d}
	}
	if s.ops[k-1].arm {
		s.kind = "random:last-arm"
	} else {
		s.kind = "random:last-stop"
	}
	return s
}

// ---- execution ----
const cmiTimeoutUs = 10_000_000 // only used to leave Run()'s own timer out of the waiting time

func pause(us int) {
	switch {
	case us <= 0:
	case us < 500:
		t0 := time.Now()
		for time.Since(t0) < time.Duration(us)*time.Microsecond {
			runtime.Gosched()
		}
	default:
		time.Sleep(time.Duration(us) * time.Microsecond)
	}
}

func runScenario(s *scenario, lg *logger) {
	defer func() {
		if e := recover(); e != nil {
			s.mu.Lock()
			s.failure = fmt.Sprint("panic: ", e)
			s.mu.Unlock()
		}
	}()
	ski := fmt.Sprintf("%040x", s.id)
	lg.bySki.Store(ski, s)
	pause(s.delayUs)
	s.start = time.Now()
	c := ship.NewConnectionHandler(&provider{s}, &writer{}, ship.ShipRoleServer, "local", ski, "remote")
	s.runCall = s.us()
	c.Run() // server: CmiStateInitStart -> CmiStateServerWait, arms the cmiTimeout timer itself
	s.runRet = s.us()
	if st, _ := c.ShipHandshakeState(); st != model.CmiStateServerWait || !c.VerifTimerRunning() {
		s.failure = fmt.Sprintf("after Run(): state %d, timer running %v; expected CmiStateServerWait with its timer armed", st, c.VerifTimerRunning())
		return
	}
	var maxDead int64
	var mdMu sync.Mutex
	do := func(o *op) {
		if o.arm {
			d := time.Duration(o.dMs) * time.Millisecond
			o.call = s.us()
			c.VerifArmTimer(d)
			o.ret = s.us()
			mdMu.Lock()
			if dl := o.call + int64(o.dMs)*1000; dl > maxDead {
				maxDead = dl
			}
			mdMu.Unlock()
		} else {
			o.call = s.us()
			c.VerifStopTimer()
			o.ret = s.us()
		}
	}
	for i := 0; i < len(s.ops); i++ {
		o := &s.ops[i]
		pause(o.gapUs)
		if o.par && i+1 < len(s.ops) {
			gate := make(chan struct{})
			var ready, wg sync.WaitGroup
			ready.Add(2)
			wg.Add(2)
			for _, x := range []*op{o, &s.ops[i+1]} {
				go func(x *op) {
					defer wg.Done()
					ready.Done()
					<-gate
					do(x)
				}(x)
			}
			ready.Wait()
			close(gate)
			wg.Wait()
			// which of the two took effect last is not observable, and under load a goroutine may be
			// descheduled between its time stamp and its call: both calls (same duration) are listed
			// with the interval that covers both - the earliest start, the latest return
			a, b := &s.ops[i], &s.ops[i+1]
			if b.call < a.call {
				a.call = b.call
			}
			if a.ret > b.ret {
				b.ret = a.ret
			}
			b.call, a.ret = a.call, b.ret
			i++
			continue
		}
		do(o)
	}
	// observe until every timer armed by the driver is 100 ms past its deadline ...
	for s.us() < maxDead+100_000 {
		time.Sleep(2 * time.Millisecond)
	}
	// ... and, when the last call armed a timer and no timeout was seen at all, until it
	// shows up (cap: 3 s past its deadline)
	if k := len(s.ops); k > 0 && s.ops[k-1].arm {
		dl := s.ops[k-1].call + int64(s.ops[k-1].dMs)*1000
		for s.us() < dl+3_000_000 {
			s.mu.Lock()
			seen := len(s.fires) > 0
			s.mu.Unlock()
			if seen {
				break
			}
			time.Sleep(2 * time.Millisecond)
		}
	}
	s.mu.Lock()
	s.end = s.us()
	s.fires = append([]int64(nil), s.fires...)
	s.mu.Unlock()
	lg.bySki.Delete(ski)
}

// ---- output ----
func (s *scenario) emit(w *vh.Writer) {
	s.mu.Lock()
	defer s.mu.Unlock()
	var ops []string
	// op 0 is the arm performed by Run() itself (duration: cmiTimeout of the source)
	ops = append(ops, fmt.Sprintf("{| o_arm := true; o_d := cmiTimeout_ms * 1000; o_call := %d; o_ret := %d |}", s.runCall, s.runRet))
	var key strings.Builder
	key.WriteString(s.kind)
	type sop struct {
		Op   string `json:"op"`
		DMs  int    `json:"d_ms,omitempty"`
		Gap  int    `json:"gap_us"`
		Call int64  `json:"call_us"`
		Ret  int64  `json:"ret_us"`
	}
	sample := []sop{{Op: "Run() arms cmiTimeout", Call: s.runCall, Ret: s.runRet}}
	nontrivial := false
	for i, o := range s.ops {
		if o.arm {
			ops = append(ops, fmt.Sprintf("{| o_arm := true; o_d := %d; o_call := %d; o_ret := %d |}", o.dMs*1000, o.call, o.ret))
			fmt.Fprintf(&key, "|a%d/%d", o.dMs, o.gapUs)
			sample = append(sample, sop{"arm", o.dMs, o.gapUs, o.call, o.ret})
			// a timer of the driver stopped or replaced well (>= 2 ms) before its deadline:
			// the region in which the property forbids a timeout
			if i+1 < len(s.ops) && s.ops[i+1].ret+2000 <= o.call+int64(o.dMs)*1000 {
				nontrivial = true
			}
		} else {
			ops = append(ops, fmt.Sprintf("{| o_arm := false; o_d := 0; o_call := %d; o_ret := %d |}", o.call, o.ret))
			fmt.Fprintf(&key, "|s/%d", o.gapUs)
			sample = append(sample, sop{"stop", 0, o.gapUs, o.call, o.ret})
		}
	}
	fires := make([]string, len(s.fires))
	for i, f := range s.fires {
		fires[i] = fmt.Sprint(f)
	}
	w.Put(vh.Case{
		Coq:        fmt.Sprintf("COBS {| tc_ops := %s; tc_fires := %s; tc_end := %d |}", vh.List(ops), vh.List(fires), s.end),
		Nontrivial: nontrivial,
		Key:        key.String(),
		Kind:       s.kind,
		Sample:     map[string]any{"connection": s.id, "calls": sample, "timeouts_delivered_at_us": s.fires, "observed_until_us": s.end},
	})
}

func main() {
	flag.Parse()
	if *out == "" || *prop != "C14" {
		fmt.Fprintln(os.Stderr, "usage: timerdrv -prop C14 -seed S -n N -out file.jsonl")
		os.Exit(2)
	}
	w := vh.NewWriter(*out)
	defer w.Close()
	r := vh.NewRng(*seed)
	lg := &logger{}
	logging.SetLogging(lg)

	// the first tenth of the connections replay the witness family, the rest is random
	scs := make([]*scenario, *n)
	nw := *n / 10
	if nw < 12 && *n >= 12 {
		nw = 12
	}
	for i := range scs {
		if i < nw {
			scs[i] = witnessScenario(i)
		} else {
			scs[i] = randomScenario(r.Fork())
		}
		scs[i].id = i
		scs[i].delayUs = 1000 + r.Intn(150_000)
	}
	failures := 0
	for lo := 0; lo < len(scs); lo += *batch {
		hi := lo + *batch
		if hi > len(scs) {
			hi = len(scs)
		}
		var wg sync.WaitGroup
		for _, s := range scs[lo:hi] {
			wg.Add(1)
			go func(s *scenario) {
				defer wg.Done()
				runScenario(s, lg)
			}(s)
		}
		done := make(chan struct{})
		go func() { wg.Wait(); close(done) }()
		select {
		case <-done:
		case <-time.After(60 * time.Second):
			fmt.Fprintln(os.Stderr, "timerdrv: a batch did not finish within 60 s")
			os.Exit(3)
		}
		for _, s := range scs[lo:hi] {
			if s.failure != "" {
				failures++
				fmt.Fprintf(os.Stderr, "timerdrv: connection %d (%s): %s\n", s.id, s.kind, s.failure)
				continue
			}
			s.emit(w)
		}
	}
	fmt.Printf("timerdrv: %d connections, %d cases, %d driver failures\n", len(scs), w.Count(), failures)
	if failures > 0 {
		w.Close()
		os.Exit(1)
	}
}
