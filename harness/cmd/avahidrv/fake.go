package main

import (
	"errors"
	"fmt"
	"sync"
	"time"

	"github.com/enbility/go-avahi"
	dbus "github.com/godbus/dbus/v5"
)

// failure mode of a provider Start while the daemon is unreachable
const (
	failSetup   = 0 // D-Bus itself is gone: Setup returns an error
	failVersion = 1 // D-Bus is there, Avahi is not: GetAPIVersion fails (the provider then calls Server.Shutdown)
	failBrowser = 2 // Avahi answers the version query but cannot create a browser yet
)

var errDown = errors.New("fake avahi: daemon not reachable")

// fakeServer mirrors the life-cycle semantics of go-avahi's Server: objects live on the
// daemon as long as the daemon runs and the client connection is open; closing the
// connection (daemon loss or Shutdown) frees them all and spawns `go eventCB(Disconnected)`.
type fakeServer struct {
	avahi.ServerInterface // unimplemented methods are never called by the provider

	mu       sync.Mutex
	daemonUp bool
	failMode int
	conn     bool
	cb       avahi.EventCB
	browsers map[*fakeBrowser]bool
	groups   map[*fakeGroup]bool
	last     time.Time
	seq      int

	browsersCreated, browsersFreed int
	groupsCreated, groupsCommitted int
	groupsFreed                    int
	setups, disconnects            int
	panics                         []string
}

type fakeBrowser struct {
	avahi.ServiceBrowserInterface
	id       int
	add, rem chan avahi.Service
}

func (b *fakeBrowser) GetObjectPath() dbus.ObjectPath {
	return dbus.ObjectPath(fmt.Sprintf("/Client0/ServiceBrowser%d", b.id))
}
func (b *fakeBrowser) Free() {}

type fakeGroup struct {
	avahi.EntryGroupInterface
	s         *fakeServer
	id        int
	txt       string
	services  int
	committed bool
}

func (g *fakeGroup) GetObjectPath() dbus.ObjectPath {
	return dbus.ObjectPath(fmt.Sprintf("/Client0/EntryGroup%d", g.id))
}
func (g *fakeGroup) Free() {}

func (g *fakeGroup) AddService(iface, protocol int32, flags uint32, name, serviceType, domain, host string, port uint16, txt [][]byte) error {
	g.s.mu.Lock()
	defer g.s.mu.Unlock()
	g.s.last = time.Now()
	if !g.s.groups[g] {
		return errDown
	}
	t := ""
	for _, e := range txt {
		t += string(e) + ";"
	}
	g.txt = t
	g.services++
	return nil
}

func (g *fakeGroup) Commit() error {
	g.s.mu.Lock()
	defer g.s.mu.Unlock()
	g.s.last = time.Now()
	if !g.s.groups[g] {
		return errDown
	}
	g.committed = true
	g.s.groupsCommitted++
	return nil
}

func newFakeServer() *fakeServer {
	return &fakeServer{daemonUp: true, browsers: map[*fakeBrowser]bool{}, groups: map[*fakeGroup]bool{}, last: time.Now()}
}

func (s *fakeServer) touch() { s.last = time.Now() }

func (s *fakeServer) Setup(cb avahi.EventCB) error {
	s.mu.Lock()
	defer s.mu.Unlock()
	s.touch()
	if !s.daemonUp && s.failMode == failSetup {
		return errDown
	}
	s.setups++
	s.conn = true
	s.cb = cb
	return nil
}

func (s *fakeServer) Start() {
	s.mu.Lock()
	s.touch()
	s.mu.Unlock()
}

func (s *fakeServer) GetAPIVersion() (int32, error) {
	s.mu.Lock()
	defer s.mu.Unlock()
	s.touch()
	if !s.conn || (!s.daemonUp && s.failMode != failBrowser) {
		return 0, errDown
	}
	return 516, nil
}

func (s *fakeServer) ServiceBrowserNew(addChan, removeChan chan avahi.Service, iface, protocol int32, serviceType string, domain string, flags uint32) (avahi.ServiceBrowserInterface, error) {
	s.mu.Lock()
	defer s.mu.Unlock()
	s.touch()
	if !s.conn || !s.daemonUp {
		return nil, errDown
	}
	s.seq++
	b := &fakeBrowser{id: s.seq, add: addChan, rem: removeChan}
	s.browsers[b] = true
	s.browsersCreated++
	return b, nil
}

func (s *fakeServer) ServiceBrowserFree(r avahi.ServiceBrowserInterface) {
	s.mu.Lock()
	defer s.mu.Unlock()
	s.touch()
	if b, ok := r.(*fakeBrowser); ok && s.browsers[b] {
		delete(s.browsers, b)
		s.browsersFreed++
	}
}

func (s *fakeServer) EntryGroupNew() (avahi.EntryGroupInterface, error) {
	s.mu.Lock()
	defer s.mu.Unlock()
	s.touch()
	if !s.conn || !s.daemonUp {
		return nil, errDown
	}
	s.seq++
	g := &fakeGroup{s: s, id: s.seq}
	s.groups[g] = true
	s.groupsCreated++
	return g, nil
}

func (s *fakeServer) EntryGroupFree(r avahi.EntryGroupInterface) {
	s.mu.Lock()
	defer s.mu.Unlock()
	s.touch()
	if g, ok := r.(*fakeGroup); ok && s.groups[g] {
		delete(s.groups, g)
		s.groupsFreed++
	}
}

func (s *fakeServer) ResolveService(iface, protocol int32, name, serviceType, domain string, aprotocol int32, flags uint32) (avahi.Service, error) {
	s.mu.Lock()
	defer s.mu.Unlock()
	s.touch()
	if !s.conn || !s.daemonUp {
		return avahi.Service{}, errDown
	}
	return avahi.Service{Interface: iface, Protocol: protocol, Name: name, Type: serviceType, Domain: domain,
		Host: "peer.local", Address: "192.0.2.7", Port: 4712, Txt: [][]byte{[]byte("ski=0123456789abcdef0123456789abcdef01234567")}}, nil
}

// closeConnLocked is go-avahi's Server.shutdown(): free everything, close, notify once.
func (s *fakeServer) closeConnLocked() {
	if !s.conn {
		return
	}
	s.conn = false
	s.browsers = map[*fakeBrowser]bool{}
	s.groups = map[*fakeGroup]bool{}
	s.disconnects++
	if cb := s.cb; cb != nil {
		go cb(avahi.Disconnected)
	}
}

func (s *fakeServer) Shutdown() {
	s.mu.Lock()
	defer s.mu.Unlock()
	s.touch()
	s.closeConnLocked()
}

// ---- the environment's side ----

func (s *fakeServer) daemonDown(mode int) {
	s.mu.Lock()
	defer s.mu.Unlock()
	s.touch()
	s.daemonUp = false
	s.failMode = mode
	s.browsers = map[*fakeBrowser]bool{}
	s.groups = map[*fakeGroup]bool{}
	s.closeConnLocked()
}

func (s *fakeServer) daemonBack() {
	s.mu.Lock()
	defer s.mu.Unlock()
	s.touch()
	s.daemonUp = true
}

func (s *fakeServer) liveBrowsers() []*fakeBrowser {
	s.mu.Lock()
	defer s.mu.Unlock()
	var l []*fakeBrowser
	for b := range s.browsers {
		l = append(l, b)
	}
	return l
}

// deliver one browse result through a browser, as go-avahi's DispatchSignal does (a
// blocking send on the channel the browser was created with); false = nobody received.
func (s *fakeServer) deliver(b *fakeBrowser, name string, wait time.Duration) (sent bool) {
	defer func() {
		if r := recover(); r != nil {
			s.mu.Lock()
			s.panics = append(s.panics, fmt.Sprint(r))
			s.mu.Unlock()
			sent = false
		}
	}()
	svc := avahi.Service{Interface: 1, Protocol: 0, Name: name, Type: "_ship._tcp", Domain: "local"}
	select {
	case b.add <- svc:
		return true
	case <-time.After(wait):
		return false
	}
}

func (s *fakeServer) idleFor() (time.Duration, bool) {
	s.mu.Lock()
	defer s.mu.Unlock()
	return time.Since(s.last), s.daemonUp
}
