package main

import (
	"fmt"
	"net"
	"strings"
	"sync"
	"sync/atomic"
	"time"

	"github.com/enbility/ship-go/mdns"

	"verif/harness/internal/vh"
)

type step struct {
	Act   string `json:"act"`      // down up browse announce unannounce shutdown
	Delay int    `json:"delay_ms"` // pause before the action
	Mode  int    `json:"mode"`     // failure mode of an outage (down only)
}

type scenario struct {
	Kind  string
	Steps []step
}

type result struct {
	Browsers, Latest, Stale int
	Report, Panic, Hang     bool
	Detail                  map[string]any
}

const (
	restWindow = 3 * time.Second  // no call on the fake server for this long (daemon up) = at rest
	restCap    = 40 * time.Second // give up waiting for rest
	callCap    = 15 * time.Second // an API call that does not return within this is a hang
)

// fixed schedules: the model-level witnesses of the defects of the pinned tree, replayed on
// the code under test on every run
func witnessScenarios() []scenario {
	return []scenario{
		{"witness_stale_capture", []step{{"announce", 0, 0}, {"down", 50, failVersion}, {"announce", 300, 0}, {"up", 200, 0}}},
		{"witness_resurrect", []step{{"announce", 0, 0}, {"down", 50, failSetup}, {"unannounce", 300, 0}, {"up", 200, 0}}},
		{"witness_shutdown_undone", []step{{"announce", 0, 0}, {"down", 50, failSetup}, {"shutdown", 400, 0}, {"up", 100, 0}}},
		{"witness_shutdown_undone", []step{{"announce", 0, 0}, {"down", 50, failVersion}, {"shutdown", 1400, 0}, {"up", 100, 0}}},
		{"witness_group_leak", []step{{"announce", 0, 0}, {"announce", 50, 0}}},
		{"witness_loops_multiply", []step{{"announce", 0, 0}, {"down", 50, failVersion}, {"up", 2500, 0}}},
		{"witness_loops_multiply", []step{{"down", 50, failBrowser}, {"up", 3400, 0}, {"browse", 1500, 0}}},
		{"witness_shutdown_echo", []step{{"announce", 0, 0}, {"shutdown", 100, 0}}},
		{"witness_shutdown_echo", []step{{"shutdown", 0, 0}, {"down", 100, failSetup}, {"up", 1200, 0}}},
		{"witness_plain_reconnect", []step{{"announce", 0, 0}, {"down", 100, failSetup}, {"up", 1500, 0}, {"browse", 1500, 0}}},
	}
}

var delays = []int{0, 20, 150, 300, 600, 900, 980, 1020, 1100, 1500, 2100}

func genScenario(r *vh.Rng, idx int) scenario {
	st := []step{}
	shut := false
	budget := 6500 // ms of scripted pauses per scenario
	add := func(act string, ds []int, mode int) {
		d := vh.Pick(r, ds)
		if d > budget {
			d = 0
		}
		budget -= d
		st = append(st, step{act, d, mode})
	}
	api := func(mayShut bool) {
		if shut {
			if r.Chance(40) {
				add("browse", delays, 0)
			}
			return
		}
		switch k := r.Intn(20); {
		case k < 8:
			add("announce", delays, 0)
		case k < 12:
			add("unannounce", delays, 0)
		case k < 18 || !mayShut:
			add("browse", delays, 0)
		default:
			add("shutdown", delays, 0)
			shut = true
		}
	}
	for i := r.Intn(3); i > 0; i-- {
		api(r.Chance(25))
	}
	outages := 1 + r.Intn(2)
	if r.Chance(6) {
		outages = 0
	}
	for o := 0; o < outages; o++ {
		add("down", delays[:6], r.Intn(3))
		for i := r.Intn(3); i > 0; i-- {
			api(true)
		}
		add("up", delays, 0)
		for i := r.Intn(3); i > 0; i-- {
			api(true)
		}
	}
	kind := "random"
	if shut {
		kind = "random_shutdown"
	}
	if outages == 0 {
		kind = "random_no_outage"
	}
	return scenario{kind, st}
}

// call runs f under a deadline and recover; false = it did not return in time
func call(f func(), panics *[]string, mu *sync.Mutex) bool {
	done := make(chan struct{})
	go func() {
		defer close(done)
		defer func() {
			if r := recover(); r != nil {
				mu.Lock()
				*panics = append(*panics, fmt.Sprint(r))
				mu.Unlock()
			}
		}()
		f()
	}()
	select {
	case <-done:
		return true
	case <-time.After(callCap):
		return false
	}
}

func runScenario(sc scenario) *result {
	fs := newFakeServer()
	var reported int64
	cb := func(elements map[string]string, name, host string, addresses []net.IP, port int, remove bool) {
		atomic.AddInt64(&reported, 1)
	}
	p := mdns.VerifNewAvahiProvider(fs, []int32{1})
	res := &result{Detail: map[string]any{}}
	var mu sync.Mutex
	var panics []string

	started := false
	if !call(func() { started = p.Start(true, cb) }, &panics, &mu) || !started {
		res.Hang = true
		res.Detail["start_failed"] = true
		return res
	}

	version := 0
	latestTxt := ""
	hang := false
	for _, s := range sc.Steps {
		time.Sleep(time.Duration(s.Delay) * time.Millisecond)
		switch s.Act {
		case "down":
			fs.daemonDown(s.Mode)
		case "up":
			fs.daemonBack()
		case "browse":
			for _, b := range fs.liveBrowsers() {
				fs.deliver(b, "peer", time.Second)
			}
		case "announce":
			version++
			txt := []string{"txtvers=1", fmt.Sprintf("v=%d", version)}
			latestTxt = strings.Join(txt, ";") + ";"
			if !call(func() { _ = p.Announce("svc", 4711, txt) }, &panics, &mu) {
				hang = true
			}
		case "unannounce":
			if !call(func() { p.Unannounce() }, &panics, &mu) {
				hang = true
			}
		case "shutdown":
			if !call(func() { p.Shutdown() }, &panics, &mu) {
				hang = true
			}
		}
		if hang {
			break
		}
	}

	// wait until the provider is at rest: the daemon is up and the fake server has not been
	// called for restWindow (a reconnect loop calls Setup at least once a second)
	t0 := time.Now()
	for !hang {
		idle, up := fs.idleFor()
		if up && idle >= restWindow {
			break
		}
		if time.Since(t0) > restCap {
			hang = true
			res.Detail["never_at_rest"] = true
			break
		}
		time.Sleep(100 * time.Millisecond)
	}

	// observation
	fs.mu.Lock()
	res.Browsers = len(fs.browsers)
	var txts []string
	for g := range fs.groups {
		if !g.committed || g.services == 0 {
			continue
		}
		txts = append(txts, g.txt)
		if latestTxt != "" && g.txt == latestTxt {
			res.Latest++
		} else {
			res.Stale++
		}
	}
	res.Detail["server"] = map[string]int{
		"browsers_created": fs.browsersCreated, "browsers_freed": fs.browsersFreed,
		"groups_created": fs.groupsCreated, "groups_committed": fs.groupsCommitted, "groups_freed": fs.groupsFreed,
		"setups": fs.setups, "connection_closures": fs.disconnects}
	fs.mu.Unlock()
	res.Detail["live_group_txt"] = txts
	res.Detail["latest_txt"] = latestTxt

	// probe: does a browse result delivered now reach the resolver callback?
	if !hang {
		if lb := fs.liveBrowsers(); len(lb) > 0 {
			before := atomic.LoadInt64(&reported)
			if fs.deliver(lb[0], "probe", 3*time.Second) {
				for t := time.Now(); time.Since(t) < 5*time.Second; time.Sleep(20 * time.Millisecond) {
					if atomic.LoadInt64(&reported) > before {
						res.Report = true
						break
					}
				}
			}
		}
	}
	res.Detail["resolver_callbacks"] = atomic.LoadInt64(&reported)
	fs.mu.Lock()
	panics = append(panics, fs.panics...)
	fs.mu.Unlock()
	res.Panic = len(panics) > 0
	res.Hang = hang
	if len(panics) > 0 {
		res.Detail["panics"] = panics
	}
	return res
}

var actCoq = map[string]string{"down": "XDown", "up": "XUp", "browse": "XBrowse", "announce": "XAnnounce",
	"unannounce": "XUnannounce", "shutdown": "XShutdown"}

func cap2(n int) int {
	if n > 2 {
		return 2
	}
	return n
}

func toCase(sc scenario, r *result) vh.Case {
	var acts, key []string
	hasDown, hasAPI := false, false
	for _, s := range sc.Steps {
		acts = append(acts, actCoq[s.Act])
		key = append(key, fmt.Sprintf("%s/%d/%d", s.Act, s.Delay, s.Mode))
		if s.Act == "down" {
			hasDown = true
		}
		if s.Act == "announce" || s.Act == "unannounce" || s.Act == "shutdown" {
			hasAPI = true
		}
	}
	obs := fmt.Sprintf("{| o_brow := %d%%N; o_latest := %d%%N; o_stale := %d%%N; o_report := %s; o_panic := %s; o_hang := %s |}",
		cap2(r.Browsers), cap2(r.Latest), cap2(r.Stale), vh.B(r.Report), vh.B(r.Panic), vh.B(r.Hang))
	return vh.Case{
		Coq:        fmt.Sprintf("{| cc_acts := %s; cc_obs := %s |}", vh.List(acts), obs),
		Nontrivial: hasDown && hasAPI,
		Key:        strings.Join(key, ","),
		Kind:       sc.Kind,
		Sample: map[string]any{"script": sc.Steps, "observed": map[string]any{
			"live_browsers": r.Browsers, "live_groups_latest_txt": r.Latest, "live_groups_stale_txt": r.Stale,
			"browse_result_reported": r.Report, "panic": r.Panic, "hang": r.Hang}, "detail": r.Detail},
	}
}
