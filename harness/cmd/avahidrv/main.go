// avahidrv runs the real mdns.AvahiProvider over a fake Avahi client library that behaves
// like github.com/enbility/go-avahi (closing the connection frees every object and spawns
// one Disconnected notification), plays scripted scenarios of daemon outages interleaved
// with Announce / Unannounce / Shutdown and browse results, waits for the provider to come
// to rest, and writes what the fake daemon holds at that point as cases for bin/check.
package main

import (
	"flag"
	"fmt"
	"os"
	"sync"

	"verif/harness/internal/vh"
)

var (
	prop = flag.String("prop", "", "property mode (C19)")
	seed = flag.Uint64("seed", 1, "PRNG seed")
	n    = flag.Int("n", 200, "number of scenarios")
	out  = flag.String("out", "", "output JSONL")
	par  = flag.Int("par", 600, "scenarios running at the same time")
)

func main() {
	flag.Parse()
	if *out != "" && *prop == "C19mgr" {
		mainMgr(*seed, *n, *out, *par)
		return
	}
	if *out == "" || *prop != "C19" {
		fmt.Fprintln(os.Stderr, "usage: avahidrv -prop C19 -seed S -n N -out file")
		os.Exit(2)
	}
	w := vh.NewWriter(*out)
	defer w.Close()
	r := vh.NewRng(*seed)

	scens := witnessScenarios()
	for len(scens) < *n {
		scens = append(scens, genScenario(r.Fork(), len(scens)))
	}
	if len(scens) > *n && *n > 0 {
		scens = scens[:*n]
	}

	results := make([]*result, len(scens))
	sem := make(chan struct{}, *par)
	var wg sync.WaitGroup
	for i := range scens {
		wg.Add(1)
		sem <- struct{}{}
		go func(i int) {
			defer wg.Done()
			defer func() { <-sem }()
			results[i] = runScenario(scens[i])
		}(i)
	}
	wg.Wait()
	for i, sc := range scens {
		w.Put(toCase(sc, results[i]))
	}
}
