package main

import (
	"fmt"
	"net"
	"strings"
	"sync"
	"time"

	"github.com/enbility/ship-go/api"
	"github.com/enbility/ship-go/mdns"

	"verif/harness/internal/vh"
)

// -prop C19mgr: the same fake Avahi daemon, but the calls go through the real mdns.MdnsManager
// (AnnounceMdnsEntry, UnannounceMdnsEntry, SetAutoAccept) on top of the real AvahiProvider, as
// an application makes them.  At rest (daemon up, nothing called for restWindow) the committed
// entry groups the daemon holds are read: how many, and which register= value they carry.
// Expected (Coq: AvahiMgr.v): exactly one group with register=<last auto-accept value> if the
// last of announce / unannounce was an announce, none otherwise.

type mstep struct {
	Act   string `json:"act"` // down up announce unannounce auto0 auto1
	Delay int    `json:"delay_ms"`
	Mode  int    `json:"mode"`
}

func mgrWitnesses() [][]mstep {
	return [][]mstep{
		{{"announce", 0, 0}, {"down", 50, failSetup}, {"auto1", 300, 0}, {"up", 300, 0}},
		{{"down", 0, failSetup}, {"announce", 200, 0}, {"unannounce", 200, 0}, {"up", 300, 0}},
		{{"down", 0, failVersion}, {"announce", 200, 0}, {"auto1", 200, 0}, {"up", 300, 0}},
		{{"announce", 0, 0}, {"down", 50, failSetup}, {"auto1", 200, 0}, {"auto0", 200, 0}, {"up", 300, 0}},
		{{"announce", 0, 0}, {"down", 50, failVersion}, {"auto1", 200, 0}, {"unannounce", 200, 0}, {"up", 300, 0}},
		{{"announce", 0, 0}, {"auto1", 100, 0}, {"unannounce", 100, 0}, {"announce", 100, 0}},
	}
}

func genMgr(r *vh.Rng) []mstep {
	var st []mstep
	api := func() {
		st = append(st, mstep{vh.Pick(r, []string{"announce", "announce", "unannounce", "auto0", "auto1", "auto1"}), vh.Pick(r, []int{0, 20, 150, 300, 600}), 0})
	}
	for i := r.Intn(3); i > 0; i-- {
		api()
	}
	for o := r.Intn(3); o > 0; o-- {
		st = append(st, mstep{"down", vh.Pick(r, []int{0, 50, 300}), r.Intn(3)})
		for i := r.Intn(4); i > 0; i-- {
			api()
		}
		st = append(st, mstep{"up", vh.Pick(r, []int{100, 300, 1100, 2100}), 0})
		for i := r.Intn(3); i > 0; i-- {
			api()
		}
	}
	return st
}

type mres struct {
	groups   int
	regTrue  int
	regFalse int
	hang     bool
	panics   []string
	txts     []string
}

func runMgr(steps []mstep) mres {
	fs := newFakeServer()
	p := mdns.VerifNewAvahiProvider(fs, []int32{1})
	m := mdns.NewMDNS("ffffffffffffffffffffffffffffffffffffff01", "brand", "model", "type", "serial", []api.DeviceCategoryType{1}, "id", "svc", 4711, nil, mdns.MdnsProviderSelectionAvahiOnly)
	m.VerifSetProvider(p)
	var mu sync.Mutex
	var res mres
	cb := func(map[string]string, string, string, []net.IP, int, bool) {}
	started := false
	if !call(func() { started = p.Start(true, cb) }, &res.panics, &mu) || !started {
		res.hang = true
		return res
	}
	for _, s := range steps {
		time.Sleep(time.Duration(s.Delay) * time.Millisecond)
		ok := true
		switch s.Act {
		case "down":
			fs.daemonDown(s.Mode)
		case "up":
			fs.daemonBack()
		case "announce":
			ok = call(func() { _ = m.AnnounceMdnsEntry() }, &res.panics, &mu)
		case "unannounce":
			ok = call(func() { m.UnannounceMdnsEntry() }, &res.panics, &mu)
		case "auto0":
			ok = call(func() { m.SetAutoAccept(false) }, &res.panics, &mu)
		case "auto1":
			ok = call(func() { m.SetAutoAccept(true) }, &res.panics, &mu)
		}
		if !ok {
			res.hang = true
			break
		}
	}
	t0 := time.Now()
	for !res.hang {
		idle, up := fs.idleFor()
		if up && idle >= restWindow {
			break
		}
		if time.Since(t0) > restCap {
			res.hang = true
			break
		}
		time.Sleep(100 * time.Millisecond)
	}
	fs.mu.Lock()
	for g := range fs.groups {
		if !g.committed || g.services == 0 {
			continue
		}
		res.groups++
		res.txts = append(res.txts, g.txt)
		if strings.Contains(g.txt, "register=true") {
			res.regTrue++
		} else if strings.Contains(g.txt, "register=false") {
			res.regFalse++
		}
	}
	res.panics = append(res.panics, fs.panics...)
	fs.mu.Unlock()
	call(func() { p.Shutdown() }, &res.panics, &mu)
	return res
}

var mactCoq = map[string]string{"down": "GDown", "up": "GUp", "announce": "GAnnounce", "unannounce": "GUnannounce", "auto0": "GAuto false", "auto1": "GAuto true"}

func mainMgr(seed uint64, n int, out string, par int) {
	w := vh.NewWriter(out)
	defer w.Close()
	r := vh.NewRng(seed)
	scens := mgrWitnesses()
	for len(scens) < n {
		scens = append(scens, genMgr(r.Fork()))
	}
	scens = scens[:n]
	results := make([]mres, len(scens))
	sem := make(chan struct{}, par)
	var wg sync.WaitGroup
	for i := range scens {
		wg.Add(1)
		sem <- struct{}{}
		go func(i int) {
			defer wg.Done()
			defer func() { <-sem }()
			results[i] = runMgr(scens[i])
		}(i)
	}
	wg.Wait()
	for i, sc := range scens {
		var acts, key []string
		down, apiIn := false, false
		inOutage := false
		for _, s := range sc {
			a := mactCoq[s.Act]
			if strings.HasPrefix(a, "GAuto") {
				a = "(" + a + ")"
			}
			acts = append(acts, a)
			key = append(key, fmt.Sprintf("%s/%d/%d", s.Act, s.Delay, s.Mode))
			switch s.Act {
			case "down":
				down, inOutage = true, true
			case "up":
				inOutage = false
			default:
				if inOutage {
					apiIn = true
				}
			}
		}
		rs := results[i]
		kind := "manager_random"
		if i < len(mgrWitnesses()) {
			kind = "manager_witness"
		}
		w.Put(vh.Case{
			Coq: fmt.Sprintf("{| gc_acts := %s; gc_groups := %d%%N; gc_true := %d%%N; gc_false := %d%%N; gc_crash := %s |}",
				vh.List(acts), cap2(rs.groups), cap2(rs.regTrue), cap2(rs.regFalse), vh.B(rs.hang || len(rs.panics) > 0)),
			Nontrivial: down && apiIn,
			Key:        strings.Join(key, ","),
			Kind:       kind,
			Sample: map[string]any{"script": sc, "live_committed_groups": rs.groups, "txt": rs.txts, "hang": rs.hang, "panics": rs.panics},
		})
	}
}
