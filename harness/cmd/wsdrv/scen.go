package main

import (
	"bytes"
	"encoding/binary"
	"runtime"
	"sync"
	"sync/atomic"
	"time"

	"github.com/enbility/ship-go/logging"
	"github.com/enbility/ship-go/ws"
	"github.com/gorilla/websocket"

	"verif/harness/internal/vh"
)

// closing-event classes (the Coq side has the same enumeration, Ws.skind)
const (
	kNone       = "KNone"       // no closing event: everything must arrive
	kLocal      = "KLocal"      // CloseDataConnection
	kPeerClose  = "KPeerClose"  // peer sends a close frame with some code
	kEof        = "KEof"        // peer end of the transport closed abruptly
	kBadFrame   = "KBadFrame"   // peer sends a text frame / a 1-byte binary frame
	kReadFault  = "KReadFault"  // k-th transport read fails
	kWriteFault = "KWriteFault" // k-th transport write fails (and all later ones)
	kSlowFail   = "KSlowFail"   // k-th transport write is slow, then fails
	kFullLocal  = "KFullLocal"  // pump stuck in a slow write, queue full, a writer blocked; then local close
	kLocalPeer  = "KLocalPeer"  // local close racing a peer close frame
	kLocalWrite = "KLocalWrite" // local close racing a failing write
	kLocalEof   = "KLocalEof"   // local close racing an abrupt EOF
	kSlowLocal  = "KSlowLocal"  // local close whose close-frame write is slow; a write call is made meanwhile
)

type scen struct {
	Idx        int    `json:"idx"`
	Prop       string `json:"prop"`
	Kind       string `json:"kind"`
	Reason     bool   `json:"reason"`                // local close carries a reason (close frame is sent)
	React      bool   `json:"react"`                 // the reader reacts to a reported error with CloseDataConnection, as ship.ShipConnection does
	TimeoutErr bool   `json:"timeout_err,omitempty"` // an injected write fault is of the timeout kind (net.Error, Timeout() true)
	Serial     bool   `json:"serial,omitempty"`      // the reader handles a reported error under the lock its own writers hold while they write, as ship.ShipConnection does (sync.Once around CloseConnection: a graceful close writes its announce inside it, the close caused by ReportConnectionError waits for it)
	Code       int    `json:"code"`                  // peer close code
	Writers    int    `json:"writers"`
	Per        int    `json:"per"`
	Incoming   int    `json:"incoming"`
	At         int    `json:"at"` // the closing event is placed after this many write calls have started
	K          int    `json:"k"`  // index of the faulty read / write
	Late       int    `json:"late"`
	Procs      int    `json:"procs"`
	SutServer  bool   `json:"sut_server"`
	Yield      int    `json:"yield"`          // percentage of Gosched perturbation points taken
	Hold       bool   `json:"hold,omitempty"` // witness only: hold the read pump between its closed-check and the delivery
	Witness    string `json:"witness,omitempty"`
	rseed      uint64
}

type wcall struct {
	G, I       int
	Start, End int64
	Res        int // 0 nil, 1 error, 2 panic, 3 not returned
}

type result struct {
	Calls     []wcall
	ClosedSeq int64    // sequence stamp taken after the closed-query first said "closed" (0: never)
	Wire      [][2]int // (writer, index) of every data frame the peer received, in order
	Foreign   int      // frames the peer received that no writer wrote
	Events    []int    // reader callbacks in order: 0 deliver, 1 report(closed-query ok), 2 report(closed-query not ok)
	Delivered []int    // ids delivered, in order
	Closed    bool     // final closed-query: closed
	ClosedErr bool     // final closed-query: error non-nil
	ConnClose bool     // Close() was called on the net.Conn
	Exited    bool     // no goroutine of package ws left
	LocalDone bool     // the local close was issued
	PeerEvent bool     // the peer-side closing event was issued (close frame / EOF / bad frame)
	FaultHit  bool     // an injected read/write fault was returned to the library
	Crash     bool     // the process died inside this scenario (panic on a library goroutine)
	Dirty     bool     // cleanup could not get rid of the library's goroutines
	Note      string
}

// ---- reader double ----
type reader struct {
	mu        sync.Mutex
	sut       *ws.WebsocketConnection
	react     bool
	serial    bool
	wmu       sync.Mutex // held by a writer around its write call when serial
	events    []int
	delivered []int
	holdDeliv chan struct{} // when set: the first delivery waits here (C13 in-flight witness)
	once      sync.Once
}

func (r *reader) HandleIncomingWebsocketMessage(b []byte) {
	id := -1
	if len(b) >= 6 {
		id = int(binary.BigEndian.Uint32(b[2:6]))
	}
	r.mu.Lock()
	r.events = append(r.events, 0)
	r.delivered = append(r.delivered, id)
	r.mu.Unlock()
}

func (r *reader) ReportConnectionError(err error) {
	if r.serial {
		r.wmu.Lock()
		r.wmu.Unlock() //nolint:staticcheck // wait for a write call in progress, as the Once does
	}
	closed, cerr := r.sut.IsDataConnectionClosed()
	ev := 2
	if closed && cerr != nil && err != nil {
		ev = 1
	}
	r.mu.Lock()
	r.events = append(r.events, ev)
	r.mu.Unlock()
	if r.react {
		r.sut.CloseDataConnection(4001, "")
	}
}

// ---- holding logger: the library's own trace call between the read pump's closed-check
// and HandleIncomingWebsocketMessage is the one place where a test can park the read pump
// without a hook (logging.SetLogging is public API) ----
type holdLogger struct {
	logging.NoLogging
	held    chan struct{} // closed when the read pump is parked
	release chan struct{}
	once    sync.Once
}

func (h *holdLogger) Trace(args ...interface{}) {
	if len(args) > 0 {
		if s, ok := args[0].(string); ok && s == "Recv:" {
			h.once.Do(func() { close(h.held) })
			<-h.release
		}
	}
}

// ---- goroutine scan ----
var wsFrame = []byte("github.com/enbility/ship-go/ws.")

func wsGoroutines() int {
	buf := make([]byte, 1<<20)
	for {
		n := runtime.Stack(buf, true)
		if n < len(buf) {
			buf = buf[:n]
			break
		}
		buf = make([]byte, 2*len(buf))
	}
	cnt := 0
	for _, g := range bytes.Split(buf, []byte("\n\n")) {
		if bytes.Contains(g, wsFrame) {
			cnt++
		}
	}
	return cnt
}

// poll waits for cond with a cap; the result only ever feeds an observation
func poll(cap time.Duration, cond func() bool) bool {
	dl := time.Now().Add(cap)
	for i := 0; ; i++ {
		if cond() {
			return true
		}
		if time.Now().After(dl) {
			return false
		}
		if i < 50 {
			runtime.Gosched()
		} else {
			time.Sleep(200 * time.Microsecond)
		}
	}
}

func payload(g, i int) []byte {
	b := make([]byte, 10)
	b[0] = 1 // SHIP data message type
	b[1] = 0x7b
	binary.BigEndian.PutUint32(b[2:6], uint32(g<<16|i))
	return b
}

const (
	capWriters = 10 * time.Second
	capCleanup = 5 * time.Second
)

// capSettle bounds every wait for an asynchronous effect.  It is generous (3 s, the effects
// take microseconds) and never expires on a tree that satisfies the properties.  On a tree
// that leaks the read pump after every write error each affected scenario would sit out the
// full cap; after a few expiries the cap is shortened so that the run still ends (the verdict
// of such a run is a violation already, found by the first expiry).
var (
	capSettle      = 3 * time.Second
	settleExpiries int
)

func noteExpiry() {
	settleExpiries++
	if settleExpiries >= 6 {
		capSettle = 300 * time.Millisecond
	}
}

func runScen(sc scen) (res result) {
	old := runtime.GOMAXPROCS(sc.Procs)
	defer runtime.GOMAXPROCS(old)
	rng := vh.NewRng(sc.rseed)

	c1, c2, perr := tcpPair()
	if perr != nil {
		res.Note = "transport: " + perr.Error()
		res.Dirty = true
		return
	}
	fc := &faultConn{Conn: c1, gate: make(chan struct{}), slowEntered: make(chan struct{}), timeoutKind: sc.TimeoutErr}
	switch sc.Kind {
	case kReadFault:
		fc.failReadAt = int64(sc.K)
	case kWriteFault, kLocalWrite:
		fc.failWriteAt = int64(sc.K)
	case kSlowFail:
		fc.slowWriteAt = int64(sc.K)
		fc.failWriteAt = int64(sc.K)
	case kFullLocal:
		fc.slowWriteAt = int64(sc.K)
	case kSlowLocal:
		fc.slowWriteAt = 1 // no write precedes the close frame: writers start once it is under way
	}
	sutConn, peer, err := wsPair(fc, c2, sc.SutServer)
	if err != nil {
		res.Note = "handshake: " + err.Error()
		res.Dirty = true
		return
	}

	// peer reader
	var wireMu sync.Mutex
	peerDone := make(chan struct{})
	go func() {
		defer close(peerDone)
		for {
			mt, b, e := peer.ReadMessage()
			if e != nil {
				return
			}
			wireMu.Lock()
			if mt == websocket.BinaryMessage && len(b) == 10 && b[0] == 1 {
				v := int(binary.BigEndian.Uint32(b[2:6]))
				res.Wire = append(res.Wire, [2]int{v >> 16, v & 0xffff})
			} else {
				res.Foreign++
			}
			wireMu.Unlock()
		}
	}()

	var hl *holdLogger
	if sc.Hold {
		hl = &holdLogger{held: make(chan struct{}), release: make(chan struct{})}
		logging.SetLogging(hl)
		defer logging.SetLogging(&logging.NoLogging{})
	}
	sut := ws.NewWebsocketConnection(sutConn, "verif")
	rd := &reader{sut: sut, react: sc.React, serial: sc.Serial}
	fc.armed.Store(true)
	sut.InitDataProcessing(rd)

	var seq, started atomic.Int64
	total := sc.Writers * sc.Per
	calls := make([]wcall, total+sc.Late)
	var wg sync.WaitGroup
	doCall := func(slot, g, i int, yr *vh.Rng) {
		c := &calls[slot]
		c.G, c.I, c.Res = g, i, 3
		if yr != nil && yr.Chance(sc.Yield) {
			for n := yr.Intn(4); n >= 0; n-- {
				runtime.Gosched()
			}
		}
		started.Add(1)
		c.Start = seq.Add(1)
		func() {
			defer func() {
				if p := recover(); p != nil {
					c.Res = 2
				}
			}()
			if sc.Serial {
				rd.wmu.Lock()
				defer rd.wmu.Unlock()
			}
			if e := sut.WriteMessageToWebsocketConnection(payload(g, i)); e != nil {
				c.Res = 1
			} else {
				c.Res = 0
			}
		}()
		c.End = seq.Add(1)
	}
	startCh := make(chan struct{})
	localOver := make(chan struct{}) // closed when CloseDataConnection has returned
	var localOnce sync.Once
	for g := 0; g < sc.Writers; g++ {
		wg.Add(1)
		yr := rng.Fork()
		go func(g int) {
			defer wg.Done()
			<-startCh
			if sc.Kind == kSlowLocal {
				select {
				case <-fc.slowEntered:
				case <-localOver:
				}
			}
			if hl != nil {
				// write only once the read pump is parked with a message in hand ...
				select {
				case <-hl.held:
				case <-time.After(capSettle):
				}
			}
			for i := 0; i < sc.Per; i++ {
				doCall(g*sc.Per+i, g, i, yr)
			}
		}(g)
	}

	// incoming traffic from the peer (its own goroutine: net.Pipe writes are synchronous)
	var peerWr sync.Mutex
	inDone := make(chan struct{})
	go func() {
		defer close(inDone)
		<-startCh
		for i := 0; i < sc.Incoming; i++ {
			peerWr.Lock()
			_ = peer.SetWriteDeadline(time.Now().Add(2 * time.Second))
			e := peer.WriteMessage(websocket.BinaryMessage, payload(0x7fff, i))
			peerWr.Unlock()
			if e != nil {
				return
			}
		}
	}()

	localClose := func() {
		reason := ""
		if sc.Reason {
			reason = "close"
		}
		res.LocalDone = true
		sut.CloseDataConnection(4001, reason)
		localOnce.Do(func() { close(localOver) })
	}
	peerEvent := func(kind string) {
		res.PeerEvent = true
		switch kind {
		case kPeerClose, kLocalPeer:
			_ = peer.WriteControl(websocket.CloseMessage, websocket.FormatCloseMessage(sc.Code, ""), time.Now().Add(2*time.Second))
		case kEof, kLocalEof:
			_ = c2.Close()
		case kBadFrame:
			peerWr.Lock()
			_ = peer.SetWriteDeadline(time.Now().Add(2 * time.Second))
			if sc.Code%2 == 0 {
				_ = peer.WriteMessage(websocket.TextMessage, []byte("text frame"))
			} else {
				_ = peer.WriteMessage(websocket.BinaryMessage, []byte{1})
			}
			peerWr.Unlock()
		}
	}

	wdone := make(chan struct{})
	go func() { wg.Wait(); close(wdone) }()
	close(startCh)
	if hl != nil {
		// ... and let it go on when the write pump has reported the failure
		go func() {
			poll(capSettle, func() bool {
				rd.mu.Lock()
				defer rd.mu.Unlock()
				for _, e := range rd.events {
					if e != 0 {
						return true
					}
				}
				return false
			})
			close(hl.release)
		}()
	}
	ctlDone := make(chan struct{})
	go func() {
		defer close(ctlDone)
		at := int64(sc.At)
		if at > int64(total) {
			at = int64(total)
		}
		if sc.Kind != kSlowFail && sc.Kind != kFullLocal && sc.Kind != kSlowLocal {
			poll(capWriters, func() bool { return started.Load() >= at })
		}
		switch sc.Kind {
		case kSlowLocal:
			// the close frame (if any: reason) is being written slowly and the write mutex is
			// held; calls made now queue behind it; the pump, if it still takes them, waits for
			// the write mutex (long enough for the mutex to hand over directly); then let go
			d := make(chan struct{})
			go func() { localClose(); close(d) }()
			poll(capSettle, func() bool {
				select {
				case <-fc.slowEntered:
					return true
				case <-d:
					return true
				default:
					return false
				}
			})
			poll(capSettle, func() bool {
				select {
				case <-wdone:
					return true
				default:
					return false
				}
			})
			time.Sleep(3 * time.Millisecond) // a scheduling nudge only: no observation depends on it
			close(fc.gate)
			<-d
		case kLocal:
			localClose()
		case kPeerClose, kEof, kBadFrame:
			peerEvent(sc.Kind)
		case kLocalPeer, kLocalEof:
			d := make(chan struct{})
			go func() { peerEvent(sc.Kind); close(d) }()
			localClose()
			<-d
		case kLocalWrite:
			localClose()
		case kSlowFail, kFullLocal:
			// let the pump enter the slow write, then let writers pile up behind it: one
			// message in the pump, one in the queue, one writer blocked on the send
			want := int64(sc.K + 2)
			if want > int64(total) {
				want = int64(total)
			}
			entered := false
			poll(capWriters, func() bool {
				select {
				case <-fc.slowEntered:
					entered = true
					return true
				case <-wdone:
					return true // every writer is back and the slow write was never reached
				default:
					return false
				}
			})
			if entered {
				poll(capSettle, func() bool { return started.Load() >= want })
				for n := 0; n < 20; n++ {
					runtime.Gosched()
				}
			}
			if sc.Kind == kFullLocal {
				d := make(chan struct{})
				go func() { localClose(); close(d) }()
				for n := 0; n < 20; n++ {
					runtime.Gosched()
				}
				close(fc.gate)
				<-d
			} else {
				close(fc.gate)
			}
		}
	}()

	// writers must come back
	select {
	case <-wdone:
	case <-time.After(capWriters):
		res.Note += "writers did not return;"
	}
	select {
	case <-ctlDone:
	case <-time.After(capWriters):
		res.Note += "controller did not return;"
	}
	select {
	case <-fc.gate:
	default:
		close(fc.gate)
	}

	// settle: either the connection gets marked closed, or all traffic has drained.  After
	// disarm() the answer to "was a fault injected" is final.
	nOK0 := 0
	for i := 0; i < total; i++ {
		if calls[i].Start != 0 && calls[i].Res == 0 {
			nOK0++
		}
	}
	isClosed := func() bool { c, _ := sut.IsDataConnectionClosed(); return c }
	drained := func() bool {
		wireMu.Lock()
		nw := len(res.Wire)
		wireMu.Unlock()
		rd.mu.Lock()
		nd := len(rd.delivered)
		rd.mu.Unlock()
		return nw >= nOK0 && nd >= sc.Incoming
	}
	poll(capSettle, func() bool { return isClosed() || drained() })
	if fc.disarm() || res.LocalDone || res.PeerEvent {
		poll(capSettle, isClosed)
	}
	if isClosed() {
		res.ClosedSeq = seq.Add(1)
		var lw sync.WaitGroup
		for j := 0; j < sc.Late; j++ {
			lw.Add(1)
			go func(j int) {
				defer lw.Done()
				doCall(total+j, 0x7000+j, 0, nil)
			}(j)
		}
		ld := make(chan struct{})
		go func() { lw.Wait(); close(ld) }()
		select {
		case <-ld:
		case <-time.After(capWriters):
			res.Note += "late writers did not return;"
		}
	}
	calls = calls[:total+sc.Late]
	res.Closed, _ = sut.IsDataConnectionClosed()
	if res.Closed {
		if !poll(capSettle, func() bool { return wsGoroutines() == 0 && fc.closeCalls.Load() > 0 }) {
			noteExpiry()
		}
	}
	var cerr error
	res.Closed, cerr = sut.IsDataConnectionClosed()
	res.ClosedErr = cerr != nil
	res.ConnClose = fc.closeCalls.Load() > 0
	res.Exited = wsGoroutines() == 0
	res.FaultHit = fc.wasHit()
	rd.mu.Lock()
	res.Events = append([]int(nil), rd.events...)
	res.Delivered = append([]int(nil), rd.delivered...)
	rd.mu.Unlock()
	wireMu.Lock()
	nWire := len(res.Wire)
	wireMu.Unlock()

	// cleanup: tear the transport down and wait for everything to unwind
	_ = c2.Close()
	_ = c1.Close()
	select {
	case <-peerDone:
	case <-time.After(capCleanup):
		res.Dirty = true
	}
	select {
	case <-inDone:
	case <-time.After(capCleanup):
		res.Dirty = true
	}
	if !poll(capCleanup, func() bool { return wsGoroutines() == 0 }) {
		res.Dirty = true
	}
	for i := range calls {
		if calls[i].Start == 0 { // never started (late writers skipped)
			continue
		}
		res.Calls = append(res.Calls, calls[i])
	}
	if !res.Closed {
		// frames that arrived only during the teardown do not count for an open connection
		res.Wire = res.Wire[:nWire]
	}
	return
}
