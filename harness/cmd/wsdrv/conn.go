package main

import (
	"bufio"
	"errors"
	"net"
	"net/http"
	"net/url"
	"sync"
	"sync/atomic"
	"time"

	"github.com/gorilla/websocket"
)

// faultConn wraps the SUT's end of an in-process net.Pipe.  Faults are armed after the
// websocket handshake; operations are counted from that moment.
type faultConn struct {
	net.Conn
	armed atomic.Bool

	reads, writes atomic.Int64 // operations since arming (1-based index of the current op)

	failReadAt  int64 // k-th Read returns an injected error (0 = never)
	failWriteAt int64 // k-th Write and every later Write returns an injected error
	timeoutKind bool  // the injected write error is a net.Error with Timeout() true (write deadline exceeded)
	slowWriteAt int64 // k-th Write first waits for gate
	gate        chan struct{}
	slowEntered chan struct{} // closed when the slow Write is waiting at the gate
	slowOnce    sync.Once

	closeCalls atomic.Int64

	mu       sync.Mutex // guards the fault decision against disarm()
	disarmed bool
	faultHit bool // an injected read/write fault was actually returned
}

// decide reports whether the fault planned for this operation is injected; once disarm()
// has returned, the answer "was a fault ever injected" is final.
func (f *faultConn) decide(hit bool) bool {
	if !hit {
		return false
	}
	f.mu.Lock()
	defer f.mu.Unlock()
	if f.disarmed {
		return false
	}
	f.faultHit = true
	return true
}

func (f *faultConn) disarm() (hit bool) {
	f.mu.Lock()
	defer f.mu.Unlock()
	f.disarmed = true
	return f.faultHit
}

func (f *faultConn) wasHit() bool {
	f.mu.Lock()
	defer f.mu.Unlock()
	return f.faultHit
}

var errInjectedRead = errors.New("injected read fault")
var errInjectedWrite = errors.New("injected write fault")

// what a write returns when the peer has not drained the socket for the write deadline
type timeoutErr struct{}

func (timeoutErr) Error() string   { return "injected write fault: i/o timeout" }
func (timeoutErr) Timeout() bool   { return true }
func (timeoutErr) Temporary() bool { return true }

func (f *faultConn) Read(b []byte) (int, error) {
	if f.armed.Load() {
		k := f.reads.Add(1)
		if f.decide(f.failReadAt != 0 && k >= f.failReadAt) {
			return 0, errInjectedRead
		}
	}
	return f.Conn.Read(b)
}

func (f *faultConn) Write(b []byte) (int, error) {
	if f.armed.Load() {
		k := f.writes.Add(1)
		if f.slowWriteAt != 0 && k == f.slowWriteAt {
			f.slowOnce.Do(func() { close(f.slowEntered) })
			<-f.gate
		}
		if f.decide(f.failWriteAt != 0 && k >= f.failWriteAt) {
			if f.timeoutKind {
				return 0, &net.OpError{Op: "write", Net: "pipe", Err: timeoutErr{}}
			}
			return 0, errInjectedWrite
		}
	}
	return f.Conn.Write(b)
}

func (f *faultConn) Close() error {
	f.closeCalls.Add(1)
	return f.Conn.Close()
}

// hijackRW lets gorilla's Upgrader run over a bare net.Conn.
type hijackRW struct {
	c   net.Conn
	brw *bufio.ReadWriter
	h   http.Header
}

func (h *hijackRW) Header() http.Header         { return h.h }
func (h *hijackRW) Write(b []byte) (int, error) { return h.brw.Write(b) }
func (h *hijackRW) WriteHeader(int)             {}
func (h *hijackRW) Hijack() (net.Conn, *bufio.ReadWriter, error) {
	return h.c, h.brw, nil
}

var (
	lnOnce sync.Once
	ln     net.Listener
)

// tcpPair returns the two ends of a fresh loopback TCP connection (kernel buffering, as on
// a real link; net.Pipe's rendezvous semantics would couple the two directions).
func tcpPair() (a, b net.Conn, err error) {
	lnOnce.Do(func() { ln, err = net.Listen("tcp", "127.0.0.1:0") })
	if ln == nil {
		return nil, nil, errors.New("no loopback listener")
	}
	type acc struct {
		c   net.Conn
		err error
	}
	ch := make(chan acc, 1)
	go func() { c, e := ln.Accept(); ch <- acc{c, e} }()
	a, err = net.DialTimeout("tcp", ln.Addr().String(), 5*time.Second)
	if err != nil {
		return nil, nil, err
	}
	r := <-ch
	if r.err != nil {
		a.Close()
		return nil, nil, r.err
	}
	return a, r.c, nil
}

// wsPair builds a real gorilla websocket pair over that transport: sut (wrapped in fc) and peer.
// sutIsServer chooses which side ran Upgrade.
func wsPair(fc *faultConn, peerEnd net.Conn, sutIsServer bool) (sut, peer *websocket.Conn, err error) {
	_ = fc.Conn.SetDeadline(time.Now().Add(10 * time.Second))
	_ = peerEnd.SetDeadline(time.Now().Add(10 * time.Second))
	var srvEnd, cliEnd net.Conn = peerEnd, fc
	if sutIsServer {
		srvEnd, cliEnd = fc, peerEnd
	}
	type res struct {
		c   *websocket.Conn
		err error
	}
	sch := make(chan res, 1)
	go func() {
		br := bufio.NewReader(srvEnd)
		req, e := http.ReadRequest(br)
		if e != nil {
			sch <- res{nil, e}
			return
		}
		up := websocket.Upgrader{CheckOrigin: func(*http.Request) bool { return true }}
		rw := &hijackRW{c: srvEnd, brw: bufio.NewReadWriter(br, bufio.NewWriter(srvEnd)), h: http.Header{}}
		c, e := up.Upgrade(rw, req, nil)
		sch <- res{c, e}
	}()
	u, _ := url.Parse("ws://verif.local/ship/")
	//lint:ignore SA1019 NewClient is the only way to run the client handshake over an existing net.Conn
	cli, _, e := websocket.NewClient(cliEnd, u, nil, 1024, 1024)
	sr := <-sch
	if e != nil {
		return nil, nil, e
	}
	if sr.err != nil {
		return nil, nil, sr.err
	}
	_ = fc.Conn.SetDeadline(time.Time{})
	_ = peerEnd.SetDeadline(time.Time{})
	if sutIsServer {
		return sr.c, cli, nil
	}
	return cli, sr.c, nil
}
