// wsdrv drives the real ws.WebsocketConnection over a real gorilla websocket pair built on
// an in-process fault-injecting net.Conn (net.Pipe), for properties C12 (writes racing the
// closure) and C13 (transport loss is reported, everything is released).
//
// Scenarios run in a child process (the same binary, -child): a panic on one of the
// library's own goroutines kills the child, the parent records the scenario as crashed and
// carries on with the next one.
package main

import (
	"bufio"
	"encoding/json"
	"flag"
	"fmt"
	"os"
	"os/exec"
	"strconv"
	"strings"
	"time"

	"verif/harness/internal/vh"
)

var (
	prop  = flag.String("prop", "", "C12 or C13")
	seed  = flag.Uint64("seed", 1, "PRNG seed")
	n     = flag.Int("n", 200, "number of scenarios")
	out   = flag.String("out", "", "output JSONL")
	child = flag.Bool("child", false, "internal: run scenarios [from,n) and print results")
	from  = flag.Int("from", 0, "internal: first scenario of the child")
	show  = flag.Int("show", -1, "debug: run one scenario in-process and print it")
	until = flag.Int64("until", 0, "internal: unix time after which the child stops starting scenarios")
	wall  = flag.Int("wall", 0, "stop starting new scenarios after this many seconds (0: 70 s for n<=2000, else 900 s)")
)

func main() {
	flag.Parse()
	if *prop != "C12" && *prop != "C13" {
		fmt.Fprintln(os.Stderr, "need -prop C12|C13")
		os.Exit(2)
	}
	if *show >= 0 {
		sc := genScen(*prop, *seed, *show)
		r := runScen(sc)
		b, _ := json.Marshal(map[string]any{"scen": sc, "res": r})
		fmt.Println(string(b))
		return
	}
	if *child {
		runChild()
		return
	}
	if *out == "" {
		fmt.Fprintln(os.Stderr, "need -out")
		os.Exit(2)
	}
	os.Exit(runParent())
}

func runChild() {
	w := bufio.NewWriter(os.Stdout)
	for i := *from; i < *n; i++ {
		if *until != 0 && time.Now().Unix() > *until {
			fmt.Fprintf(w, "S %d\n", i)
			w.Flush()
			return
		}
		sc := genScen(*prop, *seed, i)
		fmt.Fprintf(w, "B %d\n", i)
		w.Flush()
		r := runScen(sc)
		b, _ := json.Marshal(r)
		fmt.Fprintf(w, "R %d %s\n", i, b)
		w.Flush()
		if r.Dirty {
			// goroutines of the library are still around: start over in a fresh process
			os.Exit(3)
		}
	}
}

func runParent() int {
	w := vh.NewWriter(*out)
	defer w.Close()
	self, err := os.Executable()
	if err != nil {
		fmt.Fprintln(os.Stderr, err)
		return 2
	}
	next := 0
	restarts := 0
	t0 := time.Now()
	budget := *wall
	if budget == 0 {
		budget = 70
		if *n > 2000 {
			budget = 900
		}
	}
	deadline := t0.Add(time.Duration(budget) * time.Second).Unix()
	stopped := false
	for next < *n && !stopped {
		cmd := exec.Command(self, "-child", "-prop", *prop, "-seed", strconv.FormatUint(*seed, 10),
			"-n", strconv.Itoa(*n), "-from", strconv.Itoa(next), "-until", strconv.FormatInt(deadline, 10))
		cmd.Stderr = nil
		po, err := cmd.StdoutPipe()
		if err != nil {
			fmt.Fprintln(os.Stderr, err)
			return 2
		}
		if err := cmd.Start(); err != nil {
			fmt.Fprintln(os.Stderr, err)
			return 2
		}
		sc := bufio.NewScanner(po)
		sc.Buffer(make([]byte, 1<<20), 1<<26)
		inflight := -1
		for sc.Scan() {
			line := sc.Text()
			switch {
			case strings.HasPrefix(line, "B "):
				inflight, _ = strconv.Atoi(line[2:])
			case strings.HasPrefix(line, "S "):
				stopped = true
			case strings.HasPrefix(line, "R "):
				rest := line[2:]
				sp := strings.IndexByte(rest, ' ')
				idx, _ := strconv.Atoi(rest[:sp])
				var r result
				if err := json.Unmarshal([]byte(rest[sp+1:]), &r); err != nil {
					fmt.Fprintln(os.Stderr, "bad child line:", err)
					return 2
				}
				emit(w, genScen(*prop, *seed, idx), r)
				inflight = -1
				next = idx + 1
			}
		}
		_ = cmd.Wait()
		if inflight >= 0 {
			// the child died inside scenario `inflight`: a panic on a goroutine we do not own
			emit(w, genScen(*prop, *seed, inflight), result{Crash: true, Note: "child process died"})
			next = inflight + 1
		}
		restarts++
		if restarts > *n+5 {
			fmt.Fprintln(os.Stderr, "too many child restarts")
			return 2
		}
	}
	if stopped {
		fmt.Printf("wsdrv %s: stopped after %d of %d scenarios: wall budget of %d s used up\n", *prop, w.Count(), *n, budget)
	}
	fmt.Printf("wsdrv %s: %d scenarios, %d child processes, %.1fs\n", *prop, w.Count(), restarts, time.Since(t0).Seconds())
	return 0
}

// ---- scenario generation: a pure function of (prop, seed, idx) ----
func genScen(prop string, seed uint64, idx int) scen {
	r := vh.NewRng(seed*1000003 + uint64(idx)*7919 + 17)
	sc := scen{Idx: idx, Prop: prop, Procs: vh.Pick(r, []int{1, 2, 4, 16}), Yield: vh.Pick(r, []int{0, 20, 60}),
		SutServer: r.Bool(), React: r.Chance(60), Reason: r.Bool(), Code: 1000, rseed: r.Next()}
	sc.Serial = r.Chance(25)
	sc.TimeoutErr = r.Chance(35)
	// fixed witnesses first, independent of the seed
	if w := witnesses(prop); idx < len(w) {
		s := w[idx]
		s.Idx, s.Prop, s.rseed = idx, prop, 42
		return s
	}
	codes := []int{1000, 1001, 1002, 1003, 1007, 1008, 1009, 1011, 3000, 4000, 4001, 4452, 4999}
	if prop == "C12" {
		sc.Writers = 1 + r.Intn(32)
		if r.Chance(50) {
			sc.Writers = 1 + r.Intn(4)
		}
		sc.Per = 1 + r.Intn(4)
		sc.Late = r.Intn(4)
		sc.Incoming = 0
		if r.Chance(25) {
			sc.Incoming = r.Intn(5)
		}
		total := sc.Writers * sc.Per
		sc.At = r.Intn(total + 1)
		sc.K = 1 + r.Intn(total)
		if r.Chance(50) {
			sc.K = 1 + r.Intn(3)
		}
		if sc.K > total {
			sc.K = total
		}
		sc.Code = vh.Pick(r, codes)
		p := r.Intn(100)
		switch {
		case p < 6:
			sc.Kind = kNone
		case p < 26:
			sc.Kind = kLocal
		case p < 36:
			sc.Kind = kPeerClose
		case p < 46:
			sc.Kind = kEof
		case p < 60:
			sc.Kind = kWriteFault
		case p < 74:
			sc.Kind = kSlowFail
		case p < 84:
			sc.Kind = kFullLocal
		case p < 88:
			sc.Kind = kLocalPeer
		case p < 93:
			sc.Kind = kLocalWrite
		case p < 96:
			sc.Kind = kLocalEof
		default:
			sc.Kind = kSlowLocal
			sc.Reason = r.Chance(80)
		}
		return sc
	}
	// C13
	sc.Writers = r.Intn(4)
	sc.Per = 1 + r.Intn(4)
	sc.Incoming = r.Intn(8)
	sc.Late = r.Intn(2)
	total := sc.Writers * sc.Per
	sc.At = r.Intn(total + 1)
	sc.K = 1 + r.Intn(12)
	sc.Code = vh.Pick(r, codes)
	if r.Chance(30) {
		sc.Code = 1000 + r.Intn(4000)
	}
	p := r.Intn(100)
	fixK := func(max int) {
		// mostly a fault that is reached within the session, sometimes one beyond its end
		if !r.Chance(8) && sc.K > max {
			sc.K = 1 + r.Intn(max)
		}
	}
	switch {
	case p < 4:
		sc.Kind = kNone
	case p < 24:
		sc.Kind = kReadFault
		fixK(sc.Incoming + 1)
	case p < 44:
		sc.Kind = kWriteFault
		if total == 0 {
			sc.Writers, sc.Per = 1+r.Intn(3), 1+r.Intn(4)
		}
		fixK(sc.Writers * sc.Per)
	case p < 58:
		sc.Kind = kPeerClose
	case p < 66:
		sc.Kind = kEof
	case p < 72:
		sc.Kind = kBadFrame
	case p < 84:
		sc.Kind = kLocal
	case p < 88:
		sc.Kind = kSlowFail
		if total == 0 {
			sc.Writers, sc.Per = 1+r.Intn(3), 1+r.Intn(4)
		}
		fixK(sc.Writers * sc.Per)
	case p < 91:
		sc.Kind = kLocalPeer
	case p < 94:
		sc.Kind = kLocalWrite
	case p < 97:
		sc.Kind = kLocalEof
	default:
		sc.Kind = kSlowLocal
		sc.Reason = r.Chance(80)
		if total == 0 {
			sc.Writers, sc.Per = 1+r.Intn(3), 1+r.Intn(2)
		}
	}
	return sc
}

// deterministic witness scenarios of the defects found on the pinned tree
func witnesses(prop string) []scen {
	if prop == "C12" {
		return []scen{
			// one message in the pump (slow, then failing write), one queued, one writer blocked on the send
			{Kind: kSlowFail, Writers: 3, Per: 1, K: 1, At: 0, Procs: 4, Late: 1, Witness: "blocked_sender_when_pump_exits"},
			{Kind: kSlowFail, Writers: 3, Per: 1, K: 1, At: 0, Procs: 1, React: true, Late: 1, Witness: "blocked_sender_when_pump_exits"},
			{Kind: kSlowFail, Writers: 8, Per: 2, K: 2, At: 0, Procs: 4, React: true, Late: 2, Witness: "blocked_sender_when_pump_exits"},
			{Kind: kSlowFail, Writers: 3, Per: 1, K: 1, At: 0, Procs: 2, React: true, Late: 1, Serial: true, Witness: "error_report_waits_for_a_blocked_writer"},
			{Kind: kSlowFail, Writers: 4, Per: 2, K: 2, At: 0, Procs: 4, React: true, Serial: true, Witness: "error_report_waits_for_a_blocked_writer"},
			{Kind: kFullLocal, Writers: 3, Per: 1, K: 1, At: 0, Procs: 4, Late: 1, Witness: "blocked_sender_local_close"},
			{Kind: kFullLocal, Writers: 4, Per: 2, K: 1, At: 0, Procs: 2, Reason: true, Late: 1, Witness: "blocked_sender_local_close"},
		}
	}
	return []scen{
		// a failing write: the connection is marked closed before close() runs
		{Kind: kWriteFault, Writers: 1, Per: 1, K: 1, At: 0, Procs: 4, React: true, Witness: "write_error_never_closes_transport"},
		{Kind: kWriteFault, Writers: 1, Per: 2, K: 2, At: 0, Procs: 2, React: true, Incoming: 1, TimeoutErr: true, Witness: "write_error_never_closes_transport"},
		{Kind: kWriteFault, Writers: 1, Per: 3, K: 2, At: 0, Procs: 4, React: false, Incoming: 2, Witness: "write_error_never_closes_transport"},
		{Kind: kWriteFault, Writers: 2, Per: 2, K: 3, At: 0, Procs: 1, React: true, Incoming: 1, Witness: "write_error_never_closes_transport"},
		{Kind: kSlowFail, Writers: 1, Per: 1, K: 1, At: 0, Procs: 4, React: true, Witness: "write_error_never_closes_transport"},
		// a deliberate local close with a reason while messages are being written
		{Kind: kFullLocal, Writers: 3, Per: 1, K: 1, At: 0, Procs: 4, Reason: true, Witness: "local_close_reported_as_error"},
		{Kind: kFullLocal, Writers: 3, Per: 2, K: 2, At: 0, Procs: 2, Reason: false, React: true, Witness: "local_close_reported_as_error"},
		// known finding: the read pump has a message past its closed-check when the write pump reports
		{Kind: kWriteFault, Writers: 1, Per: 1, K: 1, At: 0, Procs: 4, Incoming: 1, Hold: true, Witness: "inflight_delivery_after_report"},
		{Kind: kWriteFault, Writers: 1, Per: 1, K: 1, At: 0, Procs: 1, Incoming: 1, Hold: true, React: true, Witness: "inflight_delivery_after_report"},
	}
}

// ---- case emission ----
func emit(w *vh.Writer, sc scen, r result) {
	u16 := func(b []byte, v int64) []byte { return append(b, byte(v>>8), byte(v)) }
	var calls, wire, evs, del []byte
	for _, c := range r.Calls {
		calls = u16(calls, int64(c.G))
		calls = u16(calls, int64(c.I))
		calls = u16(calls, c.Start)
		calls = u16(calls, c.End)
		calls = append(calls, byte(c.Res))
	}
	for _, f := range r.Wire {
		wire = u16(wire, int64(f[0]))
		wire = u16(wire, int64(f[1]))
	}
	for _, e := range r.Events {
		evs = append(evs, byte(e))
	}
	for _, d := range r.Delivered {
		if d < 0 {
			d = 0xffff
		}
		del = u16(del, int64(d&0xffff))
	}
	coq := fmt.Sprintf("mkCaseS %s %s %s %s %s %d %s %d %s %d %s %s %s %s %s %s %s %s %s %s",
		sc.Kind, vh.B(sc.Reason), vh.B(sc.React), vh.B(sc.Writers*sc.Per+sc.Late > 0), vh.B(sc.Incoming > 0), sc.Incoming,
		vh.Hx(calls), r.ClosedSeq, vh.Hx(wire), r.Foreign, vh.Hx(evs), vh.Hx(del),
		vh.B(r.Closed), vh.B(r.ClosedErr), vh.B(r.ConnClose), vh.B(r.Exited),
		vh.B(r.LocalDone), vh.B(r.PeerEvent), vh.B(r.FaultHit), vh.B(r.Crash))
	inflight := false
	for _, c := range r.Calls {
		if r.ClosedSeq == 0 || c.Start < r.ClosedSeq {
			inflight = true
		}
	}
	closingHappened := r.LocalDone || r.PeerEvent || r.FaultHit || r.Crash
	nontrivial := closingHappened
	if sc.Prop == "C12" {
		nontrivial = closingHappened && inflight
	}
	key := fmt.Sprintf("%s|%v|%v|%d|%d|%d|%d|%d|%d|%d|%d|%v|%v", sc.Kind, sc.Reason, sc.React, sc.Code, sc.Writers, sc.Per,
		sc.Incoming, sc.At, sc.K, sc.Late, sc.Procs, sc.SutServer, sc.Serial) + fmt.Sprint("|", sc.TimeoutErr)
	kind := sc.Kind
	if sc.Witness != "" {
		kind = "witness:" + sc.Witness
	}
	w.Put(vh.Case{Coq: coq, Nontrivial: nontrivial, Key: key, Kind: kind,
		Sample: map[string]any{"scenario": sc, "observed": r}})
}
