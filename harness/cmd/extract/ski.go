package main

import (
	"fmt"
	"go/ast"
	"go/token"
	"strconv"
	"strings"
)

// genSkiTable: util.NormalizeSKI's stripped characters / lower-casing, and for each hub
// entry point whether the SKI argument is normalised before it is used as a lookup key.
func genSkiTable() {
	util := parseDir("util")
	fd := util.funcDecl("", "NormalizeSKI")
	if fd == nil {
		fatal("util.NormalizeSKI not found")
	}
	var stripped []int
	lower := false
	other := false
	ast.Inspect(fd.Body, func(n ast.Node) bool {
		ce, ok := n.(*ast.CallExpr)
		if !ok {
			return true
		}
		sel, ok := ce.Fun.(*ast.SelectorExpr)
		if !ok {
			return true
		}
		pk, _ := sel.X.(*ast.Ident)
		if pk == nil || pk.Name != "strings" {
			return true
		}
		switch sel.Sel.Name {
		case "ReplaceAll":
			if len(ce.Args) == 3 {
				a, ok1 := ce.Args[1].(*ast.BasicLit)
				b, ok2 := ce.Args[2].(*ast.BasicLit)
				if ok1 && ok2 && a.Kind == token.STRING && b.Kind == token.STRING {
					from, _ := strconv.Unquote(a.Value)
					to, _ := strconv.Unquote(b.Value)
					if len(from) == 1 && to == "" {
						stripped = append(stripped, int(from[0]))
						return true
					}
				}
			}
			other = true
		case "ToLower":
			lower = true
		default:
			other = true
		}
		return true
	})
	var sb strings.Builder
	sb.WriteString("(* generated from /repo/util/helper.go and /repo/hub/*.go by harness/cmd/extract — do not edit *)\n")
	sb.WriteString("From Coq Require Import List NArith Bool.\nImport ListNotations.\nOpen Scope N_scope.\n\n")
	sb.WriteString("Definition stripped_chars : list N := [")
	for i, c := range stripped {
		if i > 0 {
			sb.WriteString("; ")
		}
		fmt.Fprintf(&sb, "%d", c)
	}
	sb.WriteString("].\n")
	fmt.Fprintf(&sb, "Definition lowercases : bool := %v.\n", lower)
	fmt.Fprintf(&sb, "(* NormalizeSKI contains a string operation the translator does not understand *)\n")
	fmt.Fprintf(&sb, "Definition normalize_unknown_ops : bool := %v.\n\n", other)

	hub := parseDir("hub")
	entry := []string{"PairingDetailForSki", "RegisterRemoteSKI", "UnregisterRemoteSKI", "DisconnectSKI", "CancelPairingWithSKI", "ServiceForSKI"}
	sb.WriteString("(* 0 PairingDetailForSki 1 RegisterRemoteSKI 2 UnregisterRemoteSKI 3 DisconnectSKI 4 CancelPairingWithSKI 5 ServiceForSKI *)\n")
	sb.WriteString("Definition norm_first (f : N) : bool :=\n  match f with\n")
	for i, name := range entry {
		f := hub.funcDecl("Hub", name)
		if f == nil {
			fatal("hub entry point not found:", name)
		}
		fmt.Fprintf(&sb, "  | %d => %v\n", i, normalisesFirst(f))
	}
	sb.WriteString("  | _ => false\n  end.\n")
	writeIfChanged("SkiTable.v", sb.String())
}

// callees that normalise the SKI themselves, so passing the raw string is harmless
var normalisingCallees = map[string]bool{"ServiceForSKI": true, "NormalizeSKI": true, "IsRemoteServiceForSKIPaired": true, "NewServiceDetails": true}

// normalisesFirst: true iff every use of the first parameter before the assignment
// `p = util.NormalizeSKI(p)` is as an argument of a callee that normalises itself, and
// that assignment exists whenever some other use follows.
func normalisesFirst(f *ast.FuncDecl) bool {
	if f.Type.Params == nil || len(f.Type.Params.List) == 0 || len(f.Type.Params.List[0].Names) == 0 {
		return false
	}
	p := f.Type.Params.List[0].Names[0].Name
	normalised := false
	ok := true
	for _, st := range f.Body.List {
		if as, isAs := st.(*ast.AssignStmt); isAs && len(as.Lhs) == 1 && len(as.Rhs) == 1 {
			if id, isId := as.Lhs[0].(*ast.Ident); isId && id.Name == p && as.Tok == token.ASSIGN {
				if ce, isCall := as.Rhs[0].(*ast.CallExpr); isCall && calleeName(ce) == "NormalizeSKI" && len(ce.Args) == 1 {
					if a, isA := ce.Args[0].(*ast.Ident); isA && a.Name == p {
						normalised = true
						continue
					}
				}
				// reassigned from something else: unknown
				ok = false
			}
		}
		if normalised {
			continue
		}
		// any raw use?
		if rawUse(st, p) {
			ok = false
		}
	}
	return ok
}

func calleeName(ce *ast.CallExpr) string {
	switch f := ce.Fun.(type) {
	case *ast.Ident:
		return f.Name
	case *ast.SelectorExpr:
		return f.Sel.Name
	}
	return ""
}

// rawUse reports whether identifier p occurs in st outside the argument list of a
// self-normalising callee.
func rawUse(st ast.Node, p string) bool {
	found := false
	var walk func(n ast.Node, safe bool)
	walk = func(n ast.Node, safe bool) {
		if n == nil || found {
			return
		}
		switch x := n.(type) {
		case *ast.Ident:
			if x.Name == p && !safe {
				found = true
			}
			return
		case *ast.CallExpr:
			walk(x.Fun, safe)
			s := normalisingCallees[calleeName(x)]
			for _, a := range x.Args {
				if id, ok := a.(*ast.Ident); ok {
					if id.Name == p && !s {
						found = true
					}
					continue
				}
				walk(a, false)
			}
			return
		case *ast.SelectorExpr:
			walk(x.X, safe)
			return
		}
		ast.Inspect(n, func(c ast.Node) bool {
			if c == n || c == nil {
				return true
			}
			walk(c, false)
			return false
		})
	}
	walk(st, false)
	return found
}
