package main

import (
	"fmt"
	"go/ast"
	"go/token"
	"strconv"
	"strings"
)

// genEebusTable: the textual EEBUS->JSON conversion of ship/helper.go as a table.
//
//   - eebus_pairs:      the (old, new) byte strings of every bytes.ReplaceAll call reachable from
//     JsonFromEEBUSJson (the function itself and the package-level helpers it calls), in
//     source order, i.e. the order in which the passes are applied;
//   - eebus_trim_cutset: the cutset of the bytes.Trim call;
//   - eebus_strip_open / eebus_strip_close: the literals of strings.TrimPrefix / TrimSuffix in
//     JsonIntoEEBUSJson (the "first item being put into an array" fix-up);
//   - eebus_scans_strings: whether JsonFromEEBUSJson looks at '"' at all (true once the
//     replacements are restricted to the text outside string literals);
//   - eebus_unknown_ops: a bytes./strings. call in these functions that the translator does
//     not understand.  The model's side condition (Eebus.table_ok) requires false.
func init() { extraGens = append(extraGens, genEebusTable) }

func byteSliceLit(e ast.Expr) ([]byte, bool) {
	// []byte("lit")
	ce, ok := e.(*ast.CallExpr)
	if ok && len(ce.Args) == 1 {
		if at, ok := ce.Fun.(*ast.ArrayType); ok && at.Len == nil {
			if id, ok := at.Elt.(*ast.Ident); ok && id.Name == "byte" {
				return stringLit(ce.Args[0])
			}
		}
	}
	return nil, false
}

func stringLit(e ast.Expr) ([]byte, bool) {
	switch x := e.(type) {
	case *ast.BasicLit:
		if x.Kind == token.STRING {
			s, err := strconv.Unquote(x.Value)
			if err == nil {
				return []byte(s), true
			}
		}
	case *ast.ParenExpr:
		return stringLit(x.X)
	}
	return nil, false
}

// stringConst finds a package-level `const name = "literal"` (typed or untyped).
func stringConst(p *pkgFiles, name string) ([]byte, bool) {
	for _, f := range p.files {
		for _, d := range f.Decls {
			gd, ok := d.(*ast.GenDecl)
			if !ok || gd.Tok != token.CONST {
				continue
			}
			for _, sp := range gd.Specs {
				vs := sp.(*ast.ValueSpec)
				for i, n := range vs.Names {
					if n.Name == name && i < len(vs.Values) {
						return stringLit(vs.Values[i])
					}
				}
			}
		}
	}
	return nil, false
}

func nlist(b []byte) string {
	xs := make([]string, len(b))
	for i, c := range b {
		xs[i] = strconv.Itoa(int(c))
	}
	return "[" + strings.Join(xs, "; ") + "]"
}

// safeComment renders the pair as a Coq comment when that cannot confuse Coq's lexer.
func safeComment(a, b []byte) string {
	for _, c := range append(append([]byte{}, a...), b...) {
		if c < 0x20 || c > 0x7e || c == '"' || c == '*' || c == '(' || c == ')' || c == '\\' {
			return ""
		}
	}
	return "  (* " + string(a) + " -> " + string(b) + " *)"
}

func genEebusTable() {
	ship := parseDir("ship")
	from := ship.funcDecl("", "JsonFromEEBUSJson")
	into := ship.funcDecl("", "JsonIntoEEBUSJson")
	if from == nil || into == nil {
		fatal("ship.JsonFromEEBUSJson / JsonIntoEEBUSJson not found")
	}
	type pair struct{ old, new []byte }
	var pairs []pair
	var cutset []byte
	haveTrim := false
	unknown := false
	scans := false
	seen := map[string]bool{}
	// allowed bytes.* helpers that carry no table content
	neutral := map[string]bool{"IndexByte": true}
	var walkFn func(fd *ast.FuncDecl)
	walkFn = func(fd *ast.FuncDecl) {
		if fd == nil || seen[fd.Name.Name] {
			return
		}
		seen[fd.Name.Name] = true
		ast.Inspect(fd.Body, func(n ast.Node) bool {
			switch x := n.(type) {
			case *ast.BasicLit:
				if x.Kind == token.CHAR && (x.Value == `'"'` || x.Value == `'\\'`) {
					scans = true
				}
			case *ast.CallExpr:
				switch f := x.Fun.(type) {
				case *ast.Ident:
					if callee := ship.funcDecl("", f.Name); callee != nil {
						walkFn(callee)
					}
				case *ast.SelectorExpr:
					pk, _ := f.X.(*ast.Ident)
					if pk == nil || (pk.Name != "bytes" && pk.Name != "strings") {
						return true
					}
					switch {
					case pk.Name == "bytes" && f.Sel.Name == "ReplaceAll" && len(x.Args) == 3:
						o, ok1 := byteSliceLit(x.Args[1])
						nw, ok2 := byteSliceLit(x.Args[2])
						if ok1 && ok2 {
							pairs = append(pairs, pair{o, nw})
						} else {
							unknown = true
						}
					case pk.Name == "bytes" && f.Sel.Name == "Trim" && len(x.Args) == 2 && !haveTrim:
						c, ok := stringLit(x.Args[1])
						if ok {
							cutset, haveTrim = c, true
						} else {
							unknown = true
						}
					case pk.Name == "bytes" && neutral[f.Sel.Name]:
					default:
						unknown = true
					}
				}
			}
			return true
		})
	}
	walkFn(from)

	var open, close_ []byte
	okOpen, okClose := false, false
	ast.Inspect(into.Body, func(n ast.Node) bool {
		ce, ok := n.(*ast.CallExpr)
		if !ok {
			return true
		}
		sel, ok := ce.Fun.(*ast.SelectorExpr)
		if !ok {
			return true
		}
		pk, _ := sel.X.(*ast.Ident)
		if pk == nil || pk.Name != "strings" || len(ce.Args) != 2 {
			return true
		}
		switch sel.Sel.Name {
		case "TrimPrefix":
			open, okOpen = stringLit(ce.Args[1])
		case "TrimSuffix":
			close_, okClose = stringLit(ce.Args[1])
		default:
			unknown = true
		}
		return true
	})
	if !okOpen || !okClose {
		unknown = true
	}

	var sb strings.Builder
	sb.WriteString("(* generated from /repo/ship/helper.go by harness/cmd/extract — do not edit *)\n")
	sb.WriteString("From Coq Require Import List NArith Bool.\nImport ListNotations.\nOpen Scope N_scope.\n\n")
	sb.WriteString("(* bytes.ReplaceAll passes of JsonFromEEBUSJson, in the order they are applied *)\n")
	sb.WriteString("Definition eebus_pairs : list (list N * list N) := [\n")
	for i, p := range pairs {
		sep := ";"
		if i == len(pairs)-1 {
			sep = ""
		}
		fmt.Fprintf(&sb, "  (%s, %s)%s%s\n", nlist(p.old), nlist(p.new), sep, safeComment(p.old, p.new))
	}
	sb.WriteString("].\n")
	fmt.Fprintf(&sb, "Definition eebus_trim_cutset : list N := %s.\n", nlist(cutset))
	fmt.Fprintf(&sb, "Definition eebus_strip_open : list N := %s.\n", nlist(open))
	fmt.Fprintf(&sb, "Definition eebus_strip_close : list N := %s.\n", nlist(close_))
	fmt.Fprintf(&sb, "Definition eebus_scans_strings : bool := %v.\n", scans)
	fmt.Fprintf(&sb, "Definition eebus_unknown_ops : bool := %v.\n", unknown)

	// the SHIP data envelope: the payload placeholder that transformSpineDataIntoShipJson
	// splices the SPINE payload over, the protocol id and the data message type byte
	sb.WriteString("\n(* ship/connection.go payloadPlaceholder, model.ShipProtocolId, model.MsgTypeData *)\n")
	ph, okPh := stringConst(ship, "payloadPlaceholder")
	mdl := parseDir("model")
	pid, okPid := stringConst(mdl, "ShipProtocolId")
	mt, okMt := mdl.intConsts()["MsgTypeData"]
	fmt.Fprintf(&sb, "Definition ship_payload_placeholder : list N := %s.\n", nlist(ph))
	fmt.Fprintf(&sb, "Definition ship_protocol_id : list N := %s.\n", nlist(pid))
	fmt.Fprintf(&sb, "Definition ship_msg_type_data : N := %d.\n", mt)
	fmt.Fprintf(&sb, "Definition ship_envelope_consts_found : bool := %v.\n", okPh && okPid && okMt)
	writeIfChanged("EebusTable.v", sb.String())
}
