package main

import (
	"fmt"
	"go/ast"
	"go/token"
	"strings"
)

func init() { extraGens = append(extraGens, genAvahiTable) }

// genAvahiTable reads the control structure of mdns/avahi.go that the Avahi model
// (coq/theories/Avahi.v) is parametrised by: which guards avahiCallback has, whether the
// reconnect loop re-announces the stored or the captured data, whether it re-checks the
// manual-shutdown flag under the lock it restarts under, whether Announce frees the previous
// entry group, and whether at most one reconnect loop can be in flight.
func genAvahiTable() {
	p := parseDir("mdns")
	cb := p.funcDecl("AvahiProvider", "avahiCallback")
	loop := p.funcDecl("AvahiProvider", "attemptReconnect")
	startPub := p.funcDecl("AvahiProvider", "Start")
	annPub := p.funcDecl("AvahiProvider", "Announce")
	if cb == nil || loop == nil || startPub == nil || annPub == nil {
		fatal("mdns/avahi.go: avahiCallback / attemptReconnect / Start / Announce not found")
	}
	startPriv := p.funcDecl("AvahiProvider", "start")
	annPriv := p.funcDecl("AvahiProvider", "announce")

	// ---- avahiCallback: guards that return before the loop is spawned
	goPos := token.Pos(0)
	ast.Inspect(cb.Body, func(n ast.Node) bool {
		if g, ok := n.(*ast.GoStmt); ok && goPos == 0 {
			goPos = g.Pos()
		}
		return true
	})
	if goPos == 0 {
		fatal("mdns/avahi.go: avahiCallback does not spawn a goroutine any more; the model does not apply")
	}
	guards := map[string]bool{} // "manualShutdown", "!autoReconnect", "reconnecting"
	ast.Inspect(cb.Body, func(n ast.Node) bool {
		is, ok := n.(*ast.IfStmt)
		if !ok || is.Pos() > goPos || !hasReturn(is.Body) {
			return true
		}
		for _, d := range disjuncts(is.Cond) {
			neg := false
			if u, ok := d.(*ast.UnaryExpr); ok && u.Op == token.NOT {
				neg = true
				d = u.X
			}
			if f := fieldOfA(d); f != "" {
				if neg {
					f = "!" + f
				}
				guards[f] = true
			}
		}
		return true
	})
	cbSetsReconnecting := assignsField(cb.Body, "reconnecting", "true", goPos)
	cbClearsGroup := assignsField(cb.Body, "avEntryGroup", "nil", goPos)

	// ---- attemptReconnect
	capturedParam := false
	for _, f := range loop.Type.Params.List {
		if s, ok := f.Type.(*ast.StarExpr); ok {
			if id, ok := s.X.(*ast.Ident); ok && id.Name == "mdnsServiceData" {
				capturedParam = true
			}
		}
	}
	reread := !capturedParam && mentionsField(loop.Body, "mdnsServiceData")

	callsPubStart := callsMethod(loop.Body, "Start")
	callsPrivStart := callsMethod(loop.Body, "start")
	callsPubAnnounce := callsMethod(loop.Body, "Announce")
	privStartResets := startPriv != nil && assignsField(startPriv.Body, "manualShutdown", "", token.Pos(1<<30))
	// after the sleep: Lock, if a.manualShutdown { ... return }, then start, all in the loop body
	recheck := false
	ast.Inspect(loop.Body, func(n ast.Node) bool {
		fs, ok := n.(*ast.ForStmt)
		if !ok {
			return true
		}
		stage := 0 // 0 before sleep, 1 slept, 2 locked, 3 checked
		for _, st := range fs.Body.List {
			switch stage {
			case 0:
				if isRecvStmt(st) {
					stage = 1
				}
			case 1:
				if isMuxCall(st, "Lock") {
					stage = 2
				} else if callsMethod(st, "start") || callsMethod(st, "Start") {
					return false
				}
			case 2:
				if is, ok := st.(*ast.IfStmt); ok && hasReturn(is.Body) && fieldOfA(is.Cond) == "manualShutdown" {
					stage = 3
				} else if isMuxCall(st, "Unlock") || callsMethod(st, "start") {
					return false
				}
			case 3:
				if isMuxCall(st, "Unlock") {
					return false
				}
				if callsMethod(st, "start") {
					recheck = true
					return false
				}
			}
		}
		return false
	})
	recheck = recheck && !callsPubStart && callsPrivStart && !privStartResets && !callsPubAnnounce

	// every exit of the loop clears the in-flight flag
	returns, clears := 0, 0
	ast.Inspect(loop.Body, func(n ast.Node) bool {
		switch x := n.(type) {
		case *ast.ReturnStmt:
			returns++
		case *ast.AssignStmt:
			if len(x.Lhs) == 1 && fieldOfA(x.Lhs[0]) == "reconnecting" {
				if id, ok := x.Rhs[0].(*ast.Ident); ok && id.Name == "false" {
					clears++
				}
			}
		}
		return true
	})
	single := guards["reconnecting"] && cbSetsReconnecting && clears >= returns && returns > 0

	// ---- Announce: previous group freed before the new one is created
	annBody := annPub.Body
	if annPriv != nil {
		annBody = annPriv.Body
	}
	freePos, newPos := token.Pos(0), token.Pos(0)
	ast.Inspect(annBody, func(n ast.Node) bool {
		ce, ok := n.(*ast.CallExpr)
		if !ok {
			return true
		}
		if sel, ok := ce.Fun.(*ast.SelectorExpr); ok {
			if sel.Sel.Name == "EntryGroupFree" && freePos == 0 {
				freePos = ce.Pos()
			}
			if sel.Sel.Name == "EntryGroupNew" && newPos == 0 {
				newPos = ce.Pos()
			}
		}
		return true
	})
	if newPos == 0 {
		fatal("mdns/avahi.go: Announce does not create an entry group any more; the model does not apply")
	}
	freePrev := freePos != 0 && freePos < newPos && cbClearsGroup

	var sb strings.Builder
	sb.WriteString("(* generated from /repo/mdns/avahi.go by harness/cmd/extract — do not edit *)\n")
	sb.WriteString("(* the re-announcement after a reconnect reads a.mdnsServiceData (not a copy captured at disconnect) *)\n")
	fmt.Fprintf(&sb, "Definition avahi_reread : bool := %v.\n", reread)
	sb.WriteString("(* after its sleep the loop locks, returns if manualShutdown, restarts through a function that does not clear the flag, and re-announces before unlocking *)\n")
	fmt.Fprintf(&sb, "Definition avahi_recheck : bool := %v.\n", recheck)
	sb.WriteString("(* Announce frees the previous entry group before creating a new one, and an accepted Disconnected drops the group reference *)\n")
	fmt.Fprintf(&sb, "Definition avahi_free_prev : bool := %v.\n", freePrev)
	sb.WriteString("(* avahiCallback returns while a loop is in flight, sets the flag before spawning, every return of the loop clears it *)\n")
	fmt.Fprintf(&sb, "Definition avahi_single_loop : bool := %v.\n", single)
	sb.WriteString("(* avahiCallback returns early on a.manualShutdown / on !a.autoReconnect *)\n")
	fmt.Fprintf(&sb, "Definition avahi_cb_manual : bool := %v.\n", guards["manualShutdown"])
	fmt.Fprintf(&sb, "Definition avahi_cb_autorec : bool := %v.\n", guards["!autoReconnect"])
	writeIfChanged("AvahiTable.v", sb.String())
}

func disjuncts(e ast.Expr) []ast.Expr {
	if p, ok := e.(*ast.ParenExpr); ok {
		return disjuncts(p.X)
	}
	if b, ok := e.(*ast.BinaryExpr); ok && b.Op == token.LOR {
		return append(disjuncts(b.X), disjuncts(b.Y)...)
	}
	return []ast.Expr{e}
}

// fieldOfA returns f for the expression `a.f`
func fieldOfA(e ast.Expr) string {
	if sel, ok := e.(*ast.SelectorExpr); ok {
		if id, ok := sel.X.(*ast.Ident); ok && id.Name == "a" {
			return sel.Sel.Name
		}
	}
	return ""
}

func hasReturn(b *ast.BlockStmt) bool {
	found := false
	ast.Inspect(b, func(n ast.Node) bool {
		if _, ok := n.(*ast.ReturnStmt); ok {
			found = true
		}
		return true
	})
	return found
}

// assignsField: `a.<field> = <value>` occurs before position `before` (value "" = any)
func assignsField(n ast.Node, field, value string, before token.Pos) bool {
	found := false
	ast.Inspect(n, func(n ast.Node) bool {
		as, ok := n.(*ast.AssignStmt)
		if !ok || as.Pos() > before || len(as.Lhs) != 1 || fieldOfA(as.Lhs[0]) != field {
			return true
		}
		if value == "" {
			found = true
		} else if id, ok := as.Rhs[0].(*ast.Ident); ok && id.Name == value {
			found = true
		}
		return true
	})
	return found
}

func mentionsField(n ast.Node, field string) bool {
	found := false
	ast.Inspect(n, func(n ast.Node) bool {
		if e, ok := n.(ast.Expr); ok && fieldOfA(e) == field {
			found = true
		}
		return true
	})
	return found
}

// callsMethod: a call `a.<name>(...)` occurs inside n
func callsMethod(n ast.Node, name string) bool {
	found := false
	ast.Inspect(n, func(n ast.Node) bool {
		if ce, ok := n.(*ast.CallExpr); ok && fieldOfA(ce.Fun) == name {
			found = true
		}
		return true
	})
	return found
}

func isRecvStmt(st ast.Stmt) bool {
	if es, ok := st.(*ast.ExprStmt); ok {
		if u, ok := es.X.(*ast.UnaryExpr); ok && u.Op == token.ARROW {
			return true
		}
	}
	return false
}

// isMuxCall: the statement `a.mux.<name>()`
func isMuxCall(st ast.Stmt, name string) bool {
	es, ok := st.(*ast.ExprStmt)
	if !ok {
		return false
	}
	ce, ok := es.X.(*ast.CallExpr)
	if !ok {
		return false
	}
	sel, ok := ce.Fun.(*ast.SelectorExpr)
	if !ok || sel.Sel.Name != name {
		return false
	}
	return fieldOfA(sel.X) == "mux"
}
