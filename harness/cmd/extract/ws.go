package main

import (
	"fmt"
	"go/ast"
	"go/token"
	"strings"
)

// genWsTable reads from ws/websocket.go the facts the Ws model (coq/theories/Ws.v) is
// parametric in: the capacity of shipWriteChannel and six syntactic facts about how the
// connection is marked closed, who closes which channel and how the writer sends.  A shape
// that is none of the recognised ones is a translator failure (exit 2), never a guess.
func init() { extraGens = append(extraGens, genWsTable) }

func wsIsSel(e ast.Expr, recv, name string) bool {
	s, ok := e.(*ast.SelectorExpr)
	if !ok || s.Sel.Name != name {
		return false
	}
	id, ok := s.X.(*ast.Ident)
	return ok && id.Name == recv
}

// call of w.<name>(...)
func wsIsMethodCall(n ast.Node, name string) bool {
	c, ok := n.(*ast.CallExpr)
	if !ok {
		return false
	}
	s, ok := c.Fun.(*ast.SelectorExpr)
	if !ok || s.Sel.Name != name {
		return false
	}
	_, ok = s.X.(*ast.Ident)
	return ok
}

func wsContainsCall(n ast.Node, name string) bool {
	found := false
	ast.Inspect(n, func(x ast.Node) bool {
		if x != nil && wsIsMethodCall(x, name) {
			found = true
		}
		return !found
	})
	return found
}

// any call whose selector name is `name`, whatever the receiver expression (w.conn.WriteMessage, w.dataProcessing.Report…)
func wsContainsSelCall(n ast.Node, name string) bool {
	found := false
	ast.Inspect(n, func(x ast.Node) bool {
		if c, ok := x.(*ast.CallExpr); ok {
			if s, ok := c.Fun.(*ast.SelectorExpr); ok && s.Sel.Name == name {
				found = true
			}
		}
		return !found
	})
	return found
}

func wsContainsBuiltinClose(n ast.Node, field string) bool {
	found := false
	ast.Inspect(n, func(x ast.Node) bool {
		if c, ok := x.(*ast.CallExpr); ok {
			if id, ok := c.Fun.(*ast.Ident); ok && id.Name == "close" && len(c.Args) == 1 {
				if s, ok := c.Args[0].(*ast.SelectorExpr); ok && s.Sel.Name == field {
					found = true
				}
			}
		}
		return !found
	})
	return found
}

func wsIsReturnOnly(b *ast.BlockStmt) bool {
	if b == nil || len(b.List) != 1 {
		return false
	}
	_, ok := b.List[0].(*ast.ReturnStmt)
	return ok
}

func genWsTable() {
	ws := parseDir("ws")
	need := func(recv, name string) *ast.FuncDecl {
		fd := ws.funcDecl(recv, name)
		if fd == nil || fd.Body == nil {
			fatal("ws: function not found:", name)
		}
		return fd
	}
	const T = "WebsocketConnection"

	// ---- queue capacity: w.shipWriteChannel = make(chan []byte, N) in run()
	qcap := int64(-1)
	ast.Inspect(need(T, "run"), func(n ast.Node) bool {
		as, ok := n.(*ast.AssignStmt)
		if !ok || len(as.Lhs) != 1 || len(as.Rhs) != 1 {
			return true
		}
		if s, ok := as.Lhs[0].(*ast.SelectorExpr); !ok || s.Sel.Name != "shipWriteChannel" {
			return true
		}
		if c, ok := as.Rhs[0].(*ast.CallExpr); ok {
			if id, ok := c.Fun.(*ast.Ident); ok && id.Name == "make" {
				if len(c.Args) == 1 {
					qcap = 0
				} else if len(c.Args) == 2 {
					if v, ok := evalInt(c.Args[1], ws.intConsts()); ok {
						qcap = v
					}
				}
			}
		}
		return true
	})
	if qcap < 0 || qcap > 64 {
		fatal("ws: capacity of shipWriteChannel not recognised")
	}

	// ---- close(): once body; does it return early when the flag is already set?
	closeFn := need(T, "close")
	var onceBody *ast.BlockStmt
	ast.Inspect(closeFn, func(n ast.Node) bool {
		if c, ok := n.(*ast.CallExpr); ok {
			if s, ok := c.Fun.(*ast.SelectorExpr); ok && s.Sel.Name == "Do" && len(c.Args) == 1 {
				if fl, ok := c.Args[0].(*ast.FuncLit); ok {
					onceBody = fl.Body
				}
			}
		}
		return true
	})
	if onceBody == nil || !wsContainsBuiltinClose(onceBody, "closeChannel") || !wsContainsSelCall(onceBody, "Close") ||
		!wsContainsCall(onceBody, "setConnClosedError") {
		fatal("ws: close() is not `shutdownOnce.Do(func(){ setConnClosedError; close(closeChannel); conn.Close() })`")
	}
	earlyReturn := false
	for _, st := range onceBody.List {
		if is, ok := st.(*ast.IfStmt); ok && wsIsMethodCall(is.Cond, "isConnClosed") && wsIsReturnOnly(is.Body) {
			earlyReturn = true
		}
	}

	// ---- closeWithError
	cwe := need(T, "closeWithError")
	cweCloses := wsContainsCall(cwe, "close")
	cweGuard, cwePlain := false, false
	for _, st := range cwe.Body.List {
		switch x := st.(type) {
		case *ast.IfStmt:
			if u, ok := x.Cond.(*ast.UnaryExpr); ok && u.Op == token.NOT && wsIsMethodCall(u.X, "setConnClosedError") && wsIsReturnOnly(x.Body) {
				cweGuard = true
			}
		case *ast.ExprStmt:
			if wsIsMethodCall(x.X, "setConnClosedError") {
				cwePlain = true
			}
		}
	}
	if cweGuard == cwePlain || !wsContainsSelCall(cwe, "ReportConnectionError") {
		fatal("ws: closeWithError has an unrecognised shape")
	}

	// ---- read pump error path: is the report guarded by the result of setConnClosedError?
	rp := need(T, "readShipPump")
	rpGuard, rpPlain := false, false
	ast.Inspect(rp, func(n ast.Node) bool {
		blk, ok := n.(*ast.BlockStmt)
		if !ok {
			return true
		}
		var firstVar string
		posSet, posClose := -1, -1
		for i, st := range blk.List {
			switch x := st.(type) {
			case *ast.AssignStmt:
				if len(x.Lhs) == 1 && len(x.Rhs) == 1 && wsIsMethodCall(x.Rhs[0], "setConnClosedError") {
					if id, ok := x.Lhs[0].(*ast.Ident); ok {
						firstVar = id.Name
						posSet = i
					}
				}
			case *ast.ExprStmt:
				if wsIsMethodCall(x.X, "setConnClosedError") {
					posSet = i
				}
				if wsIsMethodCall(x.X, "close") {
					posClose = i
				}
				if posSet >= 0 && posClose >= 0 && posClose < posSet && wsContainsSelCall(x, "ReportConnectionError") {
					rpPlain = true // close(); setConnClosedError(err); Report(err)
				}
			case *ast.IfStmt:
				if id, ok := x.Cond.(*ast.Ident); ok && firstVar != "" && id.Name == firstVar &&
					wsContainsSelCall(x.Body, "ReportConnectionError") && posSet >= 0 && posClose > posSet {
					rpGuard = true // first := setConnClosedError(err); close(); if first { Report(err) }
				}
			}
		}
		return true
	})
	if rpGuard == rpPlain {
		fatal("ws: error path of readShipPump has an unrecognised shape")
	}
	if rpGuard != cweGuard {
		fatal("ws: closeWithError and readShipPump disagree on whether the report is guarded by setConnClosedError's result")
	}
	if rpGuard {
		// the guard only means something if setConnClosedError really is a test-and-set under the mutex
		sc := need(T, "setConnClosedError")
		if sc.Type.Results == nil || len(sc.Type.Results.List) != 1 || !wsContainsSelCall(sc, "Lock") {
			fatal("ws: setConnClosedError does not return whether it was the first to mark the connection")
		}
	}

	// ---- CloseDataConnection: is the connection marked closed before the close frame is written?
	cdc := need(T, "CloseDataConnection")
	posMark, posWrite, posClose := -1, -1, -1
	for i, st := range cdc.Body.List {
		if posMark < 0 && wsContainsCall(st, "setConnClosedError") {
			posMark = i
		}
		if posWrite < 0 && (wsContainsSelCall(st, "WriteMessage") || wsContainsCall(st, "writeMessageWithoutErrorHandling")) {
			posWrite = i
		}
		if wsContainsCall(st, "close") {
			posClose = i
		}
	}
	if posWrite < 0 || posClose < posWrite {
		fatal("ws: CloseDataConnection has an unrecognised shape")
	}
	marksFirst := posMark >= 0 && posMark <= posWrite
	if marksFirst {
		// the close frame must then bypass the closed check, and only the marking call may send it
		if wsContainsCall(cdc, "writeMessageWithoutErrorHandling") {
			fatal("ws: CloseDataConnection marks the connection closed and then uses a write that checks the flag")
		}
	}

	// ---- write pump: does it close the queue on exit?  does it test the flag after a receive?
	wp := need(T, "writeShipPump")
	pumpCloses := wsContainsBuiltinClose(wp, "shipWriteChannel")
	if !wsContainsCall(wp, "isConnClosed") || !wsContainsCall(wp, "writeMessage") {
		fatal("ws: writeShipPump has an unrecognised shape")
	}

	// ---- writer: mutex, closed check, then the send (plain or in a select against closeChannel)
	wr := need(T, "WriteMessageToWebsocketConnection")
	if !wsContainsSelCall(wr, "Lock") || !wsContainsCall(wr, "isConnClosed") {
		fatal("ws: WriteMessageToWebsocketConnection has an unrecognised shape")
	}
	sendPlain, sendSelect := false, false
	for _, st := range wr.Body.List {
		switch x := st.(type) {
		case *ast.SendStmt:
			if wsIsSel(x.Chan, "w", "shipWriteChannel") {
				sendPlain = true
			}
		case *ast.SelectStmt:
			hasSend, hasClose, hasDefault := false, false, false
			for _, c := range x.Body.List {
				cc := c.(*ast.CommClause)
				switch y := cc.Comm.(type) {
				case nil:
					hasDefault = true
				case *ast.SendStmt:
					if wsIsSel(y.Chan, "w", "shipWriteChannel") {
						hasSend = true
					}
				case *ast.ExprStmt:
					if u, ok := y.X.(*ast.UnaryExpr); ok && u.Op == token.ARROW && wsIsSel(u.X, "w", "closeChannel") {
						hasClose = true
					}
				}
			}
			if hasSend && hasClose && !hasDefault {
				sendSelect = true
			}
		}
	}
	if sendPlain == sendSelect {
		fatal("ws: the channel send of WriteMessageToWebsocketConnection has an unrecognised shape")
	}

	b := func(x bool) string {
		if x {
			return "true"
		}
		return "false"
	}
	var sb strings.Builder
	sb.WriteString("(* generated from /repo/ws/websocket.go — do not edit *)\n\n")
	fmt.Fprintf(&sb, "(* make(chan []byte, N) in run() *)\nDefinition ws_queue_cap : nat := %d.\n\n", qcap)
	fmt.Fprintf(&sb, "(* close(): `if w.isConnClosed() { return }` inside the once body *)\nDefinition ws_close_early_return : bool := %s.\n", b(earlyReturn))
	fmt.Fprintf(&sb, "(* closeWithError calls w.close() *)\nDefinition ws_cwe_calls_close : bool := %s.\n", b(cweCloses))
	fmt.Fprintf(&sb, "(* closeWithError and the read pump report only if their setConnClosedError call marked the connection *)\nDefinition ws_report_only_if_first : bool := %s.\n", b(rpGuard))
	fmt.Fprintf(&sb, "(* CloseDataConnection marks the connection closed before it writes the close frame *)\nDefinition ws_close_marks_first : bool := %s.\n", b(marksFirst))
	fmt.Fprintf(&sb, "(* writeShipPump closes shipWriteChannel when it exits *)\nDefinition ws_pump_closes_queue : bool := %s.\n", b(pumpCloses))
	fmt.Fprintf(&sb, "(* the writer's send is `select { case ch <- m: ; case <-w.closeChannel: }` *)\nDefinition ws_send_selects_close : bool := %s.\n", b(sendSelect))
	writeIfChanged("WsTable.v", sb.String())
}
