package main

import (
	"fmt"
	"go/ast"
	"go/token"
	"os"
	"strings"
)

// genWsTable reads from ws/websocket.go the facts the Ws model (coq/theories/Ws.v) is
// parametric in: the capacity of shipWriteChannel and seven syntactic facts about how the
// connection is marked closed, who closes which channel and how the writer sends.  A shape
// that is none of the recognised ones is recorded in the table (ws_shape_recognised := false), never guessed.
func init() { extraGens = append(extraGens, genWsTable) }

func wsIsSel(e ast.Expr, recv, name string) bool {
	s, ok := e.(*ast.SelectorExpr)
	if !ok || s.Sel.Name != name {
		return false
	}
	id, ok := s.X.(*ast.Ident)
	return ok && id.Name == recv
}

// call of w.<name>(...)
func wsIsMethodCall(n ast.Node, name string) bool {
	c, ok := n.(*ast.CallExpr)
	if !ok {
		return false
	}
	s, ok := c.Fun.(*ast.SelectorExpr)
	if !ok || s.Sel.Name != name {
		return false
	}
	_, ok = s.X.(*ast.Ident)
	return ok
}

func wsContainsCall(n ast.Node, name string) bool {
	found := false
	ast.Inspect(n, func(x ast.Node) bool {
		if x != nil && wsIsMethodCall(x, name) {
			found = true
		}
		return !found
	})
	return found
}

// any call whose selector name is `name`, whatever the receiver expression (w.conn.WriteMessage, w.dataProcessing.Report…)
func wsContainsSelCall(n ast.Node, name string) bool {
	found := false
	ast.Inspect(n, func(x ast.Node) bool {
		if c, ok := x.(*ast.CallExpr); ok {
			if s, ok := c.Fun.(*ast.SelectorExpr); ok && s.Sel.Name == name {
				found = true
			}
		}
		return !found
	})
	return found
}

func wsContainsBuiltinClose(n ast.Node, field string) bool {
	found := false
	ast.Inspect(n, func(x ast.Node) bool {
		if c, ok := x.(*ast.CallExpr); ok {
			if id, ok := c.Fun.(*ast.Ident); ok && id.Name == "close" && len(c.Args) == 1 {
				if s, ok := c.Args[0].(*ast.SelectorExpr); ok && s.Sel.Name == field {
					found = true
				}
			}
		}
		return !found
	})
	return found
}

func wsIsReturnOnly(b *ast.BlockStmt) bool {
	if b == nil || len(b.List) != 1 {
		return false
	}
	_, ok := b.List[0].(*ast.ReturnStmt)
	return ok
}

// an unrecognised shape does not stop the other generators: the table is written with
// ws_shape_recognised := false (WsProofs.v then fails at its first lemma, so C12/C13 report
// a broken obligation naming the reason) and the flags of the tree as it was first found
type wsShapeErr string

func genWsTable() {
	defer func() {
		if r := recover(); r != nil {
			msg, ok := r.(wsShapeErr)
			if !ok {
				panic(r)
			}
			fmt.Fprintln(os.Stderr, "extract: ws: shape not recognised:", string(msg))
			writeIfChanged("WsTable.v", wsTableText(false, string(msg), 1, true, false, false, false, true, false, true))
		}
	}()
	bad := func(a ...any) { panic(wsShapeErr(fmt.Sprint(a...))) }
	ws := parseDir("ws")
	need := func(recv, name string) *ast.FuncDecl {
		fd := ws.funcDecl(recv, name)
		if fd == nil || fd.Body == nil {
			bad("ws: function not found:", name)
		}
		return fd
	}
	const T = "WebsocketConnection"

	// ---- queue capacity: w.shipWriteChannel = make(chan []byte, N) in run()
	qcap := int64(-1)
	ast.Inspect(need(T, "run"), func(n ast.Node) bool {
		as, ok := n.(*ast.AssignStmt)
		if !ok || len(as.Lhs) != 1 || len(as.Rhs) != 1 {
			return true
		}
		if s, ok := as.Lhs[0].(*ast.SelectorExpr); !ok || s.Sel.Name != "shipWriteChannel" {
			return true
		}
		if c, ok := as.Rhs[0].(*ast.CallExpr); ok {
			if id, ok := c.Fun.(*ast.Ident); ok && id.Name == "make" {
				if len(c.Args) == 1 {
					qcap = 0
				} else if len(c.Args) == 2 {
					if v, ok := evalInt(c.Args[1], ws.intConsts()); ok {
						qcap = v
					}
				}
			}
		}
		return true
	})
	if qcap < 0 || qcap > 64 {
		bad("ws: capacity of shipWriteChannel not recognised")
	}

	// ---- close(): once body; does it return early when the flag is already set?
	closeFn := need(T, "close")
	var onceBody *ast.BlockStmt
	ast.Inspect(closeFn, func(n ast.Node) bool {
		if c, ok := n.(*ast.CallExpr); ok {
			if s, ok := c.Fun.(*ast.SelectorExpr); ok && s.Sel.Name == "Do" && len(c.Args) == 1 {
				if fl, ok := c.Args[0].(*ast.FuncLit); ok {
					onceBody = fl.Body
				}
			}
		}
		return true
	})
	if onceBody == nil || !wsContainsBuiltinClose(onceBody, "closeChannel") || !wsContainsSelCall(onceBody, "Close") ||
		!wsContainsCall(onceBody, "setConnClosedError") {
		bad("ws: close() is not `shutdownOnce.Do(func(){ setConnClosedError; close(closeChannel); conn.Close() })`")
	}
	earlyReturn := false
	for _, st := range onceBody.List {
		if is, ok := st.(*ast.IfStmt); ok && wsIsMethodCall(is.Cond, "isConnClosed") && wsIsReturnOnly(is.Body) {
			earlyReturn = true
		}
	}

	// ---- closeWithError
	cwe := need(T, "closeWithError")
	cweCloses := wsContainsCall(cwe, "close")
	cweGuard, cwePlain := false, false
	for _, st := range cwe.Body.List {
		switch x := st.(type) {
		case *ast.IfStmt:
			if u, ok := x.Cond.(*ast.UnaryExpr); ok && u.Op == token.NOT && wsIsMethodCall(u.X, "setConnClosedError") && wsIsReturnOnly(x.Body) {
				cweGuard = true
			}
		case *ast.ExprStmt:
			if wsIsMethodCall(x.X, "setConnClosedError") {
				cwePlain = true
			}
		}
	}
	if cweGuard == cwePlain || !wsContainsSelCall(cwe, "ReportConnectionError") {
		bad("ws: closeWithError has an unrecognised shape")
	}

	// ---- read pump error path: is the report guarded by the result of setConnClosedError?
	rp := need(T, "readShipPump")
	rpGuard, rpPlain := false, false
	ast.Inspect(rp, func(n ast.Node) bool {
		blk, ok := n.(*ast.BlockStmt)
		if !ok {
			return true
		}
		var firstVar string
		posSet, posClose := -1, -1
		for i, st := range blk.List {
			switch x := st.(type) {
			case *ast.AssignStmt:
				if len(x.Lhs) == 1 && len(x.Rhs) == 1 && wsIsMethodCall(x.Rhs[0], "setConnClosedError") {
					if id, ok := x.Lhs[0].(*ast.Ident); ok {
						firstVar = id.Name
						posSet = i
					}
				}
			case *ast.ExprStmt:
				if wsIsMethodCall(x.X, "setConnClosedError") {
					posSet = i
				}
				if wsIsMethodCall(x.X, "close") {
					posClose = i
				}
				if posSet >= 0 && posClose >= 0 && posClose < posSet && wsContainsSelCall(x, "ReportConnectionError") {
					rpPlain = true // close(); setConnClosedError(err); Report(err)
				}
			case *ast.IfStmt:
				if id, ok := x.Cond.(*ast.Ident); ok && firstVar != "" && id.Name == firstVar &&
					wsContainsSelCall(x.Body, "ReportConnectionError") && posSet >= 0 && posClose > posSet {
					rpGuard = true // first := setConnClosedError(err); close(); if first { Report(err) }
				}
			}
		}
		return true
	})
	if rpGuard == rpPlain {
		bad("ws: error path of readShipPump has an unrecognised shape")
	}
	// between `message, err := w.readWebsocketMessage()` and the use of the result: `if w.isConnClosed() { return }`?
	readRecheck := false
	ast.Inspect(rp, func(n ast.Node) bool {
		var list []ast.Stmt
		switch x := n.(type) {
		case *ast.BlockStmt:
			list = x.List
		case *ast.CommClause:
			list = x.Body
		case *ast.CaseClause:
			list = x.Body
		default:
			return true
		}
		for i, st := range list {
			as, ok := st.(*ast.AssignStmt)
			if !ok || len(as.Rhs) != 1 || !wsIsMethodCall(as.Rhs[0], "readWebsocketMessage") || i+1 >= len(list) {
				continue
			}
			if is, ok := list[i+1].(*ast.IfStmt); ok && wsIsMethodCall(is.Cond, "isConnClosed") && wsIsReturnOnly(is.Body) {
				readRecheck = true
			}
		}
		return true
	})
	if rpGuard != cweGuard {
		bad("ws: closeWithError and readShipPump disagree on whether the report is guarded by setConnClosedError's result")
	}
	if rpGuard {
		// the guard only means something if setConnClosedError really is a test-and-set under the mutex
		// ... x := !w.connectionClosed ; w.connectionClosed = true ; return x, all under muxConnClosed
		sc := need(T, "setConnClosedError")
		posLock, posRead, posSet, posRet := -1, -1, -1, -1
		var readVar string
		for i, st := range sc.Body.List {
			switch x := st.(type) {
			case *ast.ExprStmt:
				if wsContainsSelCall(x, "Lock") && posLock < 0 {
					posLock = i
				}
			case *ast.AssignStmt:
				if len(x.Lhs) == 1 && len(x.Rhs) == 1 {
					if u, ok := x.Rhs[0].(*ast.UnaryExpr); ok && u.Op == token.NOT && wsIsSel(u.X, "w", "connectionClosed") {
						if id, ok := x.Lhs[0].(*ast.Ident); ok {
							readVar, posRead = id.Name, i
						}
					}
					if wsIsSel(x.Lhs[0], "w", "connectionClosed") {
						if id, ok := x.Rhs[0].(*ast.Ident); ok && id.Name == "true" && posSet < 0 {
							posSet = i
						}
					}
				}
			case *ast.ReturnStmt:
				if len(x.Results) == 1 {
					if id, ok := x.Results[0].(*ast.Ident); ok && id.Name == readVar && readVar != "" {
						posRet = i
					}
				}
			}
		}
		nret := 0
		ast.Inspect(sc, func(n ast.Node) bool {
			if _, ok := n.(*ast.ReturnStmt); ok {
				nret++
			}
			return true
		})
		if !(posLock >= 0 && posLock < posRead && posRead < posSet && posSet < posRet && nret == 1) {
			bad("ws: setConnClosedError is not `lock; x := !w.connectionClosed; w.connectionClosed = true; ...; return x`")
		}
	}

	// ---- CloseDataConnection: is the connection marked closed before the close frame is written?
	cdc := need(T, "CloseDataConnection")
	posMark, posWrite, posClose := -1, -1, -1
	for i, st := range cdc.Body.List {
		if posMark < 0 && wsContainsCall(st, "setConnClosedError") {
			posMark = i
		}
		if posWrite < 0 && (wsContainsSelCall(st, "WriteMessage") || wsContainsCall(st, "writeMessageWithoutErrorHandling")) {
			posWrite = i
		}
		if wsContainsCall(st, "close") {
			posClose = i
		}
	}
	if posWrite < 0 || posClose < posWrite {
		bad("ws: CloseDataConnection has an unrecognised shape")
	}
	marksFirst := posMark >= 0 && posMark <= posWrite
	if marksFirst {
		// the close frame must then bypass the closed check, and only the marking call may send it
		if wsContainsCall(cdc, "writeMessageWithoutErrorHandling") {
			bad("ws: CloseDataConnection marks the connection closed and then uses a write that checks the flag")
		}
	}

	// ---- write pump: does it close the queue on exit?  does it test the flag after a receive?
	wp := need(T, "writeShipPump")
	pumpCloses := wsContainsBuiltinClose(wp, "shipWriteChannel")
	if !wsContainsCall(wp, "isConnClosed") || !wsContainsCall(wp, "writeMessage") {
		bad("ws: writeShipPump has an unrecognised shape")
	}

	// ---- writer: mutex, closed check, then the send (plain or in a select against closeChannel)
	wr := need(T, "WriteMessageToWebsocketConnection")
	if !wsContainsSelCall(wr, "Lock") || !wsContainsCall(wr, "isConnClosed") {
		bad("ws: WriteMessageToWebsocketConnection has an unrecognised shape")
	}
	sendPlain, sendSelect := false, false
	for _, st := range wr.Body.List {
		switch x := st.(type) {
		case *ast.SendStmt:
			if wsIsSel(x.Chan, "w", "shipWriteChannel") {
				sendPlain = true
			}
		case *ast.SelectStmt:
			hasSend, hasClose, hasDefault := false, false, false
			for _, c := range x.Body.List {
				cc := c.(*ast.CommClause)
				switch y := cc.Comm.(type) {
				case nil:
					hasDefault = true
				case *ast.SendStmt:
					if wsIsSel(y.Chan, "w", "shipWriteChannel") {
						hasSend = true
					}
				case *ast.ExprStmt:
					if u, ok := y.X.(*ast.UnaryExpr); ok && u.Op == token.ARROW && wsIsSel(u.X, "w", "closeChannel") {
						hasClose = true
					}
				}
			}
			if hasSend && hasClose && !hasDefault {
				sendSelect = true
			}
		}
	}
	if sendPlain == sendSelect {
		bad("ws: the channel send of WriteMessageToWebsocketConnection has an unrecognised shape")
	}

	writeIfChanged("WsTable.v", wsTableText(true, "", qcap, earlyReturn, cweCloses, rpGuard, marksFirst, pumpCloses, sendSelect, readRecheck))
}

func wsTableText(ok bool, why string, qcap int64, earlyReturn, cweCloses, rpGuard, marksFirst, pumpCloses, sendSelect, readRecheck bool) string {
	b := func(x bool) string {
		if x {
			return "true"
		}
		return "false"
	}
	var sb strings.Builder
	sb.WriteString("(* generated from /repo/ws/websocket.go — do not edit *)\n\n")
	if !ok {
		fmt.Fprintf(&sb, "(* SHAPE NOT RECOGNISED: %s *)\n", strings.ReplaceAll(why, "*)", "* )"))
	}
	fmt.Fprintf(&sb, "(* every shape fact below was recognised in the source *)\nDefinition ws_shape_recognised : bool := %s.\n\n", b(ok))
	fmt.Fprintf(&sb, "(* make(chan []byte, N) in run() *)\nDefinition ws_queue_cap : nat := %d.\n\n", qcap)
	fmt.Fprintf(&sb, "(* close(): `if w.isConnClosed() { return }` inside the once body *)\nDefinition ws_close_early_return : bool := %s.\n", b(earlyReturn))
	fmt.Fprintf(&sb, "(* closeWithError calls w.close() *)\nDefinition ws_cwe_calls_close : bool := %s.\n", b(cweCloses))
	fmt.Fprintf(&sb, "(* closeWithError and the read pump report only if their setConnClosedError call marked the connection *)\nDefinition ws_report_only_if_first : bool := %s.\n", b(rpGuard))
	fmt.Fprintf(&sb, "(* CloseDataConnection marks the connection closed before it writes the close frame *)\nDefinition ws_close_marks_first : bool := %s.\n", b(marksFirst))
	fmt.Fprintf(&sb, "(* writeShipPump closes shipWriteChannel when it exits *)\nDefinition ws_pump_closes_queue : bool := %s.\n", b(pumpCloses))
	fmt.Fprintf(&sb, "(* the writer's send is `select { case ch <- m: ; case <-w.closeChannel: }` *)\nDefinition ws_send_selects_close : bool := %s.\n", b(sendSelect))
	fmt.Fprintf(&sb, "(* readShipPump tests isConnClosed() again right after ReadMessage returns *)\nDefinition ws_read_rechecks_closed : bool := %s.\n", b(readRecheck))
	return sb.String()
}
