package main

import (
	"fmt"
	"go/ast"
	"strings"
)

func init() { extraGens = append(extraGens, genConnTable) }

// genConnTable: the arm/stop switch inside ShipConnection.setState (ship/handshake.go)
// and the waiting thresholds of ship/types.go.
//   timer_action s = 1 -> setHandshakeTimer(<type>, ...)   (arm, type in timer_action_type)
//                    2 -> stopHandshakeTimer()
//                    0 -> the timer is left alone
func genConnTable() {
	ship := parseDir("ship")
	model := parseDir("model")
	mc := model.intConsts()
	sc := ship.intConsts()
	fd := ship.funcDecl("ShipConnection", "setState")
	if fd == nil {
		fatal("ShipConnection.setState not found")
	}
	type act struct {
		kind  int
		ttype int64
		dur   string
	}
	acts := map[int64]act{}
	ast.Inspect(fd.Body, func(n ast.Node) bool {
		sw, ok := n.(*ast.SwitchStmt)
		if !ok {
			return true
		}
		if id, ok := sw.Tag.(*ast.Ident); !ok || id.Name != "newState" {
			return true
		}
		for _, c := range sw.Body.List {
			cc := c.(*ast.CaseClause)
			a := act{}
			for _, st := range cc.Body {
				es, ok := st.(*ast.ExprStmt)
				if !ok {
					continue
				}
				ce, ok := es.X.(*ast.CallExpr)
				if !ok {
					continue
				}
				switch calleeName(ce) {
				case "setHandshakeTimer":
					a.kind = 1
					if len(ce.Args) == 2 {
						if id, ok := ce.Args[0].(*ast.Ident); ok {
							a.ttype = sc[id.Name]
						}
						if id, ok := ce.Args[1].(*ast.Ident); ok {
							a.dur = id.Name
						}
					}
				case "stopHandshakeTimer":
					a.kind = 2
				}
			}
			for _, e := range cc.List {
				if sel, ok := e.(*ast.SelectorExpr); ok {
					if v, ok := mc[sel.Sel.Name]; ok {
						acts[v] = a
					}
				}
			}
		}
		return false
	})
	var sb strings.Builder
	sb.WriteString("(* generated from /repo/ship/handshake.go (setState) and /repo/ship/types.go — do not edit *)\n")
	sb.WriteString("From Coq Require Import List NArith Bool.\nImport ListNotations.\nOpen Scope N_scope.\n\n")
	sb.WriteString("(* 0 keep, 1 arm, 2 stop *)\nDefinition timer_action (s : N) : N :=\n  match s with\n")
	keys := make([]int64, 0)
	for k := range acts {
		keys = append(keys, k)
	}
	for i := 0; i < len(keys); i++ {
		for j := i + 1; j < len(keys); j++ {
			if keys[j] < keys[i] {
				keys[i], keys[j] = keys[j], keys[i]
			}
		}
	}
	for _, k := range keys {
		fmt.Fprintf(&sb, "  | %d => %d\n", k, acts[k].kind)
	}
	sb.WriteString("  | _ => 0\n  end.\n")
	sb.WriteString("(* timer type armed by setState: 0 WaitForReady 1 SendProlongationRequest 2 ProlongRequestReply *)\nDefinition timer_action_type (s : N) : N :=\n  match s with\n")
	for _, k := range keys {
		if acts[k].kind == 1 {
			fmt.Fprintf(&sb, "  | %d => %d\n", k, acts[k].ttype)
		}
	}
	sb.WriteString("  | _ => 0\n  end.\n\n")
	for _, k := range []string{"cmiTimeout", "tHelloInit", "tHelloInc", "tHelloProlongThrInc", "tHelloProlongWaitingGap", "tHelloProlongMin"} {
		if v, ok := sc[k]; ok {
			fmt.Fprintf(&sb, "Definition %s_ns : N := %d.\n", k, v)
		} else {
			fatal("duration constant not found:", k)
		}
	}
	// CloseConnection: the whole body is one call <recv>.<field>.Do(func() {...}) on a field of
	// type sync.Once of ShipConnection - the run-at-most-once guard the model's flag "once" stands for
	once := false
	onceFields := map[string]bool{}
	for _, f := range ship.files {
		ast.Inspect(f, func(n ast.Node) bool {
			ts, ok := n.(*ast.TypeSpec)
			if !ok || ts.Name.Name != "ShipConnection" {
				return true
			}
			if st, ok := ts.Type.(*ast.StructType); ok {
				for _, fl := range st.Fields.List {
					if sel, ok := fl.Type.(*ast.SelectorExpr); ok && sel.Sel.Name == "Once" {
						if x, ok := sel.X.(*ast.Ident); ok && x.Name == "sync" {
							for _, nm := range fl.Names {
								onceFields[nm.Name] = true
							}
						}
					}
				}
			}
			return false
		})
	}
	if cd := ship.funcDecl("ShipConnection", "CloseConnection"); cd != nil && cd.Body != nil && len(cd.Body.List) == 1 {
		if es, ok := cd.Body.List[0].(*ast.ExprStmt); ok {
			if ce, ok := es.X.(*ast.CallExpr); ok && len(ce.Args) == 1 {
				if sel, ok := ce.Fun.(*ast.SelectorExpr); ok && sel.Sel.Name == "Do" {
					if in, ok := sel.X.(*ast.SelectorExpr); ok && onceFields[in.Sel.Name] {
						if _, ok := ce.Args[0].(*ast.FuncLit); ok {
							once = true
						}
					}
				}
			}
		}
	}
	fmt.Fprintf(&sb, "\n(* ShipConnection.CloseConnection: the whole body runs inside sync.Once.Do *)\nDefinition close_body_once : bool := %v.\n", once)
	writeIfChanged("ConnTable.v", sb.String())
}
