// extract regenerates coq/gen/*.v from the Go source of /repo on every run.
// It is the "translator" half of the tie between the Coq model and the code:
// declarative tables (state numbering, state→pairing-state switch, the timer arm/stop
// table inside setState, durations, NormalizeSKI's stripped characters, which hub entry
// points normalise their SKI argument, EEBUS replacement pairs, TXT keys, lock facts).
package main

import (
	"bytes"
	"flag"
	"fmt"
	"go/ast"
	"go/parser"
	"go/token"
	"os"
	"path/filepath"
	"sort"
	"strconv"
	"strings"
	"time"
)

var repo = flag.String("repo", "/repo", "repository root")
var out = flag.String("out", "", "output directory (coq/gen)")

type pkgFiles struct {
	fset  *token.FileSet
	files []*ast.File
}

func parseDir(dir string) *pkgFiles {
	fset := token.NewFileSet()
	ents, err := os.ReadDir(filepath.Join(*repo, dir))
	if err != nil {
		fatal(err)
	}
	p := &pkgFiles{fset: fset}
	for _, e := range ents {
		n := e.Name()
		if !strings.HasSuffix(n, ".go") || strings.HasSuffix(n, "_test.go") || strings.HasPrefix(n, "verif_") {
			continue
		}
		f, err := parser.ParseFile(fset, filepath.Join(*repo, dir, n), nil, parser.ParseComments)
		if err != nil {
			fatal(err)
		}
		p.files = append(p.files, f)
	}
	return p
}

func fatal(a ...any) {
	fmt.Fprintln(os.Stderr, append([]any{"extract:"}, a...)...)
	os.Exit(2)
}

func (p *pkgFiles) funcDecl(recv, name string) *ast.FuncDecl {
	for _, f := range p.files {
		for _, d := range f.Decls {
			fd, ok := d.(*ast.FuncDecl)
			if !ok || fd.Name.Name != name {
				continue
			}
			if recv == "" && fd.Recv == nil {
				return fd
			}
			if recv != "" && fd.Recv != nil && len(fd.Recv.List) == 1 {
				t := fd.Recv.List[0].Type
				if s, ok := t.(*ast.StarExpr); ok {
					t = s.X
				}
				if id, ok := t.(*ast.Ident); ok && id.Name == recv {
					return fd
				}
			}
		}
	}
	return nil
}

// constants of a package: name -> integer value (only literal / iota / simple products)
func (p *pkgFiles) intConsts() map[string]int64 {
	res := map[string]int64{}
	for _, f := range p.files {
		for _, d := range f.Decls {
			gd, ok := d.(*ast.GenDecl)
			if !ok || gd.Tok != token.CONST {
				continue
			}
			iotaMode := false
			for i, s := range gd.Specs {
				vs := s.(*ast.ValueSpec)
				if len(vs.Values) == 0 {
					if iotaMode {
						for _, n := range vs.Names {
							res[n.Name] = int64(i)
						}
					}
					continue
				}
				for j, n := range vs.Names {
					if j >= len(vs.Values) {
						break
					}
					if id, ok := vs.Values[j].(*ast.Ident); ok && id.Name == "iota" {
						iotaMode = true
						res[n.Name] = int64(i)
						continue
					}
					if v, ok := evalInt(vs.Values[j], res); ok {
						res[n.Name] = v
					}
				}
			}
		}
	}
	return res
}

var timeUnits = map[string]int64{"Nanosecond": 1, "Microsecond": 1000, "Millisecond": 1000000, "Second": 1000000000, "Minute": 60000000000}

func evalInt(e ast.Expr, env map[string]int64) (int64, bool) {
	switch x := e.(type) {
	case *ast.BasicLit:
		if x.Kind == token.INT {
			v, err := strconv.ParseInt(x.Value, 0, 64)
			return v, err == nil
		}
	case *ast.Ident:
		v, ok := env[x.Name]
		return v, ok
	case *ast.SelectorExpr:
		if id, ok := x.X.(*ast.Ident); ok && id.Name == "time" {
			v, ok := timeUnits[x.Sel.Name]
			return v, ok
		}
	case *ast.BinaryExpr:
		a, ok1 := evalInt(x.X, env)
		b, ok2 := evalInt(x.Y, env)
		if ok1 && ok2 {
			switch x.Op {
			case token.MUL:
				return a * b, true
			case token.ADD:
				return a + b, true
			case token.SUB:
				return a - b, true
			}
		}
	case *ast.ParenExpr:
		return evalInt(x.X, env)
	case *ast.CallExpr:
		if len(x.Args) == 1 {
			return evalInt(x.Args[0], env)
		}
	}
	return 0, false
}

func writeIfChanged(name string, content string) {
	path := filepath.Join(*out, name)
	old, err := os.ReadFile(path)
	if err == nil && bytes.Equal(old, []byte(content)) {
		return
	}
	if err := os.WriteFile(path, []byte(content), 0o644); err != nil {
		fatal(err)
	}
}

func sortedKeys[V any](m map[string]V) []string {
	ks := make([]string, 0, len(m))
	for k := range m {
		ks = append(ks, k)
	}
	sort.Strings(ks)
	return ks
}

func main() {
	flag.Parse()
	if *out == "" {
		fatal("need -out")
	}
	if err := os.MkdirAll(*out, 0o755); err != nil {
		fatal(err)
	}
	genSkiTable()
	genStateTable()
	for _, g := range extraGens {
		g()
	}
	// heavy generators (whole-program analyses) run last, each under a deadline: a
	// generator that does not finish must not block the tables of the other properties.
	// It writes its own "not extracted" fallback first (see the generator), so the
	// dependent proofs fail closed.
	for _, g := range heavyGens {
		done := make(chan struct{})
		go func() { g(); close(done) }()
		select {
		case <-done:
		case <-time.After(*heavyDeadline):
			fmt.Fprintln(os.Stderr, "extract: heavy generator exceeded its deadline, fallback table left in place")
			os.Exit(0)
		}
	}
}

var extraGens []func()
var heavyGens []func()
var heavyDeadline = flag.Duration("heavy-deadline", 15*time.Second, "deadline per heavy generator")
