package main

import (
	"fmt"
	"go/ast"
	"go/token"
	"strings"
)

// genHubTable (C10): the dial back-off table of hub/hub.go (its length bounds the attempt
// counter) and the shut-down flag: which field Hub.Shutdown sets to true, if any, and
// which of the four places that gate a dial consult it (directly or through a one-level
// helper method). Purely syntactic, linear in the size of package hub.
func init() { extraGens = append(extraGens, genHubTable) }

// fields of the receiver that a function body mentions (h.<field>)
func recvFields(fd *ast.FuncDecl) map[string]bool {
	res := map[string]bool{}
	if fd == nil || fd.Body == nil || fd.Recv == nil || len(fd.Recv.List) != 1 || len(fd.Recv.List[0].Names) != 1 {
		return res
	}
	recv := fd.Recv.List[0].Names[0].Name
	ast.Inspect(fd.Body, func(n ast.Node) bool {
		if sel, ok := n.(*ast.SelectorExpr); ok {
			if id, ok := sel.X.(*ast.Ident); ok && id.Name == recv {
				res[sel.Sel.Name] = true
			}
		}
		return true
	})
	return res
}

func genHubTable() {
	hub := parseDir("hub")
	var sb strings.Builder
	sb.WriteString("(* generated from /repo/hub/hub.go, hub_connections.go — do not edit *)\n")
	sb.WriteString("From Coq Require Import List NArith Bool.\nImport ListNotations.\nOpen Scope N_scope.\n\n")

	// the back-off ranges
	var ranges [][2]int64
	for _, f := range hub.files {
		for _, d := range f.Decls {
			gd, ok := d.(*ast.GenDecl)
			if !ok || gd.Tok != token.VAR {
				continue
			}
			for _, s := range gd.Specs {
				vs := s.(*ast.ValueSpec)
				if len(vs.Names) != 1 || vs.Names[0].Name != "connectionInitiationDelayTimeRanges" || len(vs.Values) != 1 {
					continue
				}
				cl, ok := vs.Values[0].(*ast.CompositeLit)
				if !ok {
					continue
				}
				for _, e := range cl.Elts {
					el, ok := e.(*ast.CompositeLit)
					if !ok {
						continue
					}
					var r [2]int64
					for i, fe := range el.Elts {
						var val ast.Expr = fe
						idx := i
						if kv, ok := fe.(*ast.KeyValueExpr); ok {
							val = kv.Value
							if id, ok := kv.Key.(*ast.Ident); ok && id.Name == "max" {
								idx = 1
							} else {
								idx = 0
							}
						}
						if v, ok := evalInt(val, nil); ok && idx < 2 {
							r[idx] = v
						}
					}
					ranges = append(ranges, r)
				}
			}
		}
	}
	if len(ranges) == 0 {
		fatal("connectionInitiationDelayTimeRanges not found")
	}
	sb.WriteString("Definition hub_dial_ranges : list (N * N) := [")
	for i, r := range ranges {
		if i > 0 {
			sb.WriteString("; ")
		}
		fmt.Fprintf(&sb, "(%d, %d)", r[0], r[1])
	}
	sb.WriteString("].\n")
	fmt.Fprintf(&sb, "Definition hub_max_attempt : N := %d.\n\n", len(ranges)-1)

	// the field Shutdown sets to true
	flag := ""
	if fd := hub.funcDecl("Hub", "Shutdown"); fd != nil && fd.Body != nil && fd.Recv != nil && len(fd.Recv.List[0].Names) == 1 {
		recv := fd.Recv.List[0].Names[0].Name
		ast.Inspect(fd.Body, func(n ast.Node) bool {
			as, ok := n.(*ast.AssignStmt)
			if !ok || len(as.Lhs) != 1 || len(as.Rhs) != 1 {
				return true
			}
			sel, ok := as.Lhs[0].(*ast.SelectorExpr)
			if !ok {
				return true
			}
			id, ok := sel.X.(*ast.Ident)
			rhs, ok2 := as.Rhs[0].(*ast.Ident)
			if ok && ok2 && id.Name == recv && rhs.Name == "true" && flag == "" {
				flag = sel.Sel.Name
			}
			return true
		})
	}
	// helper methods that read the flag and do nothing else with the receiver's state
	readers := map[string]bool{}
	if flag != "" {
		for _, f := range hub.files {
			for _, d := range f.Decls {
				fd, ok := d.(*ast.FuncDecl)
				if !ok || fd.Recv == nil || fd.Name.Name == "Shutdown" {
					continue
				}
				if recvFields(fd)[flag] {
					readers[fd.Name.Name] = true
				}
			}
		}
	}
	guarded := func(name string) bool {
		if flag == "" {
			return false
		}
		fd := hub.funcDecl("Hub", name)
		if fd == nil {
			fatal("hub function not found: " + name)
		}
		fs := recvFields(fd)
		if fs[flag] {
			return true
		}
		for m := range fs {
			if readers[m] {
				return true
			}
		}
		return false
	}
	b := func(v bool) string {
		if v {
			return "true"
		}
		return "false"
	}
	fmt.Fprintf(&sb, "(* Hub.Shutdown sets: %q *)\n", flag)
	fmt.Fprintf(&sb, "Definition hub_shutdown_flag : bool := %s.\n", b(flag != ""))
	fmt.Fprintf(&sb, "Definition hub_guard_coordinate : bool := %s.\n", b(guarded("coordinateConnectionInitations")))
	fmt.Fprintf(&sb, "Definition hub_guard_prepare : bool := %s.\n", b(guarded("prepareConnectionInitation")))
	fmt.Fprintf(&sb, "Definition hub_guard_initiate : bool := %s.\n", b(guarded("initateConnection")))
	fmt.Fprintf(&sb, "Definition hub_guard_reannounce : bool := %s.\n", b(guarded("checkAutoReannounce")))

	// prepareConnectionInitation: does the branch that drops a stale attempt (counter check)
	// call checkAutoReannounce?
	callsMethod := func(n ast.Node, name string) bool {
		found := false
		ast.Inspect(n, func(x ast.Node) bool {
			if ce, ok := x.(*ast.CallExpr); ok {
				if sel, ok := ce.Fun.(*ast.SelectorExpr); ok && sel.Sel.Name == name {
					found = true
				}
			}
			return true
		})
		return found
	}
	mentions := func(n ast.Node, ident string) bool {
		found := false
		ast.Inspect(n, func(x ast.Node) bool {
			if id, ok := x.(*ast.Ident); ok && id.Name == ident {
				found = true
			}
			return true
		})
		return found
	}
	stale := false
	if fd := hub.funcDecl("Hub", "prepareConnectionInitation"); fd != nil && fd.Body != nil {
		for _, st := range fd.Body.List {
			if is, ok := st.(*ast.IfStmt); ok && mentions(is.Cond, "counter") && callsMethod(is.Body, "checkAutoReannounce") {
				stale = true
			}
		}
	}
	// ServeHTTP and connectFoundService register through a function that re-applies the
	// double-connection rule under the registry lock and closes the loser
	recheck := false
	if rc := hub.funcDecl("Hub", "registerCheckedConnection"); rc != nil && rc.Body != nil &&
		callsMethod(rc.Body, "CloseConnection") && mentions(rc.Body, "connections") {
		a, b := hub.funcDecl("Hub", "ServeHTTP"), hub.funcDecl("Hub", "connectFoundService")
		recheck = a != nil && b != nil && callsMethod(a.Body, "registerCheckedConnection") && callsMethod(b.Body, "registerCheckedConnection")
	}
	// registerCheckedConnection: the already-closed check and the store into h.connections are one
	// critical section of h.muxCon - the lock is taken (top-level statement) before the statement
	// that asks IsDataConnectionClosed, and no top-level Unlock stands between that statement
	// and the store (an Unlock inside the early-return branch of the check is fine)
	atomic := false
	if rc := hub.funcDecl("Hub", "registerCheckedConnection"); rc != nil && rc.Body != nil {
		isLockCall := func(st ast.Stmt, name string) bool {
			es, ok := st.(*ast.ExprStmt)
			if !ok {
				if ds, ok := st.(*ast.DeferStmt); ok && name == "deferUnlock" {
					if sel, ok := ds.Call.Fun.(*ast.SelectorExpr); ok && sel.Sel.Name == "Unlock" {
						if in, ok := sel.X.(*ast.SelectorExpr); ok && in.Sel.Name == "muxCon" {
							return true
						}
					}
				}
				return false
			}
			ce, ok := es.X.(*ast.CallExpr)
			if !ok {
				return false
			}
			sel, ok := ce.Fun.(*ast.SelectorExpr)
			if !ok || sel.Sel.Name != name {
				return false
			}
			in, ok := sel.X.(*ast.SelectorExpr)
			return ok && in.Sel.Name == "muxCon"
		}
		storesConn := func(st ast.Stmt) bool {
			found := false
			ast.Inspect(st, func(x ast.Node) bool {
				if as, ok := x.(*ast.AssignStmt); ok {
					for _, l := range as.Lhs {
						if ix, ok := l.(*ast.IndexExpr); ok {
							if sel, ok := ix.X.(*ast.SelectorExpr); ok && sel.Sel.Name == "connections" {
								found = true
							}
						}
					}
				}
				return true
			})
			return found
		}
		lockAt, checkAt, storeAt, unlockBetween := -1, -1, -1, false
		for i, st := range rc.Body.List {
			switch {
			case isLockCall(st, "Lock") && lockAt < 0:
				lockAt = i
			case callsMethod(st, "IsDataConnectionClosed") && checkAt < 0:
				checkAt = i
			case storesConn(st) && storeAt < 0:
				storeAt = i
			case isLockCall(st, "Unlock") && checkAt >= 0 && storeAt < 0:
				unlockBetween = true
			}
		}
		atomic = lockAt >= 0 && checkAt > lockAt && storeAt > checkAt && !unlockBetween
	}
	fmt.Fprintf(&sb, "Definition hub_stale_attempt_reannounces : bool := %s.\n", b(stale))
	fmt.Fprintf(&sb, "Definition hub_register_rechecks : bool := %s.\n", b(recheck))
	fmt.Fprintf(&sb, "(* registerCheckedConnection: closed-check and registry store in one critical section of muxCon *)\n")
	fmt.Fprintf(&sb, "Definition hub_register_atomic : bool := %s.\n", b(atomic))
	writeIfChanged("HubTable.v", sb.String())
}
