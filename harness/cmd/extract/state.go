package main

import (
	"fmt"
	"go/ast"
	"strings"
)

// genStateTable: SHIP state numbering (model/types.go), ConnectionState numbering
// (api/connectionstate.go) and the switch of Hub.mapShipMessageExchangeState.
func genStateTable() {
	model := parseDir("model")
	mc := model.intConsts()
	api := parseDir("api")
	ac := api.intConsts()
	hub := parseDir("hub")

	var sb strings.Builder
	sb.WriteString("(* generated from /repo/model/types.go, /repo/api/connectionstate.go, /repo/hub/hub_pairing.go — do not edit *)\n")
	sb.WriteString("From Coq Require Import List NArith Bool.\nImport ListNotations.\nOpen Scope N_scope.\n\n")
	for _, k := range sortedKeys(mc) {
		if strings.HasPrefix(k, "Cmi") || strings.HasPrefix(k, "Sme") {
			fmt.Fprintf(&sb, "Definition %s : N := %d.\n", k, mc[k])
		}
	}
	sb.WriteString("\n")
	for _, k := range sortedKeys(ac) {
		if strings.HasPrefix(k, "ConnectionState") {
			fmt.Fprintf(&sb, "Definition %s : N := %d.\n", k, ac[k])
		}
	}
	fd := hub.funcDecl("Hub", "mapShipMessageExchangeState")
	if fd == nil {
		fatal("mapShipMessageExchangeState not found")
	}
	type arm struct {
		from []int64
		to   int64
	}
	var arms []arm
	def := int64(-1)
	ast.Inspect(fd.Body, func(n ast.Node) bool {
		sw, ok := n.(*ast.SwitchStmt)
		if !ok {
			return true
		}
		for _, c := range sw.Body.List {
			cc := c.(*ast.CaseClause)
			to := int64(-1)
			for _, st := range cc.Body {
				if as, ok := st.(*ast.AssignStmt); ok && len(as.Rhs) == 1 {
					if sel, ok := as.Rhs[0].(*ast.SelectorExpr); ok {
						if v, ok := ac[sel.Sel.Name]; ok {
							to = v
						}
					}
				}
			}
			if cc.List == nil {
				def = to
				continue
			}
			var from []int64
			for _, e := range cc.List {
				if sel, ok := e.(*ast.SelectorExpr); ok {
					if v, ok := mc[sel.Sel.Name]; ok {
						from = append(from, v)
					}
				}
			}
			arms = append(arms, arm{from, to})
		}
		return false
	})
	sb.WriteString("\n(* Hub.mapShipMessageExchangeState *)\nDefinition pair_state_of (s : N) : N :=\n  match s with\n")
	for _, a := range arms {
		for _, f := range a.from {
			fmt.Fprintf(&sb, "  | %d => %d\n", f, a.to)
		}
	}
	fmt.Fprintf(&sb, "  | _ => %d\n  end.\n", def)
	writeIfChanged("StateTable.v", sb.String())
}
