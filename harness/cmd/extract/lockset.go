package main

import (
	"encoding/json"
	"fmt"
	"os"
	"path/filepath"
	"strings"

	"verif/harness/internal/lockset"
)

// C20: Go AST -> coq/gen/Access.v (access facts with must-locksets) and
// coq/gen/Access.sites.json (source positions of the accesses, used by checks/C20.py to
// attribute race-detector reports to fields).  A failure of the analysis does not stop
// the other tables: it is written into Access.v as access_extract_ok = false, which
// breaks C20's obligations only.
func init() { heavyGens = append(heavyGens, genAccess) }

func c20Str(s string) string { return `"` + strings.ReplaceAll(s, `"`, `""`) + `"` }

const accessHeader = "(* generated from /repo/{hub,ship,ws,mdns,api}/*.go by harness/cmd/extract (internal/lockset) — do not edit *)\n" +
	"From Coq Require Import List String NArith.\nFrom Ship Require Import Lockset.\nImport ListNotations.\nOpen Scope string_scope.\n\n"

func accessFallback(why string) string {
	return accessHeader + "(* analysis failed: " + strings.ReplaceAll(why, "*)", "* )") + " *)\n" +
		"Definition access_extract_ok : bool := false.\nDefinition access_unresolved : list string := [].\nDefinition access_fields : list (string * string) := [].\nDefinition access_facts : list fact := [].\n"
}

func genAccess() {
	// fail closed: if the analysis does not come back (extract's heavy-generator deadline)
	// or fails, the table says "not extracted" and C20's obligations break
	if old, err := os.ReadFile(filepath.Join(*out, "Access.v")); err != nil || len(old) == 0 {
		writeIfChanged("Access.v", accessFallback("not finished"))
	}
	res, err := lockset.Analyze(*repo)
	var sb strings.Builder
	sb.WriteString(accessHeader)
	if err != nil {
		writeIfChanged("Access.v", accessFallback(err.Error()))
		_ = os.Remove(filepath.Join(*out, "Access.sites.json"))
		return
	}
	sb.WriteString("Definition access_extract_ok : bool := true.\n\n")
	sb.WriteString("(* selectors naming a tracked field whose base the syntactic analysis could not type *)\n")
	sb.WriteString("Definition access_unresolved : list string := [")
	for i, u := range res.Unresolved {
		if i > 0 {
			sb.WriteString("; ")
		}
		sb.WriteString(c20Str(u))
	}
	sb.WriteString("].\n\n")
	sb.WriteString("(* the data fields of the tracked structs *)\nDefinition access_fields : list (string * string) := [")
	first := true
	for _, p := range lockset.Packages {
		for _, st := range lockset.Tracked[p] {
			for _, f := range res.Structs[st] {
				if !first {
					sb.WriteString("; ")
				}
				first = false
				sb.WriteString("(" + c20Str(st) + ", " + c20Str(f) + ")")
			}
		}
	}
	sb.WriteString("].\n\n")
	fmt.Fprintf(&sb, "(* %d facts; %d functions, %d analysis contexts, %d goroutine entry points *)\n", len(res.Facts), res.Funcs, res.Contexts, res.GoBodies)
	sb.WriteString("Definition access_facts : list fact := [\n")
	for i, f := range res.Facts {
		if i > 0 {
			sb.WriteString(";\n")
		}
		sb.WriteString("  " + lockset.CoqFact(f))
	}
	sb.WriteString("\n].\n")
	writeIfChanged("Access.v", sb.String())
	b, _ := json.MarshalIndent(map[string]any{"sites": res.Sites, "structs": res.Structs, "mutexes": res.Mutexes,
		"funcs": res.Funcs, "contexts": res.Contexts, "go_bodies": res.GoBodies, "unresolved": res.Unresolved}, "", " ")
	path := filepath.Join(*out, "Access.sites.json")
	if old, err := os.ReadFile(path); err != nil || string(old) != string(b) {
		_ = os.WriteFile(path, b, 0o644)
	}
}
