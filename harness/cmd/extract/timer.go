package main

import (
	"fmt"
	"go/ast"
	"go/token"
	"sort"
	"strings"
)

// genTimerTable: source facts of the handshake timer (ship/handshake.go, ship/types.go)
// -> coq/gen/TimerTable.v
//
//   - the durations and timer types of ship/types.go,
//   - the arm/stop arms of the switch inside setState as `timer_action`,
//   - how the stop signal reaches a timer goroutine (the facts the Timer model of C14
//     depends on): is the stop channel one shared channel or a fresh one per arm, is stop
//     a non-blocking send or a close, does the goroutine re-check under the timer mutex
//     that it is still the current, running timer before it delivers.
func init() { extraGens = append(extraGens, genTimerTable) }

const stopChanField = "handshakeTimerStopChan"

func isSel(e ast.Expr, field string) bool {
	s, ok := e.(*ast.SelectorExpr)
	return ok && s.Sel.Name == field
}

func isCallTo(e ast.Expr, name string) (*ast.CallExpr, bool) {
	c, ok := e.(*ast.CallExpr)
	if !ok {
		return nil, false
	}
	switch f := c.Fun.(type) {
	case *ast.Ident:
		return c, f.Name == name
	case *ast.SelectorExpr:
		return c, f.Sel.Name == name
	}
	return c, false
}

func mentions(n ast.Node, name string) bool {
	found := false
	ast.Inspect(n, func(x ast.Node) bool {
		switch v := x.(type) {
		case *ast.Ident:
			if v.Name == name {
				found = true
			}
		}
		return !found
	})
	return found
}

func genTimerTable() {
	ship := parseDir("ship")
	sc := ship.intConsts()
	model := parseDir("model")
	mc := model.intConsts()

	var sb strings.Builder
	sb.WriteString("(* generated from /repo/ship/types.go and /repo/ship/handshake.go — do not edit *)\n")
	sb.WriteString("From Coq Require Import List NArith Bool.\nImport ListNotations.\nOpen Scope N_scope.\n\n")

	// ---- durations (milliseconds) and timer types
	sb.WriteString("(* durations of ship/types.go, in milliseconds *)\n")
	durNames := []string{}
	for _, k := range sortedKeys(sc) {
		if k == "cmiTimeout" || k == "cmiCloseTimeout" || strings.HasPrefix(k, "tHello") {
			durNames = append(durNames, k)
		}
	}
	for _, k := range durNames {
		fmt.Fprintf(&sb, "Definition %s_ms : N := %d.\n", k, sc[k]/1000000)
	}
	sb.WriteString("\n(* timeoutTimerType values *)\n")
	for _, k := range sortedKeys(sc) {
		if strings.HasPrefix(k, "timeoutTimerType") && k != "timeoutTimerType" {
			fmt.Fprintf(&sb, "Definition %s : N := %d.\n", k, sc[k])
		}
	}

	// ---- setState's switch: which new states arm / stop the handshake timer
	fd := ship.funcDecl("ShipConnection", "setState")
	if fd == nil {
		fatal("ShipConnection.setState not found")
	}
	type act struct {
		arm    bool
		ty, ms int64
	}
	acts := map[int64]act{}
	names := map[int64]string{}
	foundSwitch := false
	ast.Inspect(fd.Body, func(n ast.Node) bool {
		sw, ok := n.(*ast.SwitchStmt)
		if !ok {
			return true
		}
		if id, ok := sw.Tag.(*ast.Ident); !ok || id.Name != "newState" {
			return true
		}
		foundSwitch = true
		for _, c := range sw.Body.List {
			cc := c.(*ast.CaseClause)
			var a *act
			for _, st := range cc.Body {
				es, ok := st.(*ast.ExprStmt)
				if !ok {
					continue
				}
				if call, ok := isCallTo(es.X, "setHandshakeTimer"); ok && len(call.Args) == 2 {
					ty, ok1 := evalInt(call.Args[0], sc)
					d, ok2 := evalInt(call.Args[1], sc)
					if !ok1 || !ok2 {
						fatal("setState: cannot evaluate the arguments of setHandshakeTimer")
					}
					a = &act{true, ty, d / 1000000}
				} else if _, ok := isCallTo(es.X, "stopHandshakeTimer"); ok {
					a = &act{false, 0, 0}
				}
			}
			if a == nil {
				continue
			}
			if cc.List == nil {
				fatal("setState: timer action in the default arm is not representable in timer_action")
			}
			for _, e := range cc.List {
				sel, ok := e.(*ast.SelectorExpr)
				if !ok {
					fatal("setState: case label is not model.<State>")
				}
				v, ok := mc[sel.Sel.Name]
				if !ok {
					fatal("setState: unknown state", sel.Sel.Name)
				}
				acts[v] = *a
				names[v] = sel.Sel.Name
			}
		}
		return false
	})
	if !foundSwitch {
		fatal("setState: switch newState not found")
	}
	keys := make([]int64, 0, len(acts))
	for k := range acts {
		keys = append(keys, k)
	}
	sort.Slice(keys, func(i, j int) bool { return keys[i] < keys[j] })
	sb.WriteString("\n(* ShipConnection.setState: what entering state s does to the handshake timer.\n")
	sb.WriteString("   None              = keep (setState does not touch the timer for s)\n")
	sb.WriteString("   Some (false,_,_)  = stopHandshakeTimer()\n")
	sb.WriteString("   Some (true,ty,ms) = setHandshakeTimer(ty, ms milliseconds)  (ty: timeoutTimerType value) *)\n")
	sb.WriteString("Definition timer_action (s : N) : option (bool * N * N) :=\n  match s with\n")
	for _, k := range keys {
		a := acts[k]
		if a.arm {
			fmt.Fprintf(&sb, "  | %d => Some (true, %d, %d)   (* %s *)\n", k, a.ty, a.ms, names[k])
		} else {
			fmt.Fprintf(&sb, "  | %d => Some (false, 0, 0)   (* %s *)\n", k, names[k])
		}
	}
	sb.WriteString("  | _ => None\n  end.\n")

	// ---- the stop mechanism
	arm := ship.funcDecl("ShipConnection", "setHandshakeTimer")
	stop := ship.funcDecl("ShipConnection", "stopHandshakeTimer")
	if arm == nil || stop == nil {
		fatal("setHandshakeTimer / stopHandshakeTimer not found")
	}
	b := func(v bool) string {
		if v {
			return "true"
		}
		return "false"
	}

	// stop: close(c.handshakeTimerStopChan)?  non-blocking send (send inside a select with default)?  bare send?
	stopClose, stopNbSend, stopBareSend, stopUnderMux, stopChecksRunning := false, false, false, false, false
	inSelectSend := map[*ast.SendStmt]bool{}
	ast.Inspect(stop.Body, func(n ast.Node) bool {
		switch v := n.(type) {
		case *ast.CallExpr:
			if c, ok := isCallTo(v, "close"); ok && len(c.Args) == 1 && isSel(c.Args[0], stopChanField) {
				stopClose = true
			}
			if s, ok := v.Fun.(*ast.SelectorExpr); ok && s.Sel.Name == "Lock" && isSel(s.X, "handshakeTimerMux") {
				stopUnderMux = true
			}
		case *ast.SelectStmt:
			hasDefault := false
			var sends []*ast.SendStmt
			for _, c := range v.Body.List {
				cc := c.(*ast.CommClause)
				if cc.Comm == nil {
					hasDefault = true
				} else if s, ok := cc.Comm.(*ast.SendStmt); ok && isSel(s.Chan, stopChanField) {
					sends = append(sends, s)
				}
			}
			for _, s := range sends {
				inSelectSend[s] = true
				if hasDefault {
					stopNbSend = true
				} else {
					stopBareSend = true
				}
			}
		case *ast.SendStmt:
			if isSel(v.Chan, stopChanField) && !inSelectSend[v] {
				stopBareSend = true
			}
		case *ast.IfStmt:
			if mentions(v.Cond, "handshakeTimerRunning") || mentions(v.Cond, "getHandshakeTimerRunning") {
				stopChecksRunning = true
			}
		}
		return true
	})

	// arm: fresh channel per arm?  stops (closes / calls stop on) the previous timer first?
	perArm, armStops, armUnderMux := false, false, false
	localChans := map[string]bool{}
	var goFn *ast.FuncLit
	ast.Inspect(arm.Body, func(n ast.Node) bool {
		switch v := n.(type) {
		case *ast.GoStmt:
			if fl, ok := v.Call.Fun.(*ast.FuncLit); ok {
				goFn = fl
			}
			return false
		case *ast.AssignStmt:
			for i, l := range v.Lhs {
				if i >= len(v.Rhs) {
					break
				}
				_, isMake := isCallTo(v.Rhs[i], "make")
				if id, ok := l.(*ast.Ident); ok && v.Tok == token.DEFINE && isMake {
					localChans[id.Name] = true
				}
				if isSel(l, stopChanField) {
					if isMake {
						perArm = true
					} else if id, ok := v.Rhs[i].(*ast.Ident); ok && localChans[id.Name] {
						perArm = true
					}
				}
			}
		case *ast.CallExpr:
			if _, ok := isCallTo(v, "stopHandshakeTimer"); ok {
				armStops = true
			}
			if c, ok := isCallTo(v, "close"); ok && len(c.Args) == 1 && isSel(c.Args[0], stopChanField) {
				armStops = true
			}
			if s, ok := v.Fun.(*ast.SelectorExpr); ok && s.Sel.Name == "Lock" && isSel(s.X, "handshakeTimerMux") {
				armUnderMux = true
			}
		}
		return true
	})
	if goFn == nil {
		fatal("setHandshakeTimer: timer goroutine not found")
	}

	// goroutine: receives from the shared field or from its own (captured) channel; in the
	// time.After arm: a check, under handshakeTimerMux, that the timer is still running and
	// its channel still the current one, returning without delivery otherwise
	recvShared, recvLocal, genCheck, delivers := false, false, false, false
	ast.Inspect(goFn.Body, func(n ast.Node) bool {
		sel, ok := n.(*ast.SelectStmt)
		if !ok {
			return true
		}
		for _, c := range sel.Body.List {
			cc := c.(*ast.CommClause)
			if cc.Comm == nil {
				continue
			}
			var rx ast.Expr
			if es, ok := cc.Comm.(*ast.ExprStmt); ok {
				if u, ok := es.X.(*ast.UnaryExpr); ok && u.Op == token.ARROW {
					rx = u.X
				}
			}
			if rx == nil {
				continue
			}
			if isSel(rx, stopChanField) {
				recvShared = true
				continue
			}
			if id, ok := rx.(*ast.Ident); ok && localChans[id.Name] {
				recvLocal = true
				continue
			}
			if _, ok := isCallTo(rx, "After"); ok {
				locked := false
				for _, st := range cc.Body {
					if es, ok := st.(*ast.ExprStmt); ok {
						if call, ok := es.X.(*ast.CallExpr); ok {
							if s, ok := call.Fun.(*ast.SelectorExpr); ok && s.Sel.Name == "Lock" && isSel(s.X, "handshakeTimerMux") {
								locked = true
							}
							if _, ok := isCallTo(call, "handleState"); ok {
								delivers = true
							}
						}
					}
					if ifs, ok := st.(*ast.IfStmt); ok && locked {
						cmpChan := false
						ast.Inspect(ifs.Cond, func(x ast.Node) bool {
							if be, ok := x.(*ast.BinaryExpr); ok && be.Op == token.NEQ {
								l, r := be.X, be.Y
								lid, lok := l.(*ast.Ident)
								rid, rok := r.(*ast.Ident)
								if (isSel(l, stopChanField) && rok && localChans[rid.Name]) ||
									(isSel(r, stopChanField) && lok && localChans[lid.Name]) {
									cmpChan = true
								}
							}
							return true
						})
						returns := false
						for _, s2 := range ifs.Body.List {
							if _, ok := s2.(*ast.ReturnStmt); ok {
								returns = true
							}
						}
						if cmpChan && mentions(ifs.Cond, "handshakeTimerRunning") && returns {
							genCheck = true
						}
					}
				}
			}
		}
		return false
	})
	if !delivers {
		fatal("setHandshakeTimer: the time.After arm no longer calls handleState")
	}

	sb.WriteString("\n(* how a stop reaches a timer goroutine (ship/handshake.go setHandshakeTimer / stopHandshakeTimer) *)\n")
	fmt.Fprintf(&sb, "Definition timer_stop_is_close : bool := %s.            (* stop closes the stop channel *)\n", b(stopClose))
	fmt.Fprintf(&sb, "Definition timer_stop_send_nonblocking : bool := %s.    (* stop = send inside select with default *)\n", b(stopNbSend))
	fmt.Fprintf(&sb, "Definition timer_stop_send_blocking : bool := %s.       (* stop = blocking send *)\n", b(stopBareSend))
	fmt.Fprintf(&sb, "Definition timer_stop_checks_running : bool := %s.      (* stop does nothing when the running flag is clear *)\n", b(stopChecksRunning))
	fmt.Fprintf(&sb, "Definition timer_stop_under_mutex : bool := %s.         (* stop's body holds handshakeTimerMux *)\n", b(stopUnderMux))
	fmt.Fprintf(&sb, "Definition timer_chan_per_arm : bool := %s.             (* arm installs a fresh stop channel *)\n", b(perArm))
	fmt.Fprintf(&sb, "Definition timer_arm_stops_previous : bool := %s.       (* arm stops / closes the previous timer first *)\n", b(armStops))
	fmt.Fprintf(&sb, "Definition timer_arm_under_mutex : bool := %s.          (* arm's bookkeeping holds handshakeTimerMux *)\n", b(armUnderMux))
	fmt.Fprintf(&sb, "Definition timer_goroutine_recv_shared : bool := %s.    (* goroutine receives from the connection's field *)\n", b(recvShared))
	fmt.Fprintf(&sb, "Definition timer_goroutine_recv_own : bool := %s.       (* goroutine receives from its own channel *)\n", b(recvLocal))
	fmt.Fprintf(&sb, "Definition timer_generation_check : bool := %s.         (* still-running-and-current check under the mutex before delivery *)\n", b(genCheck))

	// 0 = one shared unbuffered channel, stop is a non-blocking send, no check before delivery
	// 1 = fresh channel per arm, stop closes it under the mutex, generation check under the mutex
	// 2 = anything else: the Timer model does not cover it
	mech := 2
	if !stopClose && stopNbSend && !stopBareSend && stopChecksRunning && !perArm && armStops && recvShared && !recvLocal && !genCheck {
		mech = 0
	}
	if stopClose && !stopNbSend && !stopBareSend && stopChecksRunning && stopUnderMux && perArm && armStops && armUnderMux &&
		!recvShared && recvLocal && genCheck {
		mech = 1
	}
	sb.WriteString("\n(* 0 = shared unbuffered stop channel + non-blocking send, no check before delivery;\n")
	sb.WriteString("   1 = stop channel per arm, closed by stop under the mutex, generation check under the mutex before delivery;\n")
	sb.WriteString("   2 = none of these (the Timer model does not cover the code) *)\n")
	fmt.Fprintf(&sb, "Definition timer_mechanism_code : N := %d.\n", mech)
	writeIfChanged("TimerTable.v", sb.String())
}
