package main

import (
	"fmt"
	"go/ast"
	"go/token"
	"strconv"
	"strings"
)

// genCertTable (C02): everything the peer-identity model takes from the source:
//   - the tls.Config literal of Hub.startWebsocketServer (MinVersion, ClientAuth, CipherSuites,
//     VerifyPeerCertificate, ClientCAs/MaxVersion present or not),
//   - what Hub.verifyPeerCertificate calls to recognise a SKI,
//   - the sub-protocol list of the upgrader and the decision sequence of Hub.ServeHTTP,
//   - the decision sequence of Hub.connectFoundService after the dial,
//   - the length constant of cert.SkiFromCertificate and whether it compares the extension
//     with a SHA-1 hash computed from the certificate's public key,
//   - what cert.CreateCertificate hashes into template.SubjectKeyId.
func init() { extraGens = append(extraGens, genCertTable) }

var c02TlsVersions = map[string]int64{"VersionSSL30": 0x0300, "VersionTLS10": 0x0301, "VersionTLS11": 0x0302, "VersionTLS12": 0x0303, "VersionTLS13": 0x0304}
var c02TlsClientAuth = map[string]int64{"NoClientCert": 0, "RequestClientCert": 1, "RequireAnyClientCert": 2, "VerifyClientCertIfGiven": 3, "RequireAndVerifyClientCert": 4}

// cipher suite ids (crypto/tls) and whether the suite exists only from TLS 1.2 on
var c02TlsSuites = map[string][2]int64{
	"TLS_RSA_WITH_AES_128_CBC_SHA":                  {0x002f, 0},
	"TLS_RSA_WITH_AES_256_CBC_SHA":                  {0x0035, 0},
	"TLS_RSA_WITH_AES_128_CBC_SHA256":               {0x003c, 1},
	"TLS_RSA_WITH_AES_128_GCM_SHA256":               {0x009c, 1},
	"TLS_RSA_WITH_AES_256_GCM_SHA384":               {0x009d, 1},
	"TLS_ECDHE_ECDSA_WITH_AES_128_CBC_SHA":          {0xc009, 0},
	"TLS_ECDHE_ECDSA_WITH_AES_256_CBC_SHA":          {0xc00a, 0},
	"TLS_ECDHE_RSA_WITH_AES_128_CBC_SHA":            {0xc013, 0},
	"TLS_ECDHE_RSA_WITH_AES_256_CBC_SHA":            {0xc014, 0},
	"TLS_ECDHE_ECDSA_WITH_AES_128_CBC_SHA256":       {0xc023, 1},
	"TLS_ECDHE_RSA_WITH_AES_128_CBC_SHA256":         {0xc027, 1},
	"TLS_ECDHE_RSA_WITH_AES_128_GCM_SHA256":         {0xc02f, 1},
	"TLS_ECDHE_ECDSA_WITH_AES_128_GCM_SHA256":       {0xc02b, 1},
	"TLS_ECDHE_RSA_WITH_AES_256_GCM_SHA384":         {0xc030, 1},
	"TLS_ECDHE_ECDSA_WITH_AES_256_GCM_SHA384":       {0xc02c, 1},
	"TLS_ECDHE_RSA_WITH_CHACHA20_POLY1305_SHA256":   {0xcca8, 1},
	"TLS_ECDHE_ECDSA_WITH_CHACHA20_POLY1305_SHA256": {0xcca9, 1},
}

func c02SelName(e ast.Expr) (string, string) {
	if s, ok := e.(*ast.SelectorExpr); ok {
		if id, ok := s.X.(*ast.Ident); ok {
			return id.Name, s.Sel.Name
		}
	}
	return "", ""
}

// string constants of a package (literal values only)
func (p *pkgFiles) c02StrConsts() map[string]string {
	res := map[string]string{}
	for _, f := range p.files {
		for _, d := range f.Decls {
			gd, ok := d.(*ast.GenDecl)
			if !ok || gd.Tok != token.CONST {
				continue
			}
			for _, s := range gd.Specs {
				vs := s.(*ast.ValueSpec)
				for j, n := range vs.Names {
					if j < len(vs.Values) {
						if bl, ok := vs.Values[j].(*ast.BasicLit); ok && bl.Kind == token.STRING {
							if v, err := strconv.Unquote(bl.Value); err == nil {
								res[n.Name] = v
							}
						}
					}
				}
			}
		}
	}
	return res
}

func (p *pkgFiles) c02VarDecl(name string) ast.Expr {
	for _, f := range p.files {
		for _, d := range f.Decls {
			gd, ok := d.(*ast.GenDecl)
			if !ok || gd.Tok != token.VAR {
				continue
			}
			for _, s := range gd.Specs {
				vs := s.(*ast.ValueSpec)
				for j, n := range vs.Names {
					if n.Name == name && j < len(vs.Values) {
						return vs.Values[j]
					}
				}
			}
		}
	}
	return nil
}

func c02Bytes(s string) string {
	parts := make([]string, 0, len(s))
	for i := 0; i < len(s); i++ {
		parts = append(parts, strconv.Itoa(int(s[i])))
	}
	return "[" + strings.Join(parts, "; ") + "]"
}

func c02NList(xs []int64) string {
	parts := make([]string, 0, len(xs))
	for _, x := range xs {
		parts = append(parts, strconv.FormatInt(x, 10))
	}
	return "[" + strings.Join(parts, "; ") + "]"
}

// c02HasCall reports whether n contains a call whose callee is pkg.name (pkg may be "",
// then any selector or identifier with that name matches).
func c02HasCall(n ast.Node, pkg, name string) bool {
	found := false
	if n == nil {
		return false
	}
	ast.Inspect(n, func(c ast.Node) bool {
		ce, ok := c.(*ast.CallExpr)
		if !ok {
			return true
		}
		switch f := ce.Fun.(type) {
		case *ast.SelectorExpr:
			if f.Sel.Name == name {
				if pkg == "" {
					found = true
				} else if id, ok := f.X.(*ast.Ident); ok && id.Name == pkg {
					found = true
				}
			}
		case *ast.Ident:
			if pkg == "" && f.Name == name {
				found = true
			}
		}
		return true
	})
	return found
}

func c02HasSel(n ast.Node, name string) bool {
	found := false
	if n == nil {
		return false
	}
	ast.Inspect(n, func(c ast.Node) bool {
		if s, ok := c.(*ast.SelectorExpr); ok && s.Sel.Name == name {
			found = true
		}
		return true
	})
	return found
}

// c02EndsRet: the block's last statement is a return (the refusing arm leaves the function)
func c02EndsRet(b *ast.BlockStmt) bool {
	if b == nil || len(b.List) == 0 {
		return false
	}
	_, ok := b.List[len(b.List)-1].(*ast.ReturnStmt)
	return ok
}

// writes on the websocket connection (anything that would put bytes on the wire)
var c02WsWrites = []string{"WriteMessage", "WriteJSON", "WriteControl", "WritePreparedMessage", "NextWriter", "WriteMessageToWebsocketConnection"}

func c02HasWsWrite(n ast.Node) bool {
	for _, w := range c02WsWrites {
		if c02HasCall(n, "", w) {
			return true
		}
	}
	return false
}

// c02Steps classifies the top-level statements of a function body (from the first statement
// on) into the step codes documented in the generated file.  Statements that are none of
// the recognised kinds and cannot put bytes on the wire or create a connection are skipped.
func c02Steps(body *ast.BlockStmt, inbound bool) []int64 {
	var steps []int64
	for _, st := range body.List {
		switch x := st.(type) {
		case *ast.IfStmt:
			refuses := c02EndsRet(x.Body) && c02HasCall(x.Body, "", "Close")
			cond := ast.Node(x.Cond)
			code := int64(0)
			switch {
			case inbound && c02HasCall(cond, "", "Subprotocol"):
				if be, ok := x.Cond.(*ast.BinaryExpr); ok && be.Op == token.NEQ {
					code = 1
				} else {
					code = 9
				}
			case c02HasSel(cond, "PeerCertificates") || (!inbound && c02LenZero(x.Cond, "remoteCerts")):
				code = 2
			case x.Init != nil && c02HasCall(x.Init, "cert", "SkiFromCertificate"):
				code = 3
			case c02HasCall(cond, "", "keepThisConnection"):
				code = 5
				refuses = c02EndsRet(x.Body)
			case !inbound && c02NeqSKI(x.Cond):
				code = 4
			case c02ErrNotNil(x.Cond):
				// `if err != nil { … return }` directly after `ski, err := cert.SkiFromCertificate(...)`
				if len(steps) > 0 && steps[len(steps)-1] == 30 {
					steps[len(steps)-1] = 3
					if !refuses {
						steps[len(steps)-1] = 9
					}
					continue
				}
				if c02HasWsWrite(x) {
					code = 9
				}
			default:
				if c02HasWsWrite(x) || c02HasCall(x, "", "NewConnectionHandler") {
					code = 9
				}
			}
			if code != 0 {
				if !refuses && code != 9 {
					code = 9 // a recognised check whose failing arm does not close and return
				}
				steps = append(steps, code)
			}
		case *ast.AssignStmt:
			if c02HasCall(x, "cert", "SkiFromCertificate") {
				steps = append(steps, 30) // pending: must be followed by the err check
			} else if c02HasCall(x, "", "NewConnectionHandler") {
				steps = append(steps, 6)
			} else if c02HasWsWrite(x) {
				steps = append(steps, 9)
			}
		case *ast.ExprStmt:
			if c02HasCall(x, "", "Run") {
				steps = append(steps, 7)
			} else if c02HasCall(x, "", "registerConnection") || c02HasCall(x, "", "registerCheckedConnection") {
				steps = append(steps, 8)
			} else if c02HasWsWrite(x) {
				steps = append(steps, 9)
			}
		case *ast.ReturnStmt, *ast.DeclStmt, *ast.DeferStmt:
		default:
			if c02HasWsWrite(st) || c02HasCall(st, "", "NewConnectionHandler") {
				steps = append(steps, 9)
			}
		}
	}
	for i, s := range steps {
		if s == 30 {
			steps[i] = 9
		}
	}
	return steps
}

func c02LenZero(e ast.Expr, name string) bool {
	found := false
	ast.Inspect(e, func(c ast.Node) bool {
		be, ok := c.(*ast.BinaryExpr)
		if !ok || be.Op != token.EQL {
			return true
		}
		if ce, ok := be.X.(*ast.CallExpr); ok {
			if id, ok := ce.Fun.(*ast.Ident); ok && id.Name == "len" && len(ce.Args) == 1 {
				if a, ok := ce.Args[0].(*ast.Ident); ok && a.Name == name {
					if bl, ok := be.Y.(*ast.BasicLit); ok && bl.Value == "0" {
						found = true
					}
				}
			}
		}
		return true
	})
	return found
}

func c02ErrNotNil(e ast.Expr) bool {
	be, ok := e.(*ast.BinaryExpr)
	if !ok || be.Op != token.NEQ {
		return false
	}
	a, ok1 := be.X.(*ast.Ident)
	b, ok2 := be.Y.(*ast.Ident)
	return ok1 && ok2 && a.Name == "err" && b.Name == "nil"
}

// remoteSKI != remoteService.SKI()
func c02NeqSKI(e ast.Expr) bool {
	be, ok := e.(*ast.BinaryExpr)
	if !ok || be.Op != token.NEQ {
		return false
	}
	return c02HasCall(be.Y, "", "SKI") || c02HasCall(be.X, "", "SKI")
}

func genCertTable() {
	hub := parseDir("hub")
	crt := parseDir("cert")
	api := parseDir("api")
	apiStr := api.c02StrConsts()

	var sb strings.Builder
	sb.WriteString("(* generated from /repo/hub/hub_connections.go, /repo/cert/cert.go, /repo/api/websocket.go by harness/cmd/extract — do not edit *)\n")
	sb.WriteString("From Coq Require Import List NArith Bool.\nImport ListNotations.\nOpen Scope N_scope.\n\n")

	// ---- tls.Config of the websocket server
	fd := hub.funcDecl("Hub", "startWebsocketServer")
	if fd == nil {
		fatal("Hub.startWebsocketServer not found")
	}
	var cfg *ast.CompositeLit
	ast.Inspect(fd.Body, func(n ast.Node) bool {
		cl, ok := n.(*ast.CompositeLit)
		if !ok {
			return true
		}
		if p, s := c02SelName(cl.Type); p == "tls" && s == "Config" {
			cfg = cl
			return false
		}
		return true
	})
	if cfg == nil {
		fatal("tls.Config literal not found in startWebsocketServer")
	}
	minVersion, clientAuth := int64(0), int64(0) // Go's defaults when the key is absent: 0 = library default, NoClientCert
	minKnown, authKnown := true, true
	hasVerify, hasClientCAs, hasMaxVersion, hasGetConfig := false, false, false, false
	suitesExpr := ast.Expr(nil)
	for _, el := range cfg.Elts {
		kv, ok := el.(*ast.KeyValueExpr)
		if !ok {
			continue
		}
		key, _ := kv.Key.(*ast.Ident)
		if key == nil {
			continue
		}
		switch key.Name {
		case "MinVersion":
			if p, s := c02SelName(kv.Value); p == "tls" {
				v, ok := c02TlsVersions[s]
				minVersion, minKnown = v, ok
			} else if v, ok := evalInt(kv.Value, nil); ok {
				minVersion = v
			} else {
				minKnown = false
			}
		case "ClientAuth":
			if p, s := c02SelName(kv.Value); p == "tls" {
				v, ok := c02TlsClientAuth[s]
				clientAuth, authKnown = v, ok
			} else {
				authKnown = false
			}
		case "CipherSuites":
			suitesExpr = kv.Value
		case "VerifyPeerCertificate":
			if _, s := c02SelName(kv.Value); s == "verifyPeerCertificate" {
				hasVerify = true
			}
		case "ClientCAs":
			hasClientCAs = true
		case "MaxVersion":
			hasMaxVersion = true
		case "GetConfigForClient":
			hasGetConfig = true
		}
	}
	if minVersion == 0 && minKnown {
		// absent: crypto/tls defaults to TLS 1.2 for servers since Go 1.22 (1.0 before, or with GODEBUG=tls10server=1);
		// the model must not rely on a default, record it as 1.0
		minVersion = 0x0301
	}
	var suites, suites12 []int64
	suitesKnown := suitesExpr != nil
	if p, s := c02SelName(suitesExpr); suitesExpr != nil && p == "cert" {
		suitesExpr = crt.c02VarDecl(s)
	}
	if cl, ok := suitesExpr.(*ast.CompositeLit); ok {
		for _, el := range cl.Elts {
			if p, s := c02SelName(el); p == "tls" {
				if v, ok := c02TlsSuites[s]; ok {
					suites = append(suites, v[0])
					suites12 = append(suites12, v[1])
					continue
				}
			}
			suitesKnown = false
		}
	} else {
		suitesKnown = false
	}
	fmt.Fprintf(&sb, "(* tls.Config literal of Hub.startWebsocketServer *)\n")
	fmt.Fprintf(&sb, "Definition tls_min_version : N := %d.  (* 769 = TLS 1.0 … 771 = TLS 1.2, 772 = TLS 1.3 *)\n", minVersion)
	fmt.Fprintf(&sb, "Definition tls_client_auth : N := %d.  (* 0 NoClientCert 1 Request 2 RequireAny 3 VerifyIfGiven 4 RequireAndVerify *)\n", clientAuth)
	fmt.Fprintf(&sb, "Definition tls_config_known : bool := %v.  (* MinVersion / ClientAuth are constants of crypto/tls the translator knows *)\n", minKnown && authKnown)
	fmt.Fprintf(&sb, "Definition tls_verify_peer_set : bool := %v.  (* VerifyPeerCertificate: h.verifyPeerCertificate *)\n", hasVerify)
	fmt.Fprintf(&sb, "Definition tls_client_cas_set : bool := %v.\n", hasClientCAs)
	fmt.Fprintf(&sb, "Definition tls_max_version_set : bool := %v.\n", hasMaxVersion)
	fmt.Fprintf(&sb, "Definition tls_get_config_set : bool := %v.\n", hasGetConfig)
	fmt.Fprintf(&sb, "Definition tls_cipher_suites : list N := %s.\n", c02NList(suites))
	fmt.Fprintf(&sb, "Definition tls_cipher_suites_tls12_only : list N := %s.  (* 1 = the suite exists from TLS 1.2 on *)\n", c02NList(suites12))
	fmt.Fprintf(&sb, "Definition tls_cipher_suites_known : bool := %v.\n\n", suitesKnown)

	// ---- verifyPeerCertificate
	vp := hub.funcDecl("Hub", "verifyPeerCertificate")
	if vp == nil {
		fatal("Hub.verifyPeerCertificate not found")
	}
	fmt.Fprintf(&sb, "(* Hub.verifyPeerCertificate accepts as soon as cert.SkiFromCertificate succeeds on one certificate *)\n")
	fmt.Fprintf(&sb, "Definition verify_peer_uses_ski_from_cert : bool := %v.\n\n", c02HasCall(vp.Body, "cert", "SkiFromCertificate"))

	// ---- ServeHTTP
	sh := hub.funcDecl("Hub", "ServeHTTP")
	if sh == nil {
		fatal("Hub.ServeHTTP not found")
	}
	var serverProtos []string
	protosKnown := false
	required := ""
	requiredKnown := false
	ast.Inspect(sh.Body, func(n ast.Node) bool {
		switch x := n.(type) {
		case *ast.KeyValueExpr:
			if k, ok := x.Key.(*ast.Ident); ok && k.Name == "Subprotocols" {
				if cl, ok := x.Value.(*ast.CompositeLit); ok {
					protosKnown = true
					for _, el := range cl.Elts {
						if v, ok := c02StrValue(el, apiStr); ok {
							serverProtos = append(serverProtos, v)
						} else {
							protosKnown = false
						}
					}
				}
			}
		case *ast.BinaryExpr:
			if x.Op == token.NEQ && c02HasCall(x.X, "", "Subprotocol") {
				if v, ok := c02StrValue(x.Y, apiStr); ok {
					required, requiredKnown = v, true
				}
			}
		}
		return true
	})
	fmt.Fprintf(&sb, "(* Hub.ServeHTTP: upgrader.Subprotocols, the string conn.Subprotocol() is compared with *)\n")
	parts := []string{}
	for _, p := range serverProtos {
		parts = append(parts, c02Bytes(p))
	}
	fmt.Fprintf(&sb, "Definition ws_server_subprotocols : list (list N) := [%s].\n", strings.Join(parts, "; "))
	fmt.Fprintf(&sb, "Definition ws_required_subprotocol : list N := %s.  (* %q *)\n", c02Bytes(required), required)
	fmt.Fprintf(&sb, "Definition ws_subprotocols_known : bool := %v.\n", protosKnown && requiredKnown)
	fmt.Fprintf(&sb, "(* decision sequence (top-level statements, in order):\n")
	fmt.Fprintf(&sb, "   1 sub-protocol check  2 peer-certificate-present check  3 cert.SkiFromCertificate on the first certificate, error refuses\n")
	fmt.Fprintf(&sb, "   4 presented SKI <> dialled SKI refuses (outbound)  5 keepThisConnection  6 ship.NewConnectionHandler  7 Run()  8 registerConnection or registerCheckedConnection\n")
	fmt.Fprintf(&sb, "   9 something the translator does not understand (a check that does not close-and-return, a write on the socket) *)\n")
	fmt.Fprintf(&sb, "Definition inbound_steps : list N := %s.\n\n", c02NList(c02Steps(sh.Body, true)))

	// ---- connectFoundService
	cf := hub.funcDecl("Hub", "connectFoundService")
	if cf == nil {
		fatal("Hub.connectFoundService not found")
	}
	fmt.Fprintf(&sb, "(* Hub.connectFoundService, same step codes *)\n")
	fmt.Fprintf(&sb, "Definition outbound_steps : list N := %s.\n\n", c02NList(c02Steps(cf.Body, false)))

	// ---- cert.SkiFromCertificate
	sf := crt.funcDecl("", "SkiFromCertificate")
	if sf == nil {
		fatal("cert.SkiFromCertificate not found")
	}
	skiLen, lenKnown := int64(0), false
	ast.Inspect(sf.Body, func(n ast.Node) bool {
		ifs, ok := n.(*ast.IfStmt)
		if !ok {
			return true
		}
		if be, ok := ifs.Cond.(*ast.BinaryExpr); ok && be.Op == token.NEQ && c02EndsRet(ifs.Body) {
			if ce, ok := be.X.(*ast.CallExpr); ok {
				if id, ok := ce.Fun.(*ast.Ident); ok && id.Name == "len" {
					if v, ok := evalInt(be.Y, nil); ok && !lenKnown {
						skiLen, lenKnown = v, true
					}
				}
			}
		}
		return true
	})
	checksKey := c02SkiChecksKey(crt, sf)
	usesX := false
	ast.Inspect(sf.Body, func(n ast.Node) bool {
		if ce, ok := n.(*ast.CallExpr); ok {
			if p, s := c02SelName(ce.Fun); p == "fmt" && s == "Sprintf" && len(ce.Args) == 2 {
				if bl, ok := ce.Args[0].(*ast.BasicLit); ok && (bl.Value == `"%0x"` || bl.Value == `"%x"` || bl.Value == `"%02x"`) {
					usesX = true
				}
			}
		}
		return true
	})
	fmt.Fprintf(&sb, "(* cert.SkiFromCertificate *)\n")
	fmt.Fprintf(&sb, "Definition ski_len : N := %d.  (* len(subjectKeyId) != N refuses *)\n", skiLen)
	fmt.Fprintf(&sb, "Definition ski_len_known : bool := %v.\n", lenKnown)
	fmt.Fprintf(&sb, "Definition ski_checks_key : bool := %v.  (* refuses unless the extension equals sha1.Sum of the certificate's subjectPublicKey bits *)\n", checksKey)
	fmt.Fprintf(&sb, "Definition ski_formats_lower_hex : bool := %v.  (* result is fmt.Sprintf(\"%%0x\", subjectKeyId) *)\n\n", usesX)

	// ---- cert.CreateCertificate
	cc := crt.funcDecl("", "CreateCertificate")
	if cc == nil {
		fatal("cert.CreateCertificate not found")
	}
	genSha1, genSets := false, false
	ast.Inspect(cc.Body, func(n ast.Node) bool {
		switch x := n.(type) {
		case *ast.AssignStmt:
			if len(x.Lhs) == 1 && len(x.Rhs) == 1 {
				if id, ok := x.Lhs[0].(*ast.Ident); ok && id.Name == "ski" && c02HasCall(x.Rhs[0], "sha1", "Sum") && c02HasCall(x.Rhs[0], "", "Bytes") {
					genSha1 = true
				}
			}
		case *ast.KeyValueExpr:
			if k, ok := x.Key.(*ast.Ident); ok && k.Name == "SubjectKeyId" {
				if se, ok := x.Value.(*ast.SliceExpr); ok && se.Low == nil && se.High == nil {
					if id, ok := se.X.(*ast.Ident); ok && id.Name == "ski" {
						genSets = true
					}
				}
			}
		}
		return true
	})
	fmt.Fprintf(&sb, "(* cert.CreateCertificate: template.SubjectKeyId = sha1.Sum(publicKey.Bytes())[:] *)\n")
	fmt.Fprintf(&sb, "Definition gen_ski_is_sha1_of_key : bool := %v.\n", genSha1 && genSets)
	writeIfChanged("CertTable.v", sb.String())
}

func c02StrValue(e ast.Expr, consts map[string]string) (string, bool) {
	switch x := e.(type) {
	case *ast.BasicLit:
		if x.Kind == token.STRING {
			v, err := strconv.Unquote(x.Value)
			return v, err == nil
		}
	case *ast.SelectorExpr:
		v, ok := consts[x.Sel.Name]
		return v, ok
	case *ast.Ident:
		v, ok := consts[x.Name]
		return v, ok
	}
	return "", false
}

// c02SkiChecksKey: SkiFromCertificate (or a package-local function it calls with the
// certificate) computes sha1.Sum over data taken from the certificate's public key
// (RawSubjectPublicKeyInfo / PublicKey) and refuses — an `if` whose condition contains a
// negated bytes.Equal / subtle.ConstantTimeCompare / != involving the SubjectKeyId and whose
// body returns — when the extension differs.
func c02SkiChecksKey(p *pkgFiles, fd *ast.FuncDecl) bool {
	bodies := []*ast.BlockStmt{fd.Body}
	ast.Inspect(fd.Body, func(n ast.Node) bool {
		if ce, ok := n.(*ast.CallExpr); ok {
			if id, ok := ce.Fun.(*ast.Ident); ok {
				if g := p.funcDecl("", id.Name); g != nil && g != fd {
					bodies = append(bodies, g.Body)
				}
			}
		}
		return true
	})
	hashes, fromKey, compares := false, false, false
	for _, b := range bodies {
		if c02HasCall(b, "sha1", "Sum") || c02HasCall(b, "sha1", "New") {
			hashes = true
		}
		if c02HasSel(b, "RawSubjectPublicKeyInfo") || c02HasSel(b, "PublicKey") {
			fromKey = true
		}
		ast.Inspect(b, func(n ast.Node) bool {
			ifs, ok := n.(*ast.IfStmt)
			if !ok || !c02EndsRet(ifs.Body) {
				return true
			}
			c := ifs.Cond
			neg := false
			if u, ok := c.(*ast.UnaryExpr); ok && u.Op == token.NOT {
				neg = true
				c = u.X
			}
			mentionsSki := c02HasSel(c, "SubjectKeyId") || c02MentionsIdent(c, "subjectKeyId")
			if neg && mentionsSki && (c02HasCall(c, "bytes", "Equal") || c02HasCall(c, "subtle", "ConstantTimeCompare")) {
				compares = true
			}
			if be, ok := c.(*ast.BinaryExpr); ok && mentionsSki {
				if be.Op == token.NEQ && (c02HasCall(be, "subtle", "ConstantTimeCompare") || c02HasCall(be, "", "string")) {
					compares = true
				}
			}
			return true
		})
	}
	return hashes && fromKey && compares
}

func c02MentionsIdent(n ast.Node, name string) bool {
	found := false
	ast.Inspect(n, func(c ast.Node) bool {
		if id, ok := c.(*ast.Ident); ok && id.Name == name {
			found = true
		}
		return true
	})
	return found
}
