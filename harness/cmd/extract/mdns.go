package main

import (
	"fmt"
	"go/ast"
	"go/token"
	"strconv"
	"strings"
)

// genMdnsTable regenerates coq/gen/MdnsTable.v from mdns/mdns.go and mdns/helper.go:
//   - NewMDNS: which configuration strings go through shortenString and with which limit
//   - shortenString: plain byte cut, or cut backed off to a rune start
//   - AnnounceMdnsEntry: the TXT items (key, value source, "only if non-empty"), in order
//   - parseTxt: separator, Split (every separator) or SplitN(…, 2), the "two parts" rule
//   - processMdnsEntry: mandatory keys, txtvers value, the key each entry field is read
//     from, the register literals, category separator / base / bit size
//   - QRCodeText / safeQRCodeKeyValue: the format literals, whether SKI and identifier are
//     stripped of ';', the optional keys and their order, the stripped character
//   - processMdnsEntry's address handling: whether a new entry's address list is
//     de-duplicated (used by C17)
//
// Anything the translator does not recognise is named in mdns_unknown (a list of strings),
// and the proofs require that list to be empty.
func init() { extraGens = append(extraGens, genMdnsTable) }

type mdnsEx struct {
	p       *pkgFiles
	unknown []string
	strs    map[string]string // package string constants
}

func (x *mdnsEx) bad(format string, a ...any) { x.unknown = append(x.unknown, fmt.Sprintf(format, a...)) }

func coqBytes(s string) string {
	var parts []string
	for i := 0; i < len(s); i++ {
		parts = append(parts, strconv.Itoa(int(s[i])))
	}
	return "[" + strings.Join(parts, "; ") + "]"
}

func coqStr(s string) string { return coqBytes(s) + " (* " + strconv.Quote(s) + " *)" }

func strLit(e ast.Expr) (string, bool) {
	if b, ok := e.(*ast.BasicLit); ok && b.Kind == token.STRING {
		s, err := strconv.Unquote(b.Value)
		return s, err == nil
	}
	return "", false
}

func intLit(e ast.Expr) (int, bool) {
	if b, ok := e.(*ast.BasicLit); ok && b.Kind == token.INT {
		v, err := strconv.Atoi(b.Value)
		return v, err == nil
	}
	return 0, false
}

func (p *pkgFiles) stringConsts() map[string]string {
	res := map[string]string{}
	for _, f := range p.files {
		for _, d := range f.Decls {
			gd, ok := d.(*ast.GenDecl)
			if !ok || gd.Tok != token.CONST {
				continue
			}
			for _, s := range gd.Specs {
				vs := s.(*ast.ValueSpec)
				for j, n := range vs.Names {
					if j < len(vs.Values) {
						if v, ok := strLit(vs.Values[j]); ok {
							res[n.Name] = v
						}
					}
				}
			}
		}
	}
	return res
}

// is e the call pkg.fn(...)?
func isPkgCall(e ast.Expr, pkg, fn string) (*ast.CallExpr, bool) {
	ce, ok := e.(*ast.CallExpr)
	if !ok {
		return nil, false
	}
	sel, ok := ce.Fun.(*ast.SelectorExpr)
	if !ok || sel.Sel.Name != fn {
		return nil, false
	}
	id, ok := sel.X.(*ast.Ident)
	if !ok || id.Name != pkg {
		return nil, false
	}
	return ce, true
}

var mdnsFieldSrc = map[string]string{
	"identifier": "SId", "ski": "SSki", "deviceBrand": "SBrand", "deviceModel": "SModel",
	"deviceType": "SType", "deviceSerial": "SSerial",
}

// local definitions `name := expr` directly in a function body (and in nested blocks)
func localDefs(body *ast.BlockStmt) map[string]ast.Expr {
	res := map[string]ast.Expr{}
	ast.Inspect(body, func(n ast.Node) bool {
		as, ok := n.(*ast.AssignStmt)
		if ok && as.Tok == token.DEFINE && len(as.Lhs) == 1 && len(as.Rhs) == 1 {
			if id, ok := as.Lhs[0].(*ast.Ident); ok {
				res[id.Name] = as.Rhs[0]
			}
		}
		return true
	})
	return res
}

// srcOf maps a value expression to the configuration source it denotes.
// strip=true: the expression removes ';' from the field first (strings.ReplaceAll(x, ";", "")).
func (x *mdnsEx) srcOf(e ast.Expr, locals map[string]ast.Expr, depth int) (src string, strip bool, ok bool) {
	if depth > 4 {
		return "", false, false
	}
	switch v := e.(type) {
	case *ast.SelectorExpr:
		if id, isId := v.X.(*ast.Ident); isId && id.Name == "m" {
			if s, found := mdnsFieldSrc[v.Sel.Name]; found {
				return s, false, true
			}
		}
	case *ast.Ident:
		if c, found := x.strs[v.Name]; found {
			return "(SConst " + coqBytes(c) + ")", false, true
		}
		if d, found := locals[v.Name]; found {
			return x.srcOf(d, locals, depth+1)
		}
	case *ast.BasicLit:
		if s, isS := strLit(v); isS {
			return "(SConst " + coqBytes(s) + ")", false, true
		}
	case *ast.CallExpr:
		if ce, isC := isPkgCall(v, "fmt", "Sprintf"); isC && len(ce.Args) == 2 {
			if f, _ := strLit(ce.Args[0]); f == "%v" {
				if sel, isS := ce.Args[1].(*ast.SelectorExpr); isS && sel.Sel.Name == "autoaccept" {
					return "SRegister", false, true
				}
			}
		}
		if ce, isC := isPkgCall(v, "strings", "ReplaceAll"); isC && len(ce.Args) == 3 {
			from, ok1 := strLit(ce.Args[1])
			to, ok2 := strLit(ce.Args[2])
			if ok1 && ok2 && from == ";" && to == "" {
				s, _, ok3 := x.srcOf(ce.Args[0], locals, depth+1)
				return s, true, ok3
			}
		}
		if sel, isS := v.Fun.(*ast.SelectorExpr); isS && sel.Sel.Name == "deviceCategoriesString" && len(v.Args) == 1 {
			if a, isA := v.Args[0].(*ast.SelectorExpr); isA && a.Sel.Name == "deviceCategories" {
				return "SCat", false, true
			}
		}
	}
	return "", false, false
}

// "key=" + expr  or the literal "key=value"
func (x *mdnsEx) txtItem(e ast.Expr, locals map[string]ast.Expr, sep string) (key, src string, ok bool) {
	if s, isS := strLit(e); isS {
		i := strings.Index(s, sep)
		if i < 0 {
			return "", "", false
		}
		return s[:i], "(SConst " + coqBytes(s[i+len(sep):]) + ")", true
	}
	be, isB := e.(*ast.BinaryExpr)
	if !isB || be.Op != token.ADD {
		return "", "", false
	}
	k, isS := strLit(be.X)
	if !isS || !strings.HasSuffix(k, sep) || strings.Count(k, sep) != 1 {
		return "", "", false
	}
	s, strip, ok2 := x.srcOf(be.Y, locals, 0)
	if !ok2 || strip {
		return "", "", false
	}
	return strings.TrimSuffix(k, sep), s, true
}

// `len(X) > 0`  -> X
func lenPositive(e ast.Expr) (ast.Expr, bool) {
	be, ok := e.(*ast.BinaryExpr)
	if !ok || be.Op != token.GTR {
		return nil, false
	}
	if v, ok := intLit(be.Y); !ok || v != 0 {
		return nil, false
	}
	ce, ok := be.X.(*ast.CallExpr)
	if !ok || len(ce.Args) != 1 {
		return nil, false
	}
	if id, ok := ce.Fun.(*ast.Ident); !ok || id.Name != "len" {
		return nil, false
	}
	return ce.Args[0], true
}

func genMdnsTable() {
	p := parseDir("mdns")
	x := &mdnsEx{p: p, strs: p.stringConsts()}
	var sb strings.Builder
	sb.WriteString("(* generated from /repo/mdns/mdns.go and /repo/mdns/helper.go by harness/cmd/extract — do not edit *)\n")
	sb.WriteString("From Coq Require Import List NArith Bool.\nImport ListNotations.\nOpen Scope N_scope.\n\n")
	sb.WriteString("(* where a TXT / QR value comes from *)\n")
	sb.WriteString("Inductive txt_src := SConst (v : list N) | SId | SSki | SBrand | SModel | SType | SSerial | SRegister | SCat.\n\n")

	// ---------------------------------------------------------------- NewMDNS
	sb.WriteString("(* NewMDNS: limit applied by shortenString to each configuration string *)\n")
	limits := map[string]int{}
	if fd := p.funcDecl("", "NewMDNS"); fd == nil {
		x.bad("NewMDNS not found")
	} else {
		ast.Inspect(fd.Body, func(n ast.Node) bool {
			kv, ok := n.(*ast.KeyValueExpr)
			if !ok {
				return true
			}
			k, ok := kv.Key.(*ast.Ident)
			if !ok {
				return true
			}
			src, isField := mdnsFieldSrc[k.Name]
			if !isField {
				return true
			}
			switch v := kv.Value.(type) {
			case *ast.Ident: // stored as given
			case *ast.CallExpr:
				id, _ := v.Fun.(*ast.Ident)
				if id != nil && id.Name == "shortenString" && len(v.Args) == 2 {
					if _, isId := v.Args[0].(*ast.Ident); isId {
						if l, ok := intLit(v.Args[1]); ok {
							limits[src] = l
							break
						}
					}
				}
				x.bad("NewMDNS: field %s is set by an unknown call", k.Name)
			default:
				x.bad("NewMDNS: field %s is set by an unknown expression", k.Name)
			}
			return true
		})
	}
	sb.WriteString("Definition short_len_of (s : txt_src) : option N :=\n  match s with\n")
	for _, s := range []string{"SId", "SSki", "SBrand", "SModel", "SType", "SSerial"} {
		if l, ok := limits[s]; ok {
			fmt.Fprintf(&sb, "  | %s => Some %d\n", s, l)
		}
	}
	sb.WriteString("  | _ => None\n  end.\n\n")

	// ---------------------------------------------------------------- shortenString
	runeBoundary := false
	if fd := p.funcDecl("", "shortenString"); fd == nil {
		x.bad("shortenString not found")
	} else {
		// expected: if len(s) <= maxLen { return s } [for maxLen > 0 && !utf8.RuneStart(s[maxLen]) { maxLen-- }] return s[:maxLen]
		st := fd.Body.List
		okShape := len(st) >= 2
		if okShape {
			ifs, isIf := st[0].(*ast.IfStmt)
			okShape = isIf && ifs.Else == nil && ifs.Init == nil
			if okShape {
				be, isB := ifs.Cond.(*ast.BinaryExpr)
				okShape = isB && be.Op == token.LEQ
				if okShape {
					_, l := be.X.(*ast.CallExpr)
					r, isR := be.Y.(*ast.Ident)
					okShape = l && isR && r.Name == "maxLen"
				}
			}
			ret, isRet := st[len(st)-1].(*ast.ReturnStmt)
			okShape = okShape && isRet && len(ret.Results) == 1
			if okShape {
				sl, isSl := ret.Results[0].(*ast.SliceExpr)
				okShape = isSl && sl.Low == nil && sl.High != nil
				if okShape {
					h, isId := sl.High.(*ast.Ident)
					okShape = isId && h.Name == "maxLen"
				}
			}
		}
		switch {
		case okShape && len(st) == 2:
		case okShape && len(st) == 3:
			fs, isFor := st[1].(*ast.ForStmt)
			good := isFor && fs.Init == nil && fs.Post == nil && len(fs.Body.List) == 1
			if good {
				inc, isInc := fs.Body.List[0].(*ast.IncDecStmt)
				good = isInc && inc.Tok == token.DEC
				// maxLen > 0 && !utf8.RuneStart(s[maxLen])
				be, isB := fs.Cond.(*ast.BinaryExpr)
				good = good && isB && be.Op == token.LAND
				if good {
					l, isL := be.X.(*ast.BinaryExpr)
					good = isL && l.Op == token.GTR
					if good {
						v, isV := intLit(l.Y)
						good = isV && v == 0
					}
					u, isU := be.Y.(*ast.UnaryExpr)
					good = good && isU && u.Op == token.NOT
					if good {
						ce, isC := isPkgCall(u.X, "utf8", "RuneStart")
						good = isC && len(ce.Args) == 1
						if good {
							ix, isIx := ce.Args[0].(*ast.IndexExpr)
							good = isIx
							if good {
								id, isId := ix.Index.(*ast.Ident)
								good = isId && id.Name == "maxLen"
							}
						}
					}
				}
			}
			if good {
				runeBoundary = true
			} else {
				x.bad("shortenString: unknown statement before the final slice")
			}
		default:
			x.bad("shortenString: unknown shape")
		}
	}
	sb.WriteString("(* shortenString backs the cut off to the start of a rune (utf8.RuneStart) *)\n")
	fmt.Fprintf(&sb, "Definition shorten_rune_boundary : bool := %v.\n\n", runeBoundary)

	// ---------------------------------------------------------------- parseTxt
	sep, splitn, twoParts := "", false, false
	if fd := p.funcDecl("", "parseTxt"); fd == nil {
		x.bad("parseTxt not found")
	} else {
		ast.Inspect(fd.Body, func(n ast.Node) bool {
			if ce, ok := isPkgCall(exprOf(n), "strings", "Split"); ok && len(ce.Args) == 2 {
				sep, _ = strLit(ce.Args[1])
			}
			if ce, ok := isPkgCall(exprOf(n), "strings", "SplitN"); ok && len(ce.Args) == 3 {
				if c, ok := intLit(ce.Args[2]); ok && c == 2 {
					sep, _ = strLit(ce.Args[1])
					splitn = true
				} else {
					x.bad("parseTxt: SplitN with a count other than 2")
				}
			}
			if be, ok := n.(*ast.BinaryExpr); ok && be.Op == token.NEQ {
				if v, ok := intLit(be.Y); ok && v == 2 {
					twoParts = true
				}
			}
			return true
		})
		if len(sep) != 1 {
			x.bad("parseTxt: separator not found")
			sep = "="
		}
		if !twoParts {
			x.bad("parseTxt: the `len(s) != 2` rule not found")
		}
	}
	sb.WriteString("(* parseTxt *)\n")
	fmt.Fprintf(&sb, "Definition txt_sep : N := %d.\n", sep[0])
	fmt.Fprintf(&sb, "Definition parse_splitn : bool := %v. (* strings.SplitN(item, sep, 2) rather than strings.Split *)\n\n", splitn)

	// ---------------------------------------------------------------- AnnounceMdnsEntry
	type item struct {
		key, src string
		cond     bool
	}
	var items []item
	if fd := p.funcDecl("MdnsManager", "AnnounceMdnsEntry"); fd == nil {
		x.bad("AnnounceMdnsEntry not found")
	} else {
		locals := localDefs(fd.Body)
		for _, st := range fd.Body.List {
			switch s := st.(type) {
			case *ast.AssignStmt:
				if len(s.Lhs) == 1 && len(s.Rhs) == 1 {
					if id, ok := s.Lhs[0].(*ast.Ident); ok && id.Name == "txt" {
						cl, ok := s.Rhs[0].(*ast.CompositeLit)
						if !ok {
							x.bad("AnnounceMdnsEntry: txt is not a composite literal")
							continue
						}
						for _, e := range cl.Elts {
							k, src, ok := x.txtItem(e, locals, sep)
							if !ok {
								x.bad("AnnounceMdnsEntry: unknown TXT element")
								continue
							}
							items = append(items, item{k, src, false})
						}
					}
				}
			case *ast.IfStmt:
				// if len(X) > 0 { txt = append(txt, "key="+X) }
				appended := false
				ast.Inspect(s.Body, func(n ast.Node) bool {
					ce, ok := n.(*ast.CallExpr)
					if !ok {
						return true
					}
					if id, ok := ce.Fun.(*ast.Ident); ok && id.Name == "append" && len(ce.Args) == 2 {
						if t, ok := ce.Args[0].(*ast.Ident); ok && t.Name == "txt" {
							appended = true
							k, src, ok := x.txtItem(ce.Args[1], locals, sep)
							cx, isLen := lenPositive(s.Cond)
							okc := false
							if ok && isLen && s.Init == nil && s.Else == nil {
								csrc, _, ok2 := x.srcOf(cx, locals, 0)
								okc = ok2 && csrc == src
							}
							if !okc {
								x.bad("AnnounceMdnsEntry: unknown conditional TXT element")
							} else {
								items = append(items, item{k, src, true})
							}
						}
					}
					return true
				})
				_ = appended
			}
		}
	}
	sb.WriteString("(* AnnounceMdnsEntry: (key, value source, appended only if the value is non-empty), in order *)\n")
	sb.WriteString("Definition txt_items : list (list N * txt_src * bool) := [\n")
	for i, it := range items {
		c := ";"
		if i == len(items)-1 {
			c = ""
		}
		fmt.Fprintf(&sb, "  (%s, %s, %v)%s (* %s *)\n", coqBytes(it.key), it.src, it.cond, c, it.key)
	}
	sb.WriteString("].\n\n")

	// ---------------------------------------------------------------- deviceCategoriesString
	catJoin := ""
	if fd := p.funcDecl("MdnsManager", "deviceCategoriesString"); fd == nil {
		x.bad("deviceCategoriesString not found")
	} else {
		dec := false
		ast.Inspect(fd.Body, func(n ast.Node) bool {
			if as, ok := n.(*ast.AssignStmt); ok && as.Tok == token.ADD_ASSIGN && len(as.Rhs) == 1 {
				if s, ok := strLit(as.Rhs[0]); ok {
					catJoin = s
				}
				if ce, ok := isPkgCall(as.Rhs[0], "fmt", "Sprintf"); ok && len(ce.Args) == 2 {
					if f, _ := strLit(ce.Args[0]); f == "%d" {
						dec = true
					}
				}
			}
			return true
		})
		if len(catJoin) != 1 || !dec {
			x.bad("deviceCategoriesString: not a decimal join with a one-byte separator")
			catJoin = ","
		}
	}
	fmt.Fprintf(&sb, "(* deviceCategoriesString: decimal numbers joined by *)\nDefinition cat_join : N := %d.\n\n", catJoin[0])

	// ---------------------------------------------------------------- processMdnsEntry
	var mandatory []string
	txtversVal := ""
	regLits := []string{}
	regTrue := ""
	readKey := map[string]string{} // local variable -> TXT key
	fieldVar := map[string]string{} // MdnsEntry field -> local variable
	catSplit, catBase, catBits := "", 0, 0
	dedupNew := false
	if fd := p.funcDecl("MdnsManager", "processMdnsEntry"); fd == nil {
		x.bad("processMdnsEntry not found")
	} else {
		elementsKey := func(e ast.Expr) (string, bool) {
			ix, ok := e.(*ast.IndexExpr)
			if !ok {
				return "", false
			}
			if id, ok := ix.X.(*ast.Ident); !ok || id.Name != "elements" {
				return "", false
			}
			return strLit(ix.Index)
		}
		for _, st := range fd.Body.List {
			switch s := st.(type) {
			case *ast.AssignStmt:
				if len(s.Lhs) == 1 && len(s.Rhs) == 1 {
					id, _ := s.Lhs[0].(*ast.Ident)
					if id == nil {
						continue
					}
					if id.Name == "mapItems" {
						if cl, ok := s.Rhs[0].(*ast.CompositeLit); ok {
							for _, e := range cl.Elts {
								if v, ok := strLit(e); ok {
									mandatory = append(mandatory, v)
								} else {
									x.bad("processMdnsEntry: non-literal mandatory key")
								}
							}
						}
					}
					if k, ok := elementsKey(s.Rhs[0]); ok {
						readKey[id.Name] = k
					}
				}
			case *ast.IfStmt:
				// if value, ok := elements["k"]; ok { x = value ... }
				if as, ok := s.Init.(*ast.AssignStmt); ok && len(as.Rhs) == 1 {
					if k, ok := elementsKey(as.Rhs[0]); ok {
						ast.Inspect(s.Body, func(n ast.Node) bool {
							if a, ok := n.(*ast.AssignStmt); ok && len(a.Lhs) == 1 {
								if id, ok := a.Lhs[0].(*ast.Ident); ok && id.Name != "_" && id.Name != "category" && id.Name != "err" {
									readKey[id.Name] = k
								}
							}
							if ce, ok := isPkgCall(exprOf(n), "strings", "Split"); ok && len(ce.Args) == 2 {
								catSplit, _ = strLit(ce.Args[1])
							}
							if ce, ok := isPkgCall(exprOf(n), "strconv", "ParseUint"); ok && len(ce.Args) == 3 {
								catBase, _ = intLit(ce.Args[1])
								catBits, _ = intLit(ce.Args[2])
							}
							return true
						})
						continue
					}
				}
				// if txtvers != "1" { return }   /  if register != "true" && register != "false" { return }
				var lits func(e ast.Expr) (string, []string, bool)
				lits = func(e ast.Expr) (string, []string, bool) {
					be, ok := e.(*ast.BinaryExpr)
					if !ok {
						return "", nil, false
					}
					if be.Op == token.NEQ {
						id, ok1 := be.X.(*ast.Ident)
						v, ok2 := strLit(be.Y)
						if ok1 && ok2 {
							return id.Name, []string{v}, true
						}
						return "", nil, false
					}
					if be.Op == token.LAND {
						a, la, ok1 := lits(be.X)
						b, lb, ok2 := lits(be.Y)
						if ok1 && ok2 && a == b {
							return a, append(la, lb...), true
						}
					}
					return "", nil, false
				}
				if v, l, ok := lits(s.Cond); ok && returnsOnly(s.Body) {
					switch readKey[v] {
					case "txtvers":
						if len(l) == 1 {
							txtversVal = l[0]
						} else {
							x.bad("processMdnsEntry: several txtvers values")
						}
					case "register":
						regLits = l
					}
				}
			}
		}
		// the composite literal of the new entry and the address handling
		ast.Inspect(fd.Body, func(n ast.Node) bool {
			cl, ok := n.(*ast.CompositeLit)
			if !ok {
				return true
			}
			sel, ok := cl.Type.(*ast.SelectorExpr)
			if !ok || sel.Sel.Name != "MdnsEntry" {
				return true
			}
			for _, e := range cl.Elts {
				kv, ok := e.(*ast.KeyValueExpr)
				if !ok {
					continue
				}
				f := kv.Key.(*ast.Ident).Name
				switch v := kv.Value.(type) {
				case *ast.Ident:
					fieldVar[f] = v.Name
				case *ast.BinaryExpr:
					if id, ok := v.X.(*ast.Ident); ok && v.Op == token.EQL {
						if l, ok := strLit(v.Y); ok {
							fieldVar[f] = id.Name
							regTrue = l
						}
					}
				case *ast.CallExpr:
					// Addresses: uniqueAddresses(addresses) or similar
					if id, ok := v.Fun.(*ast.Ident); ok && len(v.Args) == 1 {
						if a, ok := v.Args[0].(*ast.Ident); ok {
							fieldVar[f] = a.Name
							if f == "Addresses" && strings.Contains(strings.ToLower(id.Name), "unique") {
								dedupNew = true
							} else {
								x.bad("processMdnsEntry: field %s of the new entry built by an unknown call", f)
							}
						}
					}
				}
			}
			return false
		})
	}
	sb.WriteString("(* processMdnsEntry *)\n")
	sb.WriteString("Definition mandatory_keys : list (list N) := [")
	for i, k := range mandatory {
		if i > 0 {
			sb.WriteString("; ")
		}
		sb.WriteString(coqBytes(k))
	}
	fmt.Fprintf(&sb, "]. (* %s *)\n", strings.Join(mandatory, " "))
	fmt.Fprintf(&sb, "Definition txtvers_value : list N := %s.\n", coqStr(txtversVal))
	want := []struct{ field, def string }{
		{"", "rd_txtvers"}, {"Ski", "rd_ski"}, {"Identifier", "rd_id"}, {"Path", "rd_path"}, {"Register", "rd_register"},
		{"Brand", "rd_brand"}, {"Type", "rd_type"}, {"Model", "rd_model"}, {"Serial", "rd_serial"}, {"Categories", "rd_cat"},
	}
	for _, w := range want {
		k := ""
		if w.field == "" {
			k = readKey["txtvers"]
		} else {
			v, ok := fieldVar[w.field]
			if !ok {
				x.bad("processMdnsEntry: MdnsEntry field %s not set from a local variable", w.field)
			}
			k, ok = readKey[v]
			if !ok {
				x.bad("processMdnsEntry: variable %s (field %s) is not read from a TXT key", v, w.field)
			}
		}
		fmt.Fprintf(&sb, "Definition %s : list N := %s.\n", w.def, coqStr(k))
	}
	for _, pass := range []struct{ field, v string }{{"Name", "name"}, {"Host", "host"}, {"Port", "port"}, {"Addresses", "addresses"}} {
		if fieldVar[pass.field] != pass.v {
			x.bad("processMdnsEntry: MdnsEntry field %s is not the %s argument", pass.field, pass.v)
		}
	}
	fmt.Fprintf(&sb, "Definition register_true : list N := %s.\n", coqStr(regTrue))
	sb.WriteString("Definition register_values : list (list N) := [")
	for i, k := range regLits {
		if i > 0 {
			sb.WriteString("; ")
		}
		sb.WriteString(coqBytes(k))
	}
	fmt.Fprintf(&sb, "]. (* %s *)\n", strings.Join(regLits, " "))
	if len(catSplit) != 1 {
		x.bad("processMdnsEntry: category separator not found")
		catSplit = ","
	}
	if catBase != 10 {
		x.bad("processMdnsEntry: categories are not parsed in base 10")
	}
	fmt.Fprintf(&sb, "Definition cat_split : N := %d.\nDefinition cat_bits : N := %d. (* strconv.ParseUint(item, 10, cat_bits) *)\n", catSplit[0], catBits)
	fmt.Fprintf(&sb, "(* the address list of a NEW entry is de-duplicated before it is stored *)\nDefinition dedup_new_entry : bool := %v.\n\n", dedupNew)

	// ---------------------------------------------------------------- QRCodeText
	var qrLits []string
	type qarg struct {
		src   string
		strip bool
	}
	var qrArgs []qarg
	type qopt struct{ key, src, cond string }
	var qrOpts []qopt
	kvFormat, kvStrip, kvNonEmpty, kvUpper := "", "", false, false
	if fd := p.funcDecl("MdnsManager", "safeQRCodeKeyValue"); fd == nil {
		x.bad("safeQRCodeKeyValue not found")
	} else {
		if len(fd.Body.List) > 0 {
			if ifs, ok := fd.Body.List[0].(*ast.IfStmt); ok {
				if _, ok := lenPositive(ifs.Cond); ok {
					kvNonEmpty = true
				}
			}
		}
		ast.Inspect(fd.Body, func(n ast.Node) bool {
			if ce, ok := isPkgCall(exprOf(n), "strings", "ReplaceAll"); ok && len(ce.Args) == 3 {
				a, _ := strLit(ce.Args[1])
				b, okb := strLit(ce.Args[2])
				if okb && b == "" {
					kvStrip = a
				}
			}
			if _, ok := isPkgCall(exprOf(n), "strings", "ToUpper"); ok {
				kvUpper = true
			}
			if ce, ok := isPkgCall(exprOf(n), "fmt", "Sprintf"); ok && len(ce.Args) == 3 {
				kvFormat, _ = strLit(ce.Args[0])
			}
			return true
		})
		if !kvNonEmpty || len(kvStrip) != 1 || kvFormat != "%s:%s"+kvStrip {
			x.bad("safeQRCodeKeyValue: unknown shape")
			kvStrip = ";"
		}
	}
	if fd := p.funcDecl("MdnsManager", "QRCodeText"); fd == nil {
		x.bad("QRCodeText not found")
	} else {
		locals := localDefs(fd.Body)
		for _, st := range fd.Body.List {
			ifs, ok := st.(*ast.IfStmt)
			if !ok {
				continue
			}
			// optionals += m.safeQRCodeKeyValue("KEY", expr)
			if len(ifs.Body.List) != 1 || ifs.Else != nil {
				x.bad("QRCodeText: unknown conditional")
				continue
			}
			as, ok := ifs.Body.List[0].(*ast.AssignStmt)
			if !ok || as.Tok != token.ADD_ASSIGN || len(as.Rhs) != 1 {
				x.bad("QRCodeText: unknown conditional body")
				continue
			}
			ce, ok := as.Rhs[0].(*ast.CallExpr)
			if !ok || len(ce.Args) != 2 || calleeName(ce) != "safeQRCodeKeyValue" {
				x.bad("QRCodeText: optional not built by safeQRCodeKeyValue")
				continue
			}
			key, ok1 := strLit(ce.Args[0])
			src, strip, ok2 := x.srcOf(ce.Args[1], locals, 0)
			if !ok1 || !ok2 || strip {
				x.bad("QRCodeText: unknown optional")
				continue
			}
			cond := ""
			if cx, ok := lenPositive(ifs.Cond); ok {
				if csrc, _, ok := x.srcOf(cx, locals, 0); ok && csrc == src {
					cond = "nonempty"
				}
			} else if be, ok := ifs.Cond.(*ast.BinaryExpr); ok && be.Op == token.NEQ {
				if id, ok := be.Y.(*ast.Ident); ok && id.Name == "nil" && src == "SCat" {
					cond = "notnil"
				}
			}
			if cond == "" {
				x.bad("QRCodeText: unknown condition for optional %s", key)
				continue
			}
			if kvUpper {
				key = strings.ToUpper(key)
			}
			qrOpts = append(qrOpts, qopt{key, src, cond})
		}
		ast.Inspect(fd.Body, func(n ast.Node) bool {
			ce, ok := isPkgCall(exprOf(n), "fmt", "Sprintf")
			if !ok || len(ce.Args) < 1 {
				return true
			}
			f, _ := strLit(ce.Args[0])
			parts := strings.Split(f, "%s")
			if len(parts) != len(ce.Args) || strings.Contains(strings.Join(parts, ""), "%") {
				x.bad("QRCodeText: unknown format")
				return true
			}
			qrLits = parts
			for i, a := range ce.Args[1:] {
				if id, ok := a.(*ast.Ident); ok && id.Name == "optionals" {
					if i != len(ce.Args)-2 {
						x.bad("QRCodeText: optionals is not the last argument")
					}
					continue
				}
				src, strip, ok := x.srcOf(a, locals, 0)
				if !ok {
					x.bad("QRCodeText: unknown argument %d", i)
					continue
				}
				qrArgs = append(qrArgs, qarg{src, strip})
			}
			return true
		})
	}
	sb.WriteString("(* QRCodeText: fmt.Sprintf(lit0 %s lit1 %s … optionals litN); (source, ';' stripped first) per %s before the optionals *)\n")
	sb.WriteString("Definition qr_lits : list (list N) := [\n")
	for i, l := range qrLits {
		c := ";"
		if i == len(qrLits)-1 {
			c = ""
		}
		fmt.Fprintf(&sb, "  %s%s (* %s *)\n", coqBytes(l), c, strconv.Quote(l))
	}
	sb.WriteString("].\nDefinition qr_args : list (txt_src * bool) := [")
	for i, a := range qrArgs {
		if i > 0 {
			sb.WriteString("; ")
		}
		fmt.Fprintf(&sb, "(%s, %v)", a.src, a.strip)
	}
	sb.WriteString("].\n")
	sb.WriteString("(* optionals, in order: (KEY, source); emitted as KEY ':' value-without-strip-char strip-char when the source value is non-empty *)\n")
	sb.WriteString("Definition qr_optionals : list (list N * txt_src) := [")
	for i, o := range qrOpts {
		if i > 0 {
			sb.WriteString("; ")
		}
		fmt.Fprintf(&sb, "(%s, %s)", coqBytes(o.key), o.src)
	}
	sb.WriteString("]. (* ")
	for _, o := range qrOpts {
		sb.WriteString(o.key + " ")
	}
	sb.WriteString("*)\n")
	fmt.Fprintf(&sb, "Definition qr_strip : N := %d.\nDefinition qr_kv_sep : N := %d.\n\n", kvStrip[0], ':')

	sb.WriteString("(* shapes the translator did not recognise; the proofs need this list to be empty *)\n")
	sb.WriteString("Definition mdns_unknown : list (list N) := [")
	for i, u := range x.unknown {
		if i > 0 {
			sb.WriteString(";")
		}
		fmt.Fprintf(&sb, "\n  %s", coqStr(u))
	}
	sb.WriteString("].\n")
	writeIfChanged("MdnsTable.v", sb.String())
}

func exprOf(n ast.Node) ast.Expr {
	if e, ok := n.(ast.Expr); ok {
		return e
	}
	return nil
}

// the block consists of (logging calls and) a bare return
func returnsOnly(b *ast.BlockStmt) bool {
	if len(b.List) == 0 {
		return false
	}
	r, ok := b.List[len(b.List)-1].(*ast.ReturnStmt)
	return ok && len(r.Results) == 0
}
