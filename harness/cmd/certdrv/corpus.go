package main

import (
	"bufio"
	"encoding/json"
	"fmt"
	"os"
	"path/filepath"
	"sort"
	"strings"

	"verif/harness/internal/vh"
)

// Corpus replay: the inputs of the cases kept in corpus/C02/*.jsonl (certificates as DER,
// throw-away keys, session parameters) are run again on the implementation of this build,
// so a witness of an earlier defect is re-examined on the real code on every run and not
// only as the static case bin/check evaluates.
type corpusCase struct {
	Kind   string         `json:"kind"`
	Sample map[string]any `json:"sample"`
}

func readCorpus(dir string) []corpusCase {
	var res []corpusCase
	files, _ := filepath.Glob(filepath.Join(dir, "*.jsonl"))
	sort.Strings(files)
	for _, fn := range files {
		f, err := os.Open(fn)
		if err != nil {
			continue
		}
		sc := bufio.NewScanner(f)
		sc.Buffer(make([]byte, 1<<20), 1<<26)
		for sc.Scan() {
			var c corpusCase
			if json.Unmarshal(sc.Bytes(), &c) == nil && c.Sample != nil {
				res = append(res, c)
			}
		}
		_ = f.Close()
	}
	return res
}

func chainFromSample(v any) ([]*crt, error) {
	l, _ := v.([]any)
	var cs []*crt
	for _, e := range l {
		m, _ := e.(map[string]any)
		c, err := crtFromSample(m)
		if err != nil {
			return nil, err
		}
		cs = append(cs, c)
	}
	return cs, nil
}

func baseKind(k string) string { return strings.TrimPrefix(k, "corpus_") }

// replayCorpus re-runs the corpus inputs matching the mode; returns non-zero when an
// entry cannot be replayed (a damaged corpus must not go unnoticed).
func replayCorpus(dir, mode string, w *vh.Writer) int {
	rc := 0
	for i, c := range readCorpus(dir) {
		k := baseKind(c.Kind)
		switch {
		case mode == "unit" && strings.HasPrefix(k, "unit_ski_"):
			m, _ := c.Sample["certificate"].(map[string]any)
			ct, err := crtFromSample(m)
			if err != nil {
				fmt.Fprintf(os.Stderr, "certdrv: corpus entry %d: %v\n", i, err)
				rc = 4
				continue
			}
			s, ok, p := skiFromCert(ct.leaf)
			if p != nil {
				panic(fmt.Sprint("cert.SkiFromCertificate panicked on a corpus certificate: ", p))
			}
			w.Put(vh.Case{
				Coq:        fmt.Sprintf("CSki %s %s", ct.dcoq(), vh.Opt(ok, vh.HxS(s))),
				Nontrivial: ct.hasSki && len(ct.skiExt) == 20,
				Key:        fmt.Sprintf("ski|%s|%s|%x|%x", ct.kind, ct.keyTyp, ct.skiExt, ct.spk),
				Kind:       "corpus_" + k,
				Sample:     map[string]any{"call": "cert.SkiFromCertificate", "certificate": ct.sample(), "result": s, "ok": ok, "replayed_from": "corpus/C02"},
			})
		case mode == "sys" && strings.HasPrefix(k, "sys_in_"):
			chain, err := chainFromSample(c.Sample["client_chain"])
			ver, _ := c.Sample["client_max_tls_n"].(float64)
			off, _ := c.Sample["offer_id"].(string)
			if _, known := offerSets[off]; err != nil || ver == 0 || !known {
				fmt.Fprintf(os.Stderr, "certdrv: corpus entry %d cannot be replayed: %v\n", i, err)
				rc = 4
				continue
			}
			var kinds []string
			for _, ct := range chain {
				kinds = append(kinds, ct.kind)
			}
			cs, err := inboundCase(inScen{chain: kinds, ver: uint16(ver), offers: offerSets[off], offerId: off}, chain, "corpus_sys_in_")
			if err != nil {
				fmt.Fprintf(os.Stderr, "certdrv: corpus session %d could not be observed: %v\n", i, err)
				rc = 3
				continue
			}
			w.Put(cs)
		case mode == "sys" && strings.HasPrefix(k, "sys_out_"):
			chain, err := chainFromSample(c.Sample["server_chain"])
			dialled, _ := c.Sample["dialled_ski"].(string)
			if err != nil || len(chain) == 0 || chain[0].priv == nil {
				fmt.Fprintf(os.Stderr, "certdrv: corpus entry %d cannot be replayed: %v\n", i, err)
				rc = 4
				continue
			}
			cs, err := outboundCase("corpus_"+k, dialled, chain, false)
			if err != nil {
				fmt.Fprintf(os.Stderr, "certdrv: corpus session %d could not be observed: %v\n", i, err)
				rc = 3
				continue
			}
			w.Put(cs)
		}
	}
	return rc
}
