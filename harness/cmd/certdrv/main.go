// certdrv (C02, peer identity) runs the real certificate code and real TLS/websocket
// sessions against a real hub.Hub and writes cases for bin/check:
//
//	-mode unit : cert.SkiFromCertificate on x509 certificates built here (SKI extension
//	             absent / length 0..40 / 20 bytes but not the hash of the key / own key),
//	             cert.CreateCertificate with random subject strings, fmt's %0x
//	-mode sys  : inbound sessions (TLS clients of this driver against a started hub) and
//	             outbound sessions (the hub dials TLS websocket servers of this driver)
//
// The Coq side (theories/Cert.v, check_c02) runs the model on the same inputs and evaluates
// the property's monitor on what was observed here.
package main

import (
	"flag"
	"fmt"
	"io"
	"log"
	"os"

	"verif/harness/internal/vh"
)

var (
	prop    = flag.String("prop", "C02", "property (C02)")
	mode    = flag.String("mode", "unit", "unit | sys")
	seed    = flag.Uint64("seed", 1, "PRNG seed")
	n       = flag.Int("n", 1000, "number of cases")
	out     = flag.String("out", "", "output JSONL")
	workers = flag.Int("workers", 6, "parallel sessions (sys mode)")
	corpus  = flag.String("corpus", "../corpus/C02", "corpus directory whose inputs are replayed first (\"\" = none)")
)

func main() {
	flag.Parse()
	log.SetOutput(io.Discard) // net/http logs every refused TLS handshake, with timestamps
	if *out == "" || *prop != "C02" {
		fmt.Fprintln(os.Stderr, "usage: certdrv -prop C02 -mode unit|sys -seed S -n N -out file.jsonl")
		os.Exit(2)
	}
	w := vh.NewWriter(*out)
	r := vh.NewRng(*seed)
	rc := 0
	if *corpus != "" {
		rc = replayCorpus(*corpus, *mode, w)
	}
	switch *mode {
	case "unit":
		runUnit(r, *n, w)
	case "sys":
		if rc2 := runSys(r, *n, w, *workers); rc2 != 0 {
			rc = rc2
		}
	default:
		fmt.Fprintln(os.Stderr, "unknown -mode", *mode)
		rc = 2
	}
	w.Close()
	os.Exit(rc)
}
