package main

import (
	"bytes"
	"context"
	"crypto/elliptic"
	"crypto/tls"
	"encoding/hex"
	"errors"
	"fmt"
	"net"
	"net/http"
	"os"
	"sort"
	"strings"
	"sync"
	"time"

	"github.com/enbility/ship-go/api"
	"github.com/enbility/ship-go/cert"
	"github.com/enbility/ship-go/hub"
	"github.com/enbility/ship-go/model"
	"github.com/gorilla/websocket"

	"verif/harness/internal/vh"
)

const (
	stepDeadline = 10 * time.Second // every wait on the implementation is capped by this
	pollEvery    = 5 * time.Millisecond
)

// ---- scenario descriptions (all random choices are made up front, from the one PRNG) ----

type inScen struct {
	chain   []string // SKI kinds of the client's certificate chain; empty = no client certificate
	ver     uint16   // the client's maximum TLS version
	offers  []string // offered websocket sub-protocols
	offerId string
	sub     *vh.Rng
}

type outScen struct {
	kind    string // SKI kind of the server's certificate
	dial    string // own | other | ext  (which SKI the hub is told to dial)
	twoCert bool   // the server presents a second, valid certificate after the first
	sub     *vh.Rng
}

var tlsVers = []uint16{tls.VersionTLS10, tls.VersionTLS11, tls.VersionTLS12, tls.VersionTLS13}
var offerSets = map[string][]string{"none": nil, "other": {"other"}, "ship": {"ship"}, "both": {"other", "ship"}, "both_rev": {"ship", "other"}, "Ship": {"Ship"}}
var offerIds = []string{"none", "other", "ship", "both", "both_rev", "Ship"}

func planInbound(r *vh.Rng, n int) []inScen {
	var s []inScen
	add := func(chain []string, ver uint16, off string) {
		s = append(s, inScen{chain: chain, ver: ver, offers: offerSets[off], offerId: off, sub: r.Fork()})
	}
	// every certificate kind under otherwise acceptable conditions, TLS 1.2 and 1.3
	for _, k := range skiKinds {
		add([]string{k}, tls.VersionTLS12, "ship")
		add([]string{k}, tls.VersionTLS13, "ship")
	}
	// a good certificate across all versions and offers
	for _, v := range tlsVers {
		for _, o := range []string{"none", "other", "ship", "both"} {
			add([]string{"own"}, v, o)
		}
	}
	// no client certificate; two-certificate chains (verifyPeerCertificate looks at all, ServeHTTP at the first)
	for _, v := range []uint16{tls.VersionTLS12, tls.VersionTLS13} {
		add(nil, v, "ship")
		add([]string{"absent", "own"}, v, "ship")
		add([]string{"own", "absent"}, v, "ship")
		add([]string{"foreign", "own"}, v, "ship")
		add([]string{"len19", "own"}, v, "both")
	}
	add([]string{"own"}, tls.VersionTLS13, "both_rev")
	add([]string{"own"}, tls.VersionTLS12, "Ship")
	// the rest: random product
	for len(s) < n {
		var chain []string
		switch x := r.Intn(100); {
		case x < 6:
		case x < 88:
			chain = []string{vh.Pick(r, skiKinds)}
		default:
			chain = []string{vh.Pick(r, skiKinds), vh.Pick(r, skiKinds)}
		}
		add(chain, vh.Pick(r, tlsVers), vh.Pick(r, offerIds))
	}
	if len(s) > n && n > 0 {
		// keep the systematic head, it is ordered by importance
		s = s[:n]
	}
	return s
}

func planOutbound(r *vh.Rng, n int) []outScen {
	var s []outScen
	add := func(kind, dial string, two bool) {
		s = append(s, outScen{kind: kind, dial: dial, twoCert: two, sub: r.Fork()})
	}
	for _, k := range skiKinds {
		add(k, "ext", false) // the hub dials exactly the SKI the certificate claims (or own hash when it claims none)
	}
	for _, k := range []string{"own", "foreign", "random20", "absent", "len19"} {
		add(k, "other", false)
	}
	for i := 0; i < 4; i++ {
		add("own", "other", i%2 == 1) // a perfectly valid certificate of a device that was not dialled
	}
	add("own", "own", false)
	add("absent", "own", true)
	add("foreign", "ext", true)
	for len(s) < n {
		add(vh.Pick(r, skiKinds), vh.Pick(r, []string{"ext", "ext", "other", "own"}), r.Chance(15))
	}
	if len(s) > n && n > 0 {
		s = s[:n]
	}
	return s
}

// ---- helpers ----

func freePort() int {
	l, err := net.Listen("tcp", "127.0.0.1:0")
	if err != nil {
		panic(err)
	}
	p := l.Addr().(*net.TCPAddr).Port
	_ = l.Close()
	return p
}

func waitFor(cond func() bool, d time.Duration) bool {
	end := time.Now().Add(d)
	for {
		if cond() {
			return true
		}
		if time.Now().After(end) {
			return false
		}
		time.Sleep(pollEvery)
	}
}

type hubEnv struct {
	h    *hub.Hub
	log  *vh.Log
	cert *crt
	port int
}

var (
	hubCertOnce sync.Once
	hubCert     *crt
	hubTLS      tls.Certificate
)

// the hub's own certificate comes from the library's generator
func localCert() (*crt, tls.Certificate) {
	hubCertOnce.Do(func() {
		tc, err := cert.CreateCertificate("verif", "verif", "DE", "c02-hub")
		if err != nil {
			panic(err)
		}
		hubTLS = tc
		hubCert = parseCrt(tc.Certificate[0], nil, "ecdsa-p256", "generator", false, nil)
	})
	return hubCert, hubTLS
}

func newHub(port int) *hubEnv {
	l := &vh.Log{}
	lc, tc := localCert()
	rd := &vh.FakeReader{L: l, AllowWait: true} // an untrusted peer is kept waiting for trust, so an accepted connection stays registered
	md := &vh.FakeMdns{L: l}
	h := hub.NewHub(rd, md, port, tc, api.NewServiceDetails(hex.EncodeToString(lc.sha[:])))
	return &hubEnv{h: h, log: l, cert: lc, port: port}
}

func registrySKIs(h *hub.Hub) []string {
	var ks []string
	for k := range h.VerifRegistry() {
		ks = append(ks, k)
	}
	sort.Strings(ks)
	return ks
}

// stop: let the connections drain first (Shutdown ranges over the registry without the lock)
func (e *hubEnv) stop() {
	drained := waitFor(func() bool { return len(e.h.VerifRegistry()) == 0 }, 3*time.Second)
	if drained {
		_ = guard(func() { e.h.Shutdown() })
	}
}

type anomaly struct{ what string }

func (a *anomaly) Error() string { return a.what }

// ---- inbound ----

type inObs struct {
	stage   string // tls | ws | accepted
	ski     string // attributed SKI when accepted
	detail  string
	subprot string
}

func clientSuites(ver uint16) []uint16 {
	s := append([]uint16{}, cert.CipherSuites...)
	if ver < tls.VersionTLS12 {
		// the SHIP suites exist from TLS 1.2 on; a 1.0/1.1 client needs one it can actually offer,
		// otherwise the refusal would be the client's own
		s = append(s, tls.TLS_ECDHE_ECDSA_WITH_AES_128_CBC_SHA, tls.TLS_ECDHE_ECDSA_WITH_AES_256_CBC_SHA)
	}
	return s
}

func runInboundOnce(sc inScen, chain []*crt) (inObs, error) {
	port := freePort()
	e := newHub(port)
	e.h.Start()
	defer e.stop()

	cfg := &tls.Config{
		InsecureSkipVerify: true, // #nosec G402 -- SHIP certificates are self-signed
		MinVersion:         tls.VersionTLS10,
		MaxVersion:         sc.ver,
		CipherSuites:       clientSuites(sc.ver),
	}
	if len(chain) > 0 {
		tc := tls.Certificate{PrivateKey: chain[0].priv, Leaf: chain[0].leaf}
		for _, c := range chain {
			tc.Certificate = append(tc.Certificate, c.der)
		}
		cfg.Certificates = []tls.Certificate{tc}
	}
	addr := fmt.Sprintf("127.0.0.1:%d", port)
	// wait for the listener (Start returns before ListenAndServeTLS listens)
	var raw net.Conn
	ok := waitFor(func() bool {
		c, err := net.DialTimeout("tcp", addr, time.Second)
		if err != nil {
			return false
		}
		raw = c
		return true
	}, stepDeadline)
	if !ok {
		return inObs{}, &anomaly{"hub does not listen on its port"}
	}
	var hsErr error
	var serverLeaf []byte
	handshakeDone := false
	d := websocket.Dialer{
		HandshakeTimeout: stepDeadline,
		Subprotocols:     sc.offers,
		NetDialTLSContext: func(ctx context.Context, network, a string) (net.Conn, error) {
			tc := tls.Client(raw, cfg)
			_ = raw.SetDeadline(time.Now().Add(stepDeadline))
			hsErr = tc.HandshakeContext(ctx)
			if hsErr != nil {
				_ = raw.Close()
				return nil, hsErr
			}
			handshakeDone = true
			if pcs := tc.ConnectionState().PeerCertificates; len(pcs) > 0 {
				serverLeaf = pcs[0].Raw
			}
			_ = raw.SetDeadline(time.Time{})
			return tc, nil
		},
	}
	conn, resp, err := d.Dial("wss://"+addr+"/ship/", nil)
	if handshakeDone && !bytes.Equal(serverLeaf, e.cert.der) {
		if conn != nil {
			_ = conn.Close()
		}
		return inObs{}, &anomaly{"the port is served by somebody else's certificate (port collision)"}
	}
	if err != nil {
		if resp != nil {
			// an HTTP answer other than 101: the upgrade itself was refused
			return inObs{stage: "ws", detail: fmt.Sprintf("http %d", resp.StatusCode)}, nil
		}
		var ne net.Error
		if errors.As(err, &ne) && ne.Timeout() {
			return inObs{}, &anomaly{"timeout during TLS/upgrade: " + err.Error()}
		}
		return inObs{stage: "tls", detail: classify(err)}, nil
	}
	defer conn.Close()
	ob := inObs{subprot: conn.Subprotocol()}
	// server role: the hub answers the client's init; nothing else proves a SHIP connection exists
	_ = conn.SetWriteDeadline(time.Now().Add(stepDeadline))
	werr := conn.WriteMessage(websocket.BinaryMessage, model.ShipInit)
	_ = conn.SetReadDeadline(time.Now().Add(stepDeadline))
	mt, msg, rerr := conn.ReadMessage()
	if rerr != nil {
		var ne net.Error
		if errors.As(rerr, &ne) && ne.Timeout() {
			return inObs{}, &anomaly{"neither closed nor answered within the deadline"}
		}
		ob.stage = "ws"
		ob.detail = "closed before any SHIP byte"
		if werr != nil {
			ob.detail += " (init not written)"
		}
		return ob, nil
	}
	if mt != websocket.BinaryMessage || !bytes.Equal(msg, model.ShipInit) {
		return inObs{}, &anomaly{fmt.Sprintf("unexpected first message type %d %x", mt, msg)}
	}
	var skis []string
	if !waitFor(func() bool { skis = registrySKIs(e.h); return len(skis) > 0 }, stepDeadline) {
		return inObs{}, &anomaly{"SHIP init answered but no connection registered"}
	}
	if len(skis) != 1 {
		return inObs{}, &anomaly{"more than one connection registered: " + strings.Join(skis, ",")}
	}
	ob.stage = "accepted"
	ob.ski = skis[0]
	_ = conn.Close()
	return ob, nil
}

func classify(err error) string {
	s := err.Error()
	for _, k := range []string{"protocol version", "bad certificate", "certificate required", "handshake failure", "reset", "EOF", "broken pipe"} {
		if strings.Contains(s, k) {
			return k
		}
	}
	return "other"
}

func buildChain(r *vh.Rng, kinds []string, victim *crt) []*crt {
	var cs []*crt
	for _, k := range kinds {
		cs = append(cs, makeKind(r, ecKey(r, elliptic.P256(), "ecdsa-p256"), k, victim))
	}
	return cs
}

func verN(v uint16) int { return int(v) }

// generator class for the input distribution: certificate chain, and whether the rest of the
// session is acceptable (TLS >= 1.2 and "ship" offered); corpus replays keep the full name
func inKind(prefix string, sc inScen) string {
	chain := strings.Join(append([]string{"chain"}, sc.chain...), "+")
	if strings.HasPrefix(prefix, "corpus_") {
		return fmt.Sprintf("%s%s_tls%x_%s", prefix, chain, sc.ver, sc.offerId)
	}
	rest := "tls_ok"
	if sc.ver < tls.VersionTLS12 {
		rest = "tls_below_12"
	}
	if sc.offerId == "none" || sc.offerId == "other" || sc.offerId == "Ship" {
		rest += "_no_ship"
	}
	return prefix + chain + "_" + rest
}

func runInbound(sc inScen, victim *crt) (vh.Case, error) {
	return inboundCase(sc, buildChain(sc.sub, sc.chain, victim), "sys_in_")
}

// inboundCase runs one inbound session with the given chain and writes the case.
func inboundCase(sc inScen, chain []*crt, prefix string) (vh.Case, error) {
	var ob inObs
	var err error
	for attempt := 0; attempt < 3; attempt++ {
		p := guard(func() { ob, err = runInboundOnce(sc, chain) })
		if p != nil {
			return vh.Case{}, fmt.Errorf("panic in inbound session: %v", p)
		}
		var a *anomaly
		if err == nil || !errors.As(err, &a) {
			break
		}
	}
	if err != nil {
		return vh.Case{}, err
	}
	got := "Refuse STls"
	switch ob.stage {
	case "ws":
		got = "Refuse SWs"
	case "accepted":
		got = "Accept " + vh.HxS(ob.ski)
	}
	offers := make([]string, 0, len(sc.offers))
	for _, o := range sc.offers {
		offers = append(offers, vh.HxS(o))
	}
	var cs []any
	for _, c := range chain {
		cs = append(cs, c.sample())
	}
	nontriv := len(chain) > 0 && chain[0].hasSki && len(chain[0].skiExt) == 20
	return vh.Case{
		Coq:        fmt.Sprintf("CIn %d %s %s (%s)", verN(sc.ver), vh.List(offers), coqCerts(chain), got),
		Nontrivial: nontriv,
		Key:        fmt.Sprintf("in|%v|%d|%s|%s", sc.chain, sc.ver, sc.offerId, coqCerts(chain)),
		Kind:       inKind(prefix, sc),
		Sample: map[string]any{"session": "inbound: TLS websocket client -> hub.Hub", "client_max_tls": fmt.Sprintf("0x%04x", sc.ver),
			"offered_subprotocols": sc.offers, "offer_id": sc.offerId, "client_max_tls_n": int(sc.ver), "client_chain": cs, "observed_stage": ob.stage, "attributed_ski": ob.ski,
			"detail": ob.detail, "selected_subprotocol": ob.subprot},
	}, nil
}

// ---- outbound ----

type outObs struct {
	accepted bool
	bytes    int  // bytes received by the server after the upgrade
	initSeen bool // the first frame is a SHIP init
	regSKIs  []string
	detail   string
}

func runOutboundOnce(dialled string, chain []*crt, pairPresented bool) (outObs, error) {
	e := newHub(0)
	defer e.stop() // runs after the server below has released its connection
	tc := tls.Certificate{PrivateKey: chain[0].priv, Leaf: chain[0].leaf}
	for _, c := range chain {
		tc.Certificate = append(tc.Certificate, c.der)
	}
	ln, err := tls.Listen("tcp", "127.0.0.1:0", &tls.Config{
		Certificates: []tls.Certificate{tc},
		ClientAuth:   tls.RequireAnyClientCert,
		MinVersion:   tls.VersionTLS12,
		CipherSuites: cert.CipherSuites,
	})
	if err != nil {
		return outObs{}, &anomaly{"listen: " + err.Error()}
	}
	port := ln.Addr().(*net.TCPAddr).Port
	type srvRes struct {
		n    int
		init bool
		err  string
	}
	resCh := make(chan srvRes, 4)
	release := make(chan struct{})
	up := websocket.Upgrader{Subprotocols: []string{api.ShipWebsocketSubProtocol}, CheckOrigin: func(*http.Request) bool { return true }}
	srv := &http.Server{ReadHeaderTimeout: stepDeadline, Handler: http.HandlerFunc(func(w http.ResponseWriter, rq *http.Request) {
		c, err := up.Upgrade(w, rq, nil)
		if err != nil {
			resCh <- srvRes{err: "upgrade: " + err.Error()}
			return
		}
		defer c.Close()
		// every byte after the upgrade, read below the websocket layer
		nc := c.UnderlyingConn()
		_ = nc.SetReadDeadline(time.Now().Add(stepDeadline))
		var buf []byte
		tmp := make([]byte, 4096)
		for len(buf) < 8 {
			k, err := nc.Read(tmp)
			buf = append(buf, tmp[:k]...)
			if err != nil {
				var ne net.Error
				if errors.As(err, &ne) && ne.Timeout() {
					resCh <- srvRes{n: len(buf), err: "timeout"}
					return
				}
				break
			}
		}
		resCh <- srvRes{n: len(buf), init: isMaskedInit(buf)}
		<-release
	})}
	go func() { _ = srv.Serve(ln) }()
	defer func() {
		close(release)
		_ = srv.Close()
	}()

	e.h.VerifSetStarted(true) // no listener needed; RegisterRemoteSKI then queues the SKI for an immediate dial
	if pairPresented {
		// the device whose certificate the server presents is itself a paired one (it is not
		// visible, so it is not dialled): the binding to the DIALLED SKI must not depend on it
		if pres := presentedSKI(chain[0]); pres != dialled {
			e.h.RegisterRemoteSKI(pres)
		}
	}
	e.h.RegisterRemoteSKI(dialled)
	norm := e.h.ServiceForSKI(dialled).SKI()
	if norm != dialled {
		return outObs{}, &anomaly{"dialled SKI is not in normal form"}
	}
	entry := &api.MdnsEntry{Name: "c02", Ski: dialled, Identifier: "c02", Path: "/ship/", Port: port,
		Addresses: []net.IP{net.ParseIP("127.0.0.1")}}
	e.h.ReportMdnsEntries(map[string]*api.MdnsEntry{dialled: entry}, true)

	var r srvRes
	select {
	case r = <-resCh:
	case <-time.After(stepDeadline):
		return outObs{}, &anomaly{"the hub did not dial the server"}
	}
	if r.err != "" {
		return outObs{}, &anomaly{"server side: " + r.err}
	}
	ob := outObs{bytes: r.n, initSeen: r.init}
	if r.n > 0 {
		// something was sent: the hub kept the connection iff it registers it
		waitFor(func() bool { ob.regSKIs = registrySKIs(e.h); return len(ob.regSKIs) > 0 }, 3*time.Second)
		ob.accepted = r.init && len(ob.regSKIs) > 0
	} else {
		ob.regSKIs = registrySKIs(e.h)
		if len(ob.regSKIs) > 0 {
			return outObs{}, &anomaly{"connection closed without a byte but registered"}
		}
	}
	return ob, nil
}

// a masked client frame: FIN+binary, length 2, payload 00 00
func isMaskedInit(b []byte) bool {
	if len(b) < 8 || b[0] != 0x82 || b[1] != 0x82 {
		return false
	}
	return b[6]^b[2] == model.ShipInit[0] && b[7]^b[3] == model.ShipInit[1]
}

func runOutbound(sc outScen, victim *crt) (vh.Case, error) {
	r := sc.sub
	first := makeKind(r, ecKey(r, elliptic.P256(), "ecdsa-p256"), sc.kind, victim)
	chain := []*crt{first}
	if sc.twoCert {
		chain = append(chain, makeKind(r, ecKey(r, elliptic.P256(), "ecdsa-p256"), "own", victim))
	}
	var dialled string
	switch sc.dial {
	case "ext":
		if first.hasSki && len(first.skiExt) > 0 {
			dialled = hex.EncodeToString(first.skiExt)
		} else {
			dialled = hex.EncodeToString(first.sha[:])
		}
	case "own":
		dialled = hex.EncodeToString(first.sha[:])
		if sc.twoCert {
			dialled = hex.EncodeToString(chain[1].sha[:])
		}
	default:
		dialled = hex.EncodeToString(victim.sha[:])
		if sc.kind == "foreign" {
			dialled = hex.EncodeToString(first.sha[:]) // its real identity, which it does not claim
		}
	}
	return outboundCase(fmt.Sprintf("sys_out_%s_dial_%s_%d", sc.kind, sc.dial, len(chain)), dialled, chain, r.Chance(40))
}

// the SKI a certificate claims (its extension, else the hash of its key), as 40 hex digits
func presentedSKI(c *crt) string {
	if c.hasSki && len(c.skiExt) > 0 {
		return hex.EncodeToString(c.skiExt)
	}
	return hex.EncodeToString(c.sha[:])
}

// outboundCase makes a fresh hub dial a server presenting chain and writes the case.
func outboundCase(kind, dialled string, chain []*crt, pairPresented bool) (vh.Case, error) {
	first := chain[0]
	var ob outObs
	var err error
	for attempt := 0; attempt < 3; attempt++ {
		p := guard(func() { ob, err = runOutboundOnce(dialled, chain, pairPresented) })
		if p != nil {
			return vh.Case{}, fmt.Errorf("panic in outbound session: %v", p)
		}
		var a *anomaly
		if err == nil || !errors.As(err, &a) {
			break
		}
	}
	if err != nil {
		return vh.Case{}, err
	}
	got := "ORefuse 0"
	if ob.accepted {
		got = "OAccept"
	} else if ob.bytes > 0 {
		got = "ORefuse 1"
	}
	var cs []any
	for _, c := range chain {
		cs = append(cs, c.sample())
	}
	return vh.Case{
		Coq:        fmt.Sprintf("COut %s %s (%s)", vh.HxS(dialled), coqCerts(chain), got),
		Nontrivial: first.hasSki && len(first.skiExt) == 20,
		Key:        fmt.Sprintf("out|%s|%s|%v", dialled, coqCerts(chain), pairPresented),
		Kind:       kind,
		Sample: map[string]any{"session": "outbound: hub.Hub dials a TLS websocket server", "dialled_ski": dialled, "presented_ski_is_paired_too": pairPresented, "server_chain": cs,
			"bytes_received_after_upgrade": ob.bytes, "first_frame_is_ship_init": ob.initSeen, "registered_skis": ob.regSKIs, "accepted": ob.accepted},
	}, nil
}

// ---- runner ----

func runSys(r *vh.Rng, n int, w *vh.Writer, workers int) int {
	nIn := n * 7 / 10
	nOut := n - nIn
	victimKey := ecKey(r, elliptic.P256(), "ecdsa-p256")
	victim := makeKind(r, victimKey, "own", nil)
	// the victim is a known device: its genuine certificate has been accepted by this process before
	if _, ok, p := skiFromCert(victim.leaf); !ok || p != nil {
		panic("the genuine certificate of a device is refused")
	}
	ins := planInbound(r, nIn)
	outs := planOutbound(r, nOut)
	total := len(ins) + len(outs)
	cases := make([]vh.Case, total)
	errs := make([]error, total)
	jobs := make(chan int, total)
	for i := 0; i < total; i++ {
		jobs <- i
	}
	close(jobs)
	var wg sync.WaitGroup
	if workers < 1 {
		workers = 1
	}
	for k := 0; k < workers; k++ {
		wg.Add(1)
		go func() {
			defer wg.Done()
			for i := range jobs {
				if i < len(ins) {
					cases[i], errs[i] = runInbound(ins[i], victim)
				} else {
					cases[i], errs[i] = runOutbound(outs[i-len(ins)], victim)
				}
			}
		}()
	}
	wg.Wait()
	rc := 0
	for i := 0; i < total; i++ {
		if errs[i] != nil {
			fmt.Fprintf(os.Stderr, "certdrv: session %d could not be observed: %v\n", i, errs[i])
			rc = 3
			continue
		}
		w.Put(cases[i])
	}
	return rc
}
