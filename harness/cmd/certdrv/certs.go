package main

import (
	"crypto"
	"crypto/ecdsa"
	"crypto/ed25519"
	"crypto/elliptic"
	"crypto/rand"
	"crypto/rsa"
	"crypto/sha1" // #nosec G505 -- the SKI derivation under test is SHA-1
	"crypto/tls"
	"crypto/x509"
	"crypto/x509/pkix"
	"encoding/asn1"
	"encoding/hex"
	"fmt"
	"math/big"
	"sync"
	"sync/atomic"
	"time"

	"verif/harness/internal/vh"
)

// key is a key pair together with what the model calls the certificate's pubkey: the
// contents of the subjectPublicKey BIT STRING, and its SHA-1 (computed here with crypto/sha1
// to label the certificate; SHA-1 itself is abstract in the model).
type key struct {
	typ  string
	priv crypto.Signer
}

func randBytes(r *vh.Rng, n int) []byte {
	b := make([]byte, n)
	for i := range b {
		b[i] = byte(r.Next())
	}
	return b
}

// ecKey derives an ECDSA key deterministically from the PRNG.
func ecKey(r *vh.Rng, curve elliptic.Curve, typ string) *key {
	nm1 := new(big.Int).Sub(curve.Params().N, big.NewInt(1))
	d := new(big.Int).SetBytes(randBytes(r, (curve.Params().BitSize+7)/8+8))
	d.Mod(d, nm1).Add(d, big.NewInt(1))
	priv := &ecdsa.PrivateKey{D: d}
	priv.Curve = curve
	priv.X, priv.Y = curve.ScalarBaseMult(d.Bytes()) //nolint:staticcheck // deterministic key derivation
	return &key{typ: typ, priv: priv}
}

func edKey(r *vh.Rng) *key {
	return &key{typ: "ed25519", priv: ed25519.NewKeyFromSeed(randBytes(r, 32))}
}

var (
	rsaOnce sync.Once
	rsaK    *key
)

// one RSA key per run (key generation is slow and crypto/rsa cannot be made deterministic;
// the decision under test does not depend on which RSA key it is)
func rsaKey() *key {
	rsaOnce.Do(func() {
		k, err := rsa.GenerateKey(rand.Reader, 2048)
		if err != nil {
			panic(err)
		}
		rsaK = &key{typ: "rsa2048", priv: k}
	})
	return rsaK
}

// crt is a certificate as built here, as parsed by crypto/x509, and as the model sees it.
type crt struct {
	kind   string // generator class of the SKI extension
	keyTyp string
	der    []byte
	leaf   *x509.Certificate
	priv   crypto.Signer
	skiExt []byte // nil = absent
	hasSki bool
	spk    []byte // subjectPublicKey bits
	sha    [20]byte
}

func spkBits(c *x509.Certificate) []byte {
	var spki struct {
		Algorithm pkix.AlgorithmIdentifier
		PublicKey asn1.BitString
	}
	if _, err := asn1.Unmarshal(c.RawSubjectPublicKeyInfo, &spki); err != nil {
		panic(fmt.Sprint("certdrv: cannot parse SubjectPublicKeyInfo: ", err))
	}
	return spki.PublicKey.RightAlign()
}

var serial atomic.Int64

var skiOID = asn1.ObjectIdentifier{2, 5, 29, 14}

// makeCert builds a self-signed certificate for k. ski == nil && !present: no SKI extension.
// Otherwise the extension carries exactly ski (any length; written as a raw extension so
// that crypto/x509 neither derives nor rejects it).
func makeCert(k *key, present bool, ski []byte, cn string, kind string) *crt {
	t := x509.Certificate{
		SerialNumber:          big.NewInt(serial.Add(1) + 1),
		Subject:               pkix.Name{CommonName: cn, Organization: []string{"verif"}},
		NotBefore:             time.Now().Add(-time.Hour),
		NotAfter:              time.Now().Add(24 * time.Hour),
		KeyUsage:              x509.KeyUsageDigitalSignature,
		BasicConstraintsValid: true,
		IsCA:                  false, // a CA template would get a derived SubjectKeyId when none is given
	}
	if present {
		v, err := asn1.Marshal(ski)
		if err != nil {
			panic(err)
		}
		t.ExtraExtensions = []pkix.Extension{{Id: skiOID, Value: v}}
	}
	der, err := x509.CreateCertificate(rand.Reader, &t, &t, k.priv.Public(), k.priv)
	if err != nil {
		panic(fmt.Sprint("certdrv: CreateCertificate: ", err))
	}
	return parseCrt(der, k.priv, k.typ, kind, present, ski)
}

// parseCrt: the model's view is taken from what crypto/x509 parsed (X.509 parsing is
// modelled, not verified); wantPresent/wantSki are cross-checked when given.
func parseCrt(der []byte, priv crypto.Signer, keyTyp, kind string, wantPresent bool, wantSki []byte) *crt {
	leaf, err := x509.ParseCertificate(der)
	if err != nil {
		panic(fmt.Sprint("certdrv: ParseCertificate: ", err))
	}
	c := &crt{kind: kind, keyTyp: keyTyp, der: der, leaf: leaf, priv: priv}
	c.hasSki = leaf.SubjectKeyId != nil
	if !c.hasSki {
		// a present but empty extension parses to an empty slice; make sure "absent" is absent
		for _, e := range leaf.Extensions {
			if e.Id.Equal(skiOID) {
				c.hasSki = true
			}
		}
	}
	c.skiExt = append([]byte{}, leaf.SubjectKeyId...)
	if wantSki != nil || wantPresent {
		if c.hasSki != wantPresent || hex.EncodeToString(c.skiExt) != hex.EncodeToString(wantSki) {
			panic(fmt.Sprintf("certdrv: built certificate has SKI %v %x, wanted %v %x", c.hasSki, c.skiExt, wantPresent, wantSki))
		}
	}
	c.spk = spkBits(leaf)
	c.sha = sha1.Sum(c.spk) // #nosec G401
	return c
}

func (c *crt) tlsCert() tls.Certificate {
	return tls.Certificate{Certificate: [][]byte{c.der}, PrivateKey: c.priv, Leaf: c.leaf}
}

// Gallina: the model's certificate and the digest table entry for its key
func (c *crt) coq() string {
	return fmt.Sprintf("{| ski_ext := %s; pubkey := %s |}", vh.Opt(c.hasSki, vh.Hx(c.skiExt)), vh.Hx(c.spk))
}

// dcoq: the certificate paired with the digest of its key (Cert.v: dcert)
func (c *crt) dcoq() string {
	return fmt.Sprintf("(%s, %s)", c.coq(), vh.Hx(c.sha[:]))
}

func (c *crt) sample() map[string]any {
	m := map[string]any{"kind": c.kind, "key_type": c.keyTyp, "ski_present": c.hasSki, "ski_ext": hex.EncodeToString(c.skiExt),
		"sha1_of_subjectPublicKey": hex.EncodeToString(c.sha[:]), "der": hex.EncodeToString(c.der)}
	if c.priv != nil {
		// throw-away key of a driver-built certificate, kept so that a session can be replayed from the sample
		if b, err := x509.MarshalPKCS8PrivateKey(c.priv); err == nil {
			m["pkcs8"] = hex.EncodeToString(b)
		}
	}
	return m
}

func coqCerts(cs []*crt) string {
	parts := make([]string, 0, len(cs))
	for _, c := range cs {
		parts = append(parts, c.dcoq())
	}
	return vh.List(parts)
}

// SKI extension classes. victim is a certificate of another device (own-key SKI).
var skiKinds = []string{"own", "foreign", "absent", "random20", "len0", "len19", "len21", "lenN", "own_flipped", "hash_of_spki_der"}

func makeKind(r *vh.Rng, k *key, kind string, victim *crt) *crt {
	// own SKI needs the key's subjectPublicKey bits: build a throw-away certificate first
	probe := makeCert(k, false, nil, "probe", "probe")
	own := probe.sha[:]
	cn := "c02-" + kind
	switch kind {
	case "own":
		return makeCert(k, true, own, cn, kind)
	case "foreign":
		return makeCert(k, true, victim.sha[:], cn, kind)
	case "absent":
		return makeCert(k, false, nil, cn, kind)
	case "random20":
		return makeCert(k, true, randBytes(r, 20), cn, kind)
	case "len0":
		return makeCert(k, true, []byte{}, cn, kind)
	case "len19":
		return makeCert(k, true, own[:19], cn, kind)
	case "len21":
		return makeCert(k, true, append(append([]byte{}, own...), 0), cn, kind)
	case "lenN":
		l := r.Intn(41)
		if l == 20 {
			l = 40
		}
		return makeCert(k, true, randBytes(r, l), cn, kind)
	case "own_flipped":
		s := append([]byte{}, own...)
		s[r.Intn(20)] ^= 1 << uint(r.Intn(8))
		return makeCert(k, true, s, cn, kind)
	case "hash_of_spki_der":
		h := sha1.Sum(probe.leaf.RawSubjectPublicKeyInfo) // #nosec G401 -- a plausible non-conforming derivation
		return makeCert(k, true, h[:], cn, kind)
	}
	panic("unknown kind " + kind)
}

// crtFromSample rebuilds a certificate from a case sample (corpus replay).
func crtFromSample(m map[string]any) (*crt, error) {
	ds, _ := m["der"].(string)
	der, err := hex.DecodeString(ds)
	if err != nil || len(der) == 0 {
		return nil, fmt.Errorf("sample has no certificate")
	}
	var priv crypto.Signer
	if ks, ok := m["pkcs8"].(string); ok {
		kb, err := hex.DecodeString(ks)
		if err != nil {
			return nil, err
		}
		k, err := x509.ParsePKCS8PrivateKey(kb)
		if err != nil {
			return nil, err
		}
		priv, _ = k.(crypto.Signer)
	}
	kind, _ := m["kind"].(string)
	kt, _ := m["key_type"].(string)
	var c *crt
	if p := guard(func() { c = parseCrt(der, priv, kt, kind, false, nil) }); p != nil {
		return nil, fmt.Errorf("%v", p)
	}
	return c, nil
}
