package main

import (
	"crypto/elliptic"
	"crypto/x509"
	"encoding/hex"
	"fmt"
	"strings"
	"unicode/utf8"

	"github.com/enbility/ship-go/cert"

	"verif/harness/internal/vh"
)

// guard runs f under recover; a panic of the implementation is reported as such
func guard(f func()) (panicked any) {
	defer func() { panicked = recover() }()
	f()
	return nil
}

func skiFromCert(leaf *x509.Certificate) (string, bool, any) {
	var s string
	var err error
	p := guard(func() { s, err = cert.SkiFromCertificate(leaf) })
	return s, err == nil && p == nil, p
}

func pickKey(r *vh.Rng) *key {
	switch x := r.Intn(100); {
	case x < 72:
		return ecKey(r, elliptic.P256(), "ecdsa-p256")
	case x < 82:
		return ecKey(r, elliptic.P384(), "ecdsa-p384")
	case x < 96:
		return edKey(r)
	default:
		return rsaKey()
	}
}

var subjectAlphabets = []string{
	"abcdefghijklmnopqrstuvwxyzABCDEFGHIJKLMNOPQRSTUVWXYZ0123456789 -_.",
	"äöüßéèêñçøåæœ€£¥§°µ",
	"日本語中文한국어العربيةעבריתΕλληνικάРусский",
	"\U0001F600\U0001F680\U0001F4A1\U00010348",
	"=,+\"\\<>;#/\x00\t\n\r\x7f*@",
}

func randSubject(r *vh.Rng) string {
	switch r.Intn(10) {
	case 0:
		return ""
	case 1: // long
		return strings.Repeat(string(rune('a'+r.Intn(26))), 65+r.Intn(400))
	case 2: // invalid UTF-8
		return string(randBytes(r, 1+r.Intn(12)))
	}
	var sb strings.Builder
	n := 1 + r.Intn(24)
	for i := 0; i < n; i++ {
		a := []rune(subjectAlphabets[r.Intn(len(subjectAlphabets))])
		sb.WriteRune(a[r.Intn(len(a))])
	}
	return sb.String()
}

func runUnit(r *vh.Rng, n int, w *vh.Writer) {
	// a small pool of "other devices" whose SKI a certificate may copy
	var victims []*crt
	for i := 0; i < 4; i++ {
		k := ecKey(r, elliptic.P256(), "ecdsa-p256")
		victims = append(victims, makeKind(r, k, "own", nil))
	}
	// the other devices are known ones: their genuine certificates have been seen (and accepted)
	// by this process before anybody presents a certificate that copies their SKI
	for _, v := range victims {
		if _, ok, p := skiFromCert(v.leaf); !ok || p != nil {
			panic("the genuine certificate of a device is refused")
		}
	}
	for i := 0; i < n; i++ {
		switch x := r.Intn(100); {
		case x < 55:
			unitSki(r, w, victims)
		case x < 78:
			unitGen(r, w)
		default:
			unitHex(r, w)
		}
	}
}

func unitSki(r *vh.Rng, w *vh.Writer, victims []*crt) {
	k := pickKey(r)
	kind := vh.Pick(r, skiKinds)
	c := makeKind(r, k, kind, vh.Pick(r, victims))
	s, ok, p := skiFromCert(c.leaf)
	if p != nil {
		panic(fmt.Sprint("cert.SkiFromCertificate panicked: ", p))
	}
	w.Put(vh.Case{
		Coq:        fmt.Sprintf("CSki %s %s", c.dcoq(), vh.Opt(ok, vh.HxS(s))),
		Nontrivial: c.hasSki && len(c.skiExt) == 20,
		Key:        fmt.Sprintf("ski|%s|%s|%x|%x", kind, c.keyTyp, c.skiExt, c.spk),
		Kind:       "unit_ski_" + kind,
		Sample:     map[string]any{"call": "cert.SkiFromCertificate", "certificate": c.sample(), "result": s, "ok": ok},
	})
}

func unitGen(r *vh.Rng, w *vh.Writer) {
	ou, o, cc, cn := randSubject(r), randSubject(r), randSubject(r), randSubject(r)
	if r.Chance(30) {
		cc = vh.Pick(r, []string{"DE", "US", "", "CH", "XX"})
	}
	valid := utf8.ValidString(ou) && utf8.ValidString(o) && utf8.ValidString(cc) && utf8.ValidString(cn)
	sample := map[string]any{"call": "cert.CreateCertificate", "ou": ou, "o": o, "c": cc, "cn": cn, "valid_utf8": valid}
	key := fmt.Sprintf("gen|%q|%q|%q|%q", ou, o, cc, cn)
	var der []byte
	var gerr error
	p := guard(func() {
		tc, err := cert.CreateCertificate(ou, o, cc, cn)
		gerr = err
		if err == nil && len(tc.Certificate) > 0 {
			der = tc.Certificate[0]
		}
	})
	if p != nil {
		panic(fmt.Sprint("cert.CreateCertificate panicked: ", p))
	}
	if der == nil {
		sample["error"] = fmt.Sprint(gerr)
		w.Put(vh.Case{Coq: fmt.Sprintf("CGenErr %s", vh.B(valid)), Nontrivial: valid, Key: key, Kind: "unit_gen_error", Sample: sample})
		return
	}
	c := parseCrt(der, nil, "ecdsa-p256", "generator", false, nil)
	s, ok, _ := skiFromCert(c.leaf)
	sample["certificate"] = c.sample()
	sample["result"] = s
	sample["ok"] = ok
	kind := "unit_gen"
	if !valid {
		kind = "unit_gen_invalid_utf8"
	}
	w.Put(vh.Case{
		Coq:        fmt.Sprintf("CGen %s %s", c.dcoq(), vh.Opt(ok, vh.HxS(s))),
		Nontrivial: true, Key: key, Kind: kind, Sample: sample,
	})
}

func unitHex(r *vh.Rng, w *vh.Writer) {
	l := r.Intn(48)
	if r.Chance(30) {
		l = 20
	}
	b := randBytes(r, l)
	if r.Chance(10) {
		for i := range b {
			b[i] = vh.Pick(r, []byte{0x00, 0x0a, 0xa0, 0xff, 0x09, 0x10})
		}
	}
	got := fmt.Sprintf("%0x", b)
	w.Put(vh.Case{
		Coq:        fmt.Sprintf("CHex %s %s", vh.Hx(b), vh.HxS(got)),
		Nontrivial: l > 0, Key: "hex|" + hex.EncodeToString(b), Kind: "unit_hex",
		Sample: map[string]any{"call": "fmt.Sprintf(\"%0x\", b)", "b": hex.EncodeToString(b), "result": got},
	})
}
