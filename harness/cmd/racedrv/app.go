package main

import (
	"fmt"
	"net"
	"sync"
	"sync/atomic"

	"github.com/enbility/ship-go/api"
)

// A note on synchronisation in this driver: every mutex or read-modify-write atomic
// shared between goroutines adds happens-before edges that can hide library races
// from the race detector. Hot paths therefore use per-goroutine counters (one writer
// each, read atomically by the summary), atomic loads of values stored by the main
// goroutine, and count "after the call" wherever a shared counter is unavoidable.

// ---- directory of the hubs in this process ----

type peerInfo struct {
	idx    int
	ski    string
	shipID string
	port   atomic.Int64 // current websocket port, changes on churn
}

// ---- application object (api.HubReaderInterface), one per node, reused across restarts ----

const writersPerPeer = 4

type app struct {
	idx int

	mu      sync.Mutex
	writers map[string][]api.ShipConnectionDataWriterInterface // per remote ski, newest last

	armed atomic.Pointer[chan struct{}]

	cbConnected    atomic.Int64
	cbDisconnected atomic.Int64
	cbSetup        atomic.Int64
	cbPairing      atomic.Int64
	cbVisible      atomic.Int64
	cbShipID       atomic.Int64
	cbAllowWait    atomic.Int64
	payloadsRx     atomic.Int64
	payloadBytes   atomic.Int64
}

func newApp(idx int) *app {
	return &app{idx: idx, writers: map[string][]api.ShipConnectionDataWriterInterface{}}
}

var _ api.HubReaderInterface = (*app)(nil)

func (a *app) RemoteSKIConnected(ski string) {
	_ = len(ski)
	a.cbConnected.Add(1)
}

func (a *app) RemoteSKIDisconnected(ski string) {
	_ = len(ski)
	a.cbDisconnected.Add(1)
}

func (a *app) SetupRemoteDevice(ski string, w api.ShipConnectionDataWriterInterface) api.ShipConnectionDataReaderInterface {
	a.mu.Lock()
	l := append(a.writers[ski], w)
	if len(l) > writersPerPeer {
		l = append([]api.ShipConnectionDataWriterInterface(nil), l[len(l)-writersPerPeer:]...)
	}
	a.writers[ski] = l
	a.mu.Unlock()
	a.cbSetup.Add(1)
	return &reader{a: a}
}

func (a *app) VisibleRemoteServicesUpdated(entries []api.RemoteService) {
	n := 0
	for _, e := range entries {
		n += len(e.Name) + len(e.Ski) + len(e.Identifier) + len(e.Brand) + len(e.Type) + len(e.Model) + len(e.Serial) + len(e.Categories)
	}
	_ = n
	a.cbVisible.Add(1)
}

func (a *app) ServiceShipIDUpdate(ski string, shipID string) {
	_ = len(ski) + len(shipID)
	a.cbShipID.Add(1)
}

func (a *app) ServicePairingDetailUpdate(ski string, detail *api.ConnectionStateDetail) {
	if detail != nil {
		state := detail.State()
		_ = detail.Error()
		// "a remote service initiated the connection": the hub reports this from ServeHTTP
		// just before it registers the incoming connection. An armed application reacts to
		// it by shutting the hub down (see shutdownHub), which puts Shutdown right next to
		// a registration. The plain Load keeps this off the hot path.
		if state == api.ConnectionStateReceivedPairingRequest && a.armed.Load() != nil {
			if ch := a.armed.Swap(nil); ch != nil {
				close(*ch)
			}
		}
	}
	a.cbPairing.Add(1)
}

// arm makes the next "received pairing request" update close the returned channel
func (a *app) arm() <-chan struct{} {
	ch := make(chan struct{})
	a.armed.Store(&ch)
	return ch
}

func (a *app) disarm() { a.armed.Store(nil) }

func (a *app) AllowWaitingForTrust(ski string) bool {
	a.cbAllowWait.Add(1)
	return true
}

// snapshot of the writers handed out so far: all of the kept ones (current and
// stale), and the newest one per remote ski
func (a *app) writerSnapshot() (all, newest []api.ShipConnectionDataWriterInterface) {
	a.mu.Lock()
	defer a.mu.Unlock()
	for _, l := range a.writers {
		all = append(all, l...)
		if len(l) > 0 {
			newest = append(newest, l[len(l)-1])
		}
	}
	return all, newest
}

func (a *app) writersFor(ski string) []api.ShipConnectionDataWriterInterface {
	a.mu.Lock()
	defer a.mu.Unlock()
	return append([]api.ShipConnectionDataWriterInterface(nil), a.writers[ski]...)
}

type reader struct{ a *app }

func (r *reader) HandleShipPayloadMessage(message []byte) {
	// consume the bytes like a JSON decoder would
	var sum byte
	for _, b := range message {
		sum ^= b
	}
	_ = sum
	r.a.payloadBytes.Add(int64(len(message)))
	r.a.payloadsRx.Add(1)
}

// ---- fake mDNS (api.MdnsInterface), one per hub object ----

type fakeMdns struct {
	self  int
	peers []*peerInfo

	cb      atomic.Pointer[cbBox] // stored by Start
	visible []atomic.Bool         // by peer index, written by the toggler goroutine only

	nStart, nShutdown, nAnnounce, nUnannounce, nSetAutoAccept, nQR atomic.Int64
	nReportsNew, nReportsReq                                       atomic.Int64
}

type cbBox struct{ cb api.MdnsReportInterface }

func newFakeMdns(self int, peers []*peerInfo) *fakeMdns {
	m := &fakeMdns{self: self, peers: peers, visible: make([]atomic.Bool, len(peers))}
	for i := range m.visible {
		m.visible[i].Store(i != self)
	}
	return m
}

var _ api.MdnsInterface = (*fakeMdns)(nil)

func (m *fakeMdns) Start(cb api.MdnsReportInterface) error {
	m.cb.Store(&cbBox{cb: cb})
	m.nStart.Add(1)
	return nil
}

func (m *fakeMdns) Shutdown()                { m.nShutdown.Add(1) }
func (m *fakeMdns) AnnounceMdnsEntry() error { m.nAnnounce.Add(1); return nil }
func (m *fakeMdns) UnannounceMdnsEntry()     { m.nUnannounce.Add(1) }
func (m *fakeMdns) SetAutoAccept(bool)       { m.nSetAutoAccept.Add(1) }
func (m *fakeMdns) QRCodeText() string       { m.nQR.Add(1); return "SHIP;SKI:fake;ID:fake;ENDSHIP;" }
func (m *fakeMdns) RequestMdnsEntries()      { m.report(false, false) }

// publish is what the toggler goroutine calls after a visibility change
func (m *fakeMdns) publish(register bool) { m.report(true, register) }

// build a fresh map with fresh entries: the hub mutates entry.Addresses and sorts it
func (m *fakeMdns) entries(register bool) map[string]*api.MdnsEntry {
	res := make(map[string]*api.MdnsEntry)
	for i, p := range m.peers {
		if i == m.self || !m.visible[i].Load() {
			continue
		}
		port := int(p.port.Load())
		if port == 0 {
			continue
		}
		res[p.ski] = &api.MdnsEntry{
			Name:       fmt.Sprintf("racedrv-%d", i),
			Ski:        p.ski,
			Identifier: p.shipID,
			Path:       "/ship/",
			Register:   register,
			Brand:      "brand" + fmt.Sprint(i),
			Model:      "model" + fmt.Sprint(i),
			Type:       "type" + fmt.Sprint(i),
			Serial:     "serial" + fmt.Sprint(i),
			Categories: []api.DeviceCategoryType{api.DeviceCategoryTypeEnergyManagementSystem},
			Host:       "",
			Port:       port,
			Addresses:  []net.IP{net.ParseIP("127.0.0.1")},
		}
	}
	return res
}

// like the real manager: hand a fresh copy to the report receiver in a new goroutine
func (m *fakeMdns) report(newEntries, register bool) {
	box := m.cb.Load()
	if box == nil {
		return
	}
	go func() {
		defer catch("mdns-report")
		box.cb.ReportMdnsEntries(m.entries(register), newEntries)
		// counted after the call so that the shared counter orders nothing that matters
		if newEntries {
			m.nReportsNew.Add(1)
		} else {
			m.nReportsReq.Add(1)
		}
		st.reportGoroutines.Add(1)
	}()
}
