package main

import (
	"fmt"
	"net"
	"sync"
	"sync/atomic"
	"time"

	"github.com/enbility/ship-go/api"
	"github.com/enbility/ship-go/mdns"

	"verif/harness/internal/vh"
)

// The real mdns.MdnsManager under concurrent use, with a fake provider instead of
// avahi/zeroconf (Start is never called, nothing touches the network).

type fakeProvider struct {
	nStart, nShutdown, nAnnounce, nUnannounce atomic.Int64
}

var _ api.MdnsProviderInterface = (*fakeProvider)(nil)

func (p *fakeProvider) Start(autoReconnect bool, cb api.MdnsResolveCB) bool {
	p.nStart.Add(1)
	return true
}
func (p *fakeProvider) Shutdown() { p.nShutdown.Add(1) }
func (p *fakeProvider) Announce(serviceName string, port int, txt []string) error {
	n := len(serviceName) + port
	for _, t := range txt {
		n += len(t)
	}
	_ = n
	p.nAnnounce.Add(1)
	return nil
}
func (p *fakeProvider) Unannounce() { p.nUnannounce.Add(1) }

type countingReport struct {
	nReports, nEntries atomic.Int64
}

var _ api.MdnsReportInterface = (*countingReport)(nil)

func (c *countingReport) ReportMdnsEntries(entries map[string]*api.MdnsEntry, newEntries bool) {
	n := 0
	for ski, e := range entries {
		n += len(ski) + len(e.Name) + len(e.Ski) + len(e.Identifier) + len(e.Path) + len(e.Brand) +
			len(e.Type) + len(e.Model) + len(e.Serial) + len(e.Host) + e.Port + len(e.Categories)
		for _, a := range e.Addresses {
			n += len(a.String())
		}
	}
	_ = n
	c.nEntries.Add(int64(len(entries)))
	c.nReports.Add(1)
}

const (
	mAnnounce = iota
	mUnannounce
	mSetAutoAccept
	mRequest
	mQRCode
	mShutdown
	nMdnsOps
)

var mdnsOpNames = [nMdnsOps]string{
	"AnnounceMdnsEntry", "UnannounceMdnsEntry", "SetAutoAccept", "RequestMdnsEntries", "QRCodeText", "Shutdown",
}

type mdnsCounters struct{ n [nMdnsOps]atomic.Int64 }

type realMdns struct {
	m        *mdns.MdnsManager
	provider *fakeProvider
	report   *countingReport
	fed      atomic.Int64 // resolver events, written by the feeder only

	mu       sync.Mutex
	counters []*mdnsCounters
}

func (rm *realMdns) newCounters() *mdnsCounters {
	c := &mdnsCounters{}
	rm.mu.Lock()
	rm.counters = append(rm.counters, c)
	rm.mu.Unlock()
	return c
}

func mdnsOp(who string, c *mdnsCounters, op int, f func()) {
	defer catch(who + "/mdns." + mdnsOpNames[op])
	c.n[op].Add(1)
	f()
}

func fakeRemoteSki(i int) string {
	return fmt.Sprintf("%040x", 0xabcdef00+i)
}

// startRealMdns wires the manager up (before any goroutine uses it) and starts the
// feeder and the API callers; they run until stop is closed.
func startRealMdns(ownSki string, port int, r *vh.Rng, stop <-chan struct{}, wg *sync.WaitGroup) *realMdns {
	rm := &realMdns{provider: &fakeProvider{}, report: &countingReport{}}
	rm.m = mdns.NewMDNS(ownSki, "brand", "model", "type", "serial",
		[]api.DeviceCategoryType{1}, "shipid", "name", port, nil, mdns.MdnsProviderSelectionAll)
	rm.m.VerifSetProvider(rm.provider)
	rm.m.VerifSetReport(rm.report)
	resolve := rm.m.VerifResolverCallback()
	rm.provider.Start(false, resolve)

	// a single feeder, like the one listener goroutine of a real provider
	fr := r.Fork()
	spawn(wg, "mdns-feeder", func() {
		for !stopped(stop) {
			i := fr.Intn(5)
			ski := fakeRemoteSki(i)
			if fr.Chance(5) {
				ski = ownSki // ignored by the manager
			}
			elements := map[string]string{
				"txtvers":  "1",
				"id":       fmt.Sprintf("id-%d", i),
				"path":     "/ship/",
				"ski":      ski,
				"register": fmt.Sprint(fr.Chance(30)),
				"brand":    "fbrand",
				"type":     "ftype",
				"model":    "fmodel",
			}
			if fr.Chance(50) {
				elements["serial"] = fmt.Sprintf("s%d", i)
				elements["cat"] = "1,2"
			}
			if fr.Chance(3) {
				delete(elements, "register") // dropped as malformed
			}
			var addrs []net.IP
			for k := 0; k <= fr.Intn(3); k++ {
				if fr.Chance(70) {
					addrs = append(addrs, net.IPv4(10, 0, byte(i), byte(1+fr.Intn(4))))
				} else {
					addrs = append(addrs, net.ParseIP(fmt.Sprintf("fd00::%d:%d", i, 1+fr.Intn(4))))
				}
			}
			remove := fr.Chance(30)
			func() {
				defer catch("mdns-feeder/resolve")
				resolve(elements, fmt.Sprintf("name-%d", i), fmt.Sprintf("host-%d.local", i), addrs, 4711+i, remove)
			}()
			rm.fed.Add(1)
			if sleepOrStop(stop, time.Duration(fr.Intn(6))*time.Millisecond) {
				return
			}
		}
	})

	for g := 0; g < 3; g++ {
		g := g
		gr := r.Fork()
		c := rm.newCounters()
		who := fmt.Sprintf("mdns-caller-%d", g)
		spawn(wg, who, func() {
			for !stopped(stop) {
				switch gr.Intn(10) {
				case 0, 1, 2:
					mdnsOp(who, c, mAnnounce, func() { _ = rm.m.AnnounceMdnsEntry() })
				case 3, 4:
					mdnsOp(who, c, mUnannounce, func() { rm.m.UnannounceMdnsEntry() })
				case 5, 6:
					v := gr.Bool()
					mdnsOp(who, c, mSetAutoAccept, func() { rm.m.SetAutoAccept(v) })
				case 7, 8:
					mdnsOp(who, c, mRequest, func() { rm.m.RequestMdnsEntries() })
				case 9:
					mdnsOp(who, c, mQRCode, func() { _ = rm.m.QRCodeText() })
				}
				if sleepOrStop(stop, time.Duration(gr.Intn(8))*time.Millisecond) {
					return
				}
			}
		})
	}
	return rm
}

// at the very end: Shutdown concurrently with a last AnnounceMdnsEntry
func (rm *realMdns) finish() {
	c1, c2 := rm.newCounters(), rm.newCounters()
	release := make(chan struct{})
	done := make(chan struct{}, 2)
	spawn(nil, "mdns-final-shutdown", func() {
		defer func() { done <- struct{}{} }()
		<-release
		mdnsOp("mdns-final", c1, mShutdown, func() { rm.m.Shutdown() })
	})
	spawn(nil, "mdns-final-announce", func() {
		defer func() { done <- struct{}{} }()
		<-release
		mdnsOp("mdns-final", c2, mAnnounce, func() { _ = rm.m.AnnounceMdnsEntry() })
	})
	close(release)
	waitN(done, 2, 2*time.Second)
}

func (rm *realMdns) summary() map[string]any {
	calls := map[string]int64{}
	rm.mu.Lock()
	for _, c := range rm.counters {
		for i := range c.n {
			calls[mdnsOpNames[i]] += c.n[i].Load()
		}
	}
	rm.mu.Unlock()
	return map[string]any{
		"events_fed":       rm.fed.Load(),
		"reports_received": rm.report.nReports.Load(),
		"entries_reported": rm.report.nEntries.Load(),
		"calls":            calls,
		"provider": map[string]int64{
			"Start":      rm.provider.nStart.Load(),
			"Shutdown":   rm.provider.nShutdown.Load(),
			"Announce":   rm.provider.nAnnounce.Load(),
			"Unannounce": rm.provider.nUnannounce.Load(),
		},
	}
}
