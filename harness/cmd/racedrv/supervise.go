package main

import (
	"encoding/json"
	"fmt"
	"io"
	"os"
	"os/exec"
	"strings"
	"sync"
	"time"
)

// The supervising parent. It runs the stress in child processes ("segments"): normally
// one; if a child dies of something that cannot be recovered in-process (a panic in a
// goroutine the library started, a runtime fatal error such as "concurrent map iteration
// and map write") the death is recorded under panics, and a new child with a derived
// seed runs for the remaining time. The summaries of the segments (the final one of a
// child that ended normally, the last checkpoint of one that died) are added up.

type tailBuffer struct {
	mu  sync.Mutex
	buf []byte
}

func (t *tailBuffer) Write(p []byte) (int, error) {
	t.mu.Lock()
	defer t.mu.Unlock()
	if len(t.buf) < 256<<10 {
		t.buf = append(t.buf, p...)
	}
	return len(p), nil
}

func (t *tailBuffer) String() string {
	t.mu.Lock()
	defer t.mu.Unlock()
	return string(t.buf)
}

// the interesting part of a crashed child's stderr: from "panic:" / "fatal error:" on,
// the first goroutine's stack
func crashExcerpt(out string) (first, excerpt string) {
	i := strings.Index(out, "panic: ")
	if j := strings.Index(out, "fatal error: "); j >= 0 && (i < 0 || j < i) {
		i = j
	}
	if i < 0 {
		i = 0
	}
	out = out[i:]
	first = out
	if k := strings.IndexByte(out, '\n'); k >= 0 {
		first = out[:k]
	}
	excerpt = out
	// cut after the first goroutine's stack (next blank line after "goroutine ")
	if g := strings.Index(excerpt, "\ngoroutine "); g >= 0 {
		if e := strings.Index(excerpt[g+1:], "\n\n"); e >= 0 {
			excerpt = excerpt[:g+1+e]
		}
	}
	if len(excerpt) > 6000 {
		excerpt = excerpt[:6000]
	}
	return strings.TrimSpace(first), strings.TrimSpace(excerpt)
}

func childArgs(seconds int, seed uint64, summaryPath string) []string {
	return []string{
		"-mode", "stress",
		"-seconds", fmt.Sprint(seconds),
		"-seed", fmt.Sprint(seed),
		"-hubs", fmt.Sprint(*flagHubs),
		"-summary", summaryPath,
	}
}

// merge src into dst: numbers add up (a few keys: max / keep), lists concatenate,
// maps merge recursively
func mergeSummary(dst, src map[string]any) {
	for k, v := range src {
		old, ok := dst[k]
		if !ok || old == nil {
			dst[k] = v
			continue
		}
		switch x := v.(type) {
		case float64:
			o, _ := old.(float64)
			switch k {
			case "seed", "seconds_requested", "hubs":
				// keep
			case "goroutines_peak":
				if x > o {
					dst[k] = x
				}
			default:
				dst[k] = o + x
			}
		case bool:
			o, _ := old.(bool)
			dst[k] = o || x
		case []any:
			o, _ := old.([]any)
			dst[k] = append(o, x...)
		case map[string]any:
			o, ok := old.(map[string]any)
			if !ok {
				dst[k] = x
			} else {
				mergeSummary(o, x)
			}
		}
	}
}

func readJSON(path string) map[string]any {
	b, err := os.ReadFile(path)
	if err != nil {
		return nil
	}
	var m map[string]any
	if json.Unmarshal(b, &m) != nil {
		return nil
	}
	return m
}

func supervise() {
	begin := time.Now()
	total := time.Duration(*flagSeconds) * time.Second
	base := *flagSummary
	if base == "" {
		base = fmt.Sprintf("%s/racedrv-%d.json", os.TempDir(), os.Getpid())
	}
	merged := map[string]any{}
	var segments []any
	var crashes []any
	crashCount := 0

	for seg := 0; ; seg++ {
		remaining := int((total - time.Since(begin) + 500*time.Millisecond) / time.Second)
		if seg > 0 && remaining < 3 {
			break
		}
		if remaining < 1 {
			remaining = 1
		}
		seed := *flagSeed + uint64(seg)*1000003
		segPath := fmt.Sprintf("%s.seg%d", base, seg)
		ckPath := segPath + ".ckpt"
		_ = os.Remove(segPath)
		_ = os.Remove(ckPath)

		cmd := exec.Command(os.Args[0], childArgs(remaining, seed, segPath)...)
		// With races reported the race runtime turns the exit status into 66 (GORACE
		// exitcode); here the status only tells "ended normally" from "died".
		cmd.Env = append(os.Environ(), childEnv+"=1", checkpointEnv+"="+ckPath, segmentEnv+"="+fmt.Sprint(seg),
			"GORACE="+os.Getenv("GORACE")+" exitcode=0")
		cmd.Stdout = os.Stdout
		tail := &tailBuffer{}
		cmd.Stderr = io.MultiWriter(os.Stderr, tail)
		segBegin := time.Now()
		if err := cmd.Start(); err != nil {
			fmt.Println("supervisor: cannot start a child process, running in-process:", err)
			stress()
			return
		}
		done := make(chan error, 1)
		go func() { done <- cmd.Wait() }()
		var err error
		killed := false
		select {
		case err = <-done:
		case <-time.After(time.Duration(remaining+9) * time.Second):
			killed = true
			_ = cmd.Process.Kill()
			err = <-done
		}
		ok := err == nil && !killed
		var part map[string]any
		if ok {
			part = readJSON(segPath)
		}
		if part == nil {
			part = readJSON(ckPath)
		}
		_ = os.Remove(segPath)
		_ = os.Remove(ckPath)
		_ = os.Remove(ckPath + ".tmp")
		segInfo := map[string]any{
			"segment": seg, "seed": seed, "seconds_requested": remaining,
			"seconds_run": time.Since(segBegin).Seconds(), "ended_normally": ok, "pid": cmd.Process.Pid,
		}
		if !ok {
			crashCount++
			first, excerpt := crashExcerpt(tail.String())
			reason := fmt.Sprintf("segment %d (seed %d, pid %d) died after %.1fs (%v, killed by supervisor=%v): %s",
				seg, seed, cmd.Process.Pid, time.Since(segBegin).Seconds(), err, killed, first)
			segInfo["death"] = reason
			crashes = append(crashes, map[string]any{"reason": reason, "output": excerpt})
			fmt.Println("phase crash:", reason)
			if part != nil {
				// the checkpoint is up to half a second old
				part["seconds_run"] = time.Since(segBegin).Seconds()
			} else {
				part = map[string]any{"seconds_run": time.Since(segBegin).Seconds()}
			}
			ps, _ := part["panics"].([]any)
			part["panics"] = append(ps, reason)
			pt, _ := part["panics_total"].(float64)
			part["panics_total"] = pt + 1
			part["crashed"] = true
		}
		segments = append(segments, segInfo)
		mergeSummary(merged, part)
		if ok {
			break
		}
	}

	merged["seed"] = *flagSeed
	merged["mode"] = *flagMode
	merged["seconds_requested"] = *flagSeconds
	merged["seconds_run"] = time.Since(begin).Seconds()
	merged["segments"] = segments
	merged["process_deaths"] = crashCount
	if crashes != nil {
		merged["crash_outputs"] = crashes
	}
	if _, ok := merged["panics"]; !ok {
		merged["panics"] = []any{}
	}
	b, err := json.MarshalIndent(merged, "", "  ")
	if err == nil && *flagSummary != "" {
		if err := os.WriteFile(*flagSummary, append(b, '\n'), 0o644); err != nil {
			fmt.Println("summary: write error:", err)
		}
	}
	fmt.Printf("phase supervisor: %.1fs, %d segment(s), %d process death(s)\n", time.Since(begin).Seconds(), len(segments), crashCount)
	os.Exit(0)
}
