// racedrv is a race-detector stress driver for ship-go: it runs two or three real
// hub.Hub instances in one process, connects them over loopback TLS, and uses the
// public API from many goroutines while connections are accepted, dialled,
// handshaking, exchanging data and closing, mDNS reports arrive and timers fire.
// Build with -race -tags verif; run with GORACE="halt_on_error=0 log_path=<prefix>".
// The program does not look at race reports itself; it only writes a summary.
//
// The process re-executes itself once: the parent only supervises (hard timeout,
// fallback summary if the child dies of a runtime fatal error such as "concurrent
// map iteration and map write", which cannot be recovered in-process); the child
// does the work. -nosupervise runs the work directly (its exit status is then 66
// instead of 0 when the race detector reported something, unless GORACE has exitcode=0).
package main

import (
	"crypto/tls"
	"crypto/x509"
	"encoding/json"
	"flag"
	"fmt"
	"net"
	"os"
	"runtime"
	"strconv"
	"sync"
	"sync/atomic"
	"time"

	"github.com/enbility/ship-go/api"
	"github.com/enbility/ship-go/cert"
	"github.com/enbility/ship-go/hub"

	"verif/harness/internal/vh"
)

var (
	flagSeed        = flag.Uint64("seed", 1, "PRNG seed")
	flagSeconds     = flag.Int("seconds", 45, "total stress duration in seconds")
	flagHubs        = flag.Int("hubs", 3, "number of hubs (2 or 3)")
	flagSummary     = flag.String("summary", "", "path of the JSON summary")
	flagMode        = flag.String("mode", "stress", "mode")
	flagNoSupervise = flag.Bool("nosupervise", false, "run the stress in this process, without the supervising parent")
)

const (
	workersPerHub = 3
	childEnv      = "RACEDRV_CHILD"
	checkpointEnv = "RACEDRV_CHECKPOINT"
	segmentEnv    = "RACEDRV_SEGMENT"
	maxPanicsKept = 100
)

// ---- driver-wide state ----

type stats struct {
	goroutines        atomic.Int64 // started through spawn
	reportGoroutines  atomic.Int64 // fake mdns report goroutines (counted when they end)
	hubsCreated       atomic.Int64
	peakGoroutines    atomic.Int64
	stuck             atomic.Int64 // waits for driver goroutines that timed out
	shutdownTimeouts  atomic.Int64
	shutdownTriggered atomic.Int64 // Shutdown fired by an incoming connection request
	churns            atomic.Int64
	hostile           atomic.Bool
	hostilePhases     atomic.Int64
	closerRounds      atomic.Int64
	panicsTotal       atomic.Int64

	mu     sync.Mutex
	panics []string
	ops    []*opCounters
	mdnss  []*fakeMdns
}

var st = &stats{}

// catch is deferred in every driver goroutine and around every library call
func catch(where string) {
	if r := recover(); r != nil {
		st.panicsTotal.Add(1)
		st.mu.Lock()
		if len(st.panics) < maxPanicsKept {
			st.panics = append(st.panics, fmt.Sprintf("%s: %v", where, r))
		}
		st.mu.Unlock()
	}
}

func spawn(wg *sync.WaitGroup, name string, f func()) {
	st.goroutines.Add(1)
	if wg != nil {
		wg.Add(1)
	}
	go func() {
		if wg != nil {
			defer wg.Done()
		}
		defer catch(name)
		f()
	}()
}

func waitTimeout(wg *sync.WaitGroup, d time.Duration) bool {
	ch := make(chan struct{})
	go func() {
		wg.Wait()
		close(ch)
	}()
	t := time.NewTimer(d)
	defer t.Stop()
	select {
	case <-ch:
		return true
	case <-t.C:
		return false
	}
}

// ---- nodes ----

type node struct {
	idx   int
	cert  tls.Certificate
	peers []*peerInfo // shared directory, peers[idx] is this node
	app   *app

	cur atomic.Pointer[hub.Hub] // for goroutines that are not tied to one generation

	// owned by the main goroutine
	hub  *hub.Hub
	mdns *fakeMdns
	stop chan struct{}
	wg   *sync.WaitGroup
	gen  int
}

func freePort() int {
	for i := 0; i < 20; i++ {
		l, err := net.Listen("tcp", "127.0.0.1:0")
		if err != nil {
			continue
		}
		port := l.Addr().(*net.TCPAddr).Port
		_ = l.Close()
		return port
	}
	return 0
}

func skiOf(c tls.Certificate) (string, error) {
	x, err := x509.ParseCertificate(c.Certificate[0])
	if err != nil {
		return "", err
	}
	return cert.SkiFromCertificate(x)
}

// startGeneration creates a new hub object for the node, starts it from the calling
// (main) goroutine before anything else uses it, then starts the node's goroutines.
func (n *node) startGeneration(r *vh.Rng) {
	self := n.peers[n.idx]
	port := freePort()
	local := api.NewServiceDetails(self.ski)
	local.SetShipID(self.shipID)
	local.SetDeviceType("EnergyManagementSystem")
	n.mdns = newFakeMdns(n.idx, n.peers)
	st.mu.Lock()
	st.mdnss = append(st.mdnss, n.mdns)
	st.mu.Unlock()
	n.hub = hub.NewHub(n.app, n.mdns, port, n.cert, local)
	st.hubsCreated.Add(1)
	n.gen++
	startCounters.n[opStart].Add(1)
	n.hub.Start()

	self.port.Store(int64(port))
	n.cur.Store(n.hub)
	n.stop = make(chan struct{})
	n.wg = &sync.WaitGroup{}
	h, m, stop := n.hub, n.mdns, n.stop
	for w := 0; w < workersPerHub; w++ {
		w := w
		wr := r.Fork()
		spawn(n.wg, fmt.Sprintf("worker-%d.%d", n.idx, w), func() { worker(n, h, wr, stop, w) })
	}
	sr := r.Fork()
	spawn(n.wg, fmt.Sprintf("writer-%d", n.idx), func() { spineWriter(n, sr, stop) })
	tr := r.Fork()
	spawn(n.wg, fmt.Sprintf("toggler-%d", n.idx), func() { mdnsToggler(n, m, tr, stop) })
}

var startCounters *opCounters

// shutdownHub calls Shutdown while the node's goroutines are still using the hub and
// connections are active. To put the call next to connection (de)registrations it
// sometimes disconnects one peer first (the hub removes that connection 500 ms later,
// and both sides start re-dialling) and it fires as soon as the application sees an
// incoming connection request, or after about 500 ms.
func shutdownHub(n *node, h *hub.Hub, c *opCounters, r *vh.Rng, d time.Duration) {
	done := make(chan struct{}, 1)
	spawn(nil, "hub-shutdown", func() {
		defer func() { done <- struct{}{} }()
		trigger := n.app.arm()
		if r.Chance(60) {
			runOp(h, r, c, "main", opDisconnect, otherPeer(r, n.peers, n.idx), false)
		}
		t := time.NewTimer(time.Duration(470+r.Intn(60)) * time.Millisecond)
		select {
		case <-trigger:
			st.shutdownTriggered.Add(1)
		case <-t.C:
		}
		t.Stop()
		n.app.disarm()
		doOp("main", c, opShutdown, func() { h.Shutdown() })
	})
	t := time.NewTimer(d + time.Second)
	defer t.Stop()
	select {
	case <-done:
	case <-t.C:
		st.shutdownTimeouts.Add(1)
	}
}

func (n *node) stopGeneration(d time.Duration) {
	close(n.stop)
	if !waitTimeout(n.wg, d) {
		st.stuck.Add(1)
	}
}

// ---- summary ----

type summary struct {
	Seed              uint64           `json:"seed"`
	Mode              string           `json:"mode"`
	SecondsRequested  int              `json:"seconds_requested"`
	SecondsRun        float64          `json:"seconds_run"`
	Hubs              int              `json:"hubs"`
	HubsCreated       int64            `json:"hubs_created_total"`
	Churns            int64            `json:"churns"`
	Goroutines        int64            `json:"driver_goroutines_started"`
	PeakGoroutines    int64            `json:"goroutines_peak"`
	ApiCalls          map[string]int64 `json:"api_calls"`
	ApiDetail         map[string]int64 `json:"api_detail"`
	Callbacks         map[string]int64 `json:"callbacks"`
	Handshakes        int64            `json:"handshakes_completed"`
	SpineWritten      int64            `json:"spine_payloads_written"`
	SpineReceived     int64            `json:"spine_payloads_received"`
	MdnsReports       int64            `json:"mdns_reports_to_hubs"`
	FakeMdnsCalls     map[string]int64 `json:"fake_mdns_calls"`
	RealMdns          map[string]any   `json:"real_mdns"`
	AvahiProvider     map[string]any   `json:"avahi_provider"`
	Ghost             map[string]int64 `json:"ghost_client"`
	HostilePhases     int64            `json:"hostile_phases"`
	CloserRounds      int64            `json:"closer_rounds"`
	StuckWaits        int64            `json:"stuck_waits"`
	ShutdownTimeouts  int64            `json:"shutdown_timeouts"`
	ShutdownTriggered int64            `json:"shutdowns_fired_by_incoming_connection"`
	PanicsTotal       int64            `json:"panics_total"`
	Panics            []string         `json:"panics"`
	Watchdog          bool             `json:"watchdog"`
	Crashed           bool             `json:"crashed"`
	CrashOutput       string           `json:"crash_output,omitempty"`
}

var (
	summaryOnce sync.Once
	startTime   time.Time
	theNodes    atomic.Pointer[[]*node]
	theRealMdns atomic.Pointer[realMdns]
)

func buildSummary(watchdog bool) *summary {
	var nodes []*node
	if p := theNodes.Load(); p != nil {
		nodes = *p
	}
	s := &summary{
		Seed: *flagSeed, Mode: *flagMode, SecondsRequested: *flagSeconds,
		SecondsRun:        time.Since(startTime).Seconds(),
		Hubs:              len(nodes),
		HubsCreated:       st.hubsCreated.Load(),
		Churns:            st.churns.Load(),
		Goroutines:        st.goroutines.Load() + st.reportGoroutines.Load(),
		PeakGoroutines:    st.peakGoroutines.Load(),
		ApiCalls:          map[string]int64{},
		ApiDetail:         map[string]int64{},
		Callbacks:         map[string]int64{},
		FakeMdnsCalls:     map[string]int64{},
		HostilePhases:     st.hostilePhases.Load(),
		CloserRounds:      st.closerRounds.Load(),
		StuckWaits:        st.stuck.Load(),
		ShutdownTimeouts:  st.shutdownTimeouts.Load(),
		ShutdownTriggered: st.shutdownTriggered.Load(),
		PanicsTotal:       st.panicsTotal.Load(),
		Panics:            []string{},
		Watchdog:          watchdog,
	}
	for _, name := range opNames {
		s.ApiCalls[name] = 0
	}
	st.mu.Lock()
	for _, c := range st.ops {
		for i := range c.n {
			s.ApiCalls[opNames[i]] += c.n[i].Load()
		}
		s.SpineWritten += c.written.Load()
		s.ApiDetail["ServiceDetails getters"] += c.detailed[dServiceGetters].Load()
		s.ApiDetail["ServiceDetails setters"] += c.detailed[dServiceSetters].Load()
		s.ApiDetail["ski given upper-cased/dashed/spaced"] += c.detailed[dSkiVariant].Load()
		s.ApiDetail["calls with the ghost client's ski"] += c.detailed[dUnknownSki].Load()
	}
	for _, m := range st.mdnss {
		s.MdnsReports += m.nReportsNew.Load() + m.nReportsReq.Load()
		s.FakeMdnsCalls["Start"] += m.nStart.Load()
		s.FakeMdnsCalls["Shutdown"] += m.nShutdown.Load()
		s.FakeMdnsCalls["AnnounceMdnsEntry"] += m.nAnnounce.Load()
		s.FakeMdnsCalls["UnannounceMdnsEntry"] += m.nUnannounce.Load()
		s.FakeMdnsCalls["SetAutoAccept"] += m.nSetAutoAccept.Load()
		s.FakeMdnsCalls["QRCodeText"] += m.nQR.Load()
		s.FakeMdnsCalls["RequestMdnsEntries (reports delivered)"] += m.nReportsReq.Load()
		s.FakeMdnsCalls["publish (reports delivered)"] += m.nReportsNew.Load()
	}
	s.Panics = append(s.Panics, st.panics...)
	st.mu.Unlock()
	for _, n := range nodes {
		a := n.app
		s.Callbacks["RemoteSKIConnected"] += a.cbConnected.Load()
		s.Callbacks["RemoteSKIDisconnected"] += a.cbDisconnected.Load()
		s.Callbacks["SetupRemoteDevice"] += a.cbSetup.Load()
		s.Callbacks["ServicePairingDetailUpdate"] += a.cbPairing.Load()
		s.Callbacks["VisibleRemoteServicesUpdated"] += a.cbVisible.Load()
		s.Callbacks["ServiceShipIDUpdate"] += a.cbShipID.Load()
		s.Callbacks["AllowWaitingForTrust"] += a.cbAllowWait.Load()
		s.SpineReceived += a.payloadsRx.Load()
	}
	s.Handshakes = s.Callbacks["SetupRemoteDevice"]
	s.Ghost = ghost.summary()
	if ap := theAvahiPart.Load(); ap != nil {
		s.AvahiProvider = ap.summary()
	}
	if rm := theRealMdns.Load(); rm != nil {
		s.RealMdns = rm.summary()
	}
	return s
}

var checkpointMu sync.Mutex

func writeCheckpoint(path string) {
	checkpointMu.Lock()
	defer checkpointMu.Unlock()
	b, err := json.Marshal(buildSummary(false))
	if err != nil {
		return
	}
	if os.WriteFile(path+".tmp", b, 0o644) == nil {
		_ = os.Rename(path+".tmp", path)
	}
}

func writeSummaryFile(s *summary) {
	b, err := json.MarshalIndent(s, "", "  ")
	if err != nil {
		fmt.Println("summary: marshal error:", err)
		return
	}
	if *flagSummary != "" {
		if err := os.WriteFile(*flagSummary, append(b, '\n'), 0o644); err != nil {
			fmt.Println("summary: write error:", err)
		}
	}
}

// finish writes the summary exactly once and ends the process with status 0
func finish(watchdog bool) {
	summaryOnce.Do(func() {
		s := buildSummary(watchdog)
		writeSummaryFile(s)
		fmt.Printf("phase summary: %.1fs run, %d hubs created, %d handshakes, spine %d written / %d received, %d mdns reports, %d api calls, %d driver goroutines (peak %d in process), %d panics, watchdog=%v\n",
			s.SecondsRun, s.HubsCreated, s.Handshakes, s.SpineWritten, s.SpineReceived, s.MdnsReports,
			sumValues(s.ApiCalls), s.Goroutines, s.PeakGoroutines, s.PanicsTotal, watchdog)
		os.Exit(0)
	})
	// a second caller (watchdog against main) just waits for the exit
	select {}
}

func sumValues(m map[string]int64) int64 {
	var t int64
	for _, v := range m {
		t += v
	}
	return t
}

// ---- the stress run ----

func stress() {
	startTime = time.Now()
	seconds := *flagSeconds
	if seconds < 1 {
		seconds = 1
	}
	nHubs := *flagHubs
	if nHubs < 2 {
		nHubs = 2
	}
	if nHubs > 6 {
		nHubs = 6
	}
	deadline := startTime.Add(time.Duration(seconds) * time.Second)

	// in-process watchdog: whatever hangs, the summary is written and the process ends
	go func() {
		time.Sleep(time.Duration(seconds)*time.Second + 7*time.Second)
		fmt.Println("phase watchdog: global deadline reached, writing the summary from the watchdog")
		finish(true)
	}()

	// checkpoints: if a panic in a library goroutine kills this process, the supervisor
	// still has the counters up to the last half second
	if ck := os.Getenv(checkpointEnv); ck != "" {
		go func() {
			for {
				time.Sleep(500 * time.Millisecond)
				writeCheckpoint(ck)
			}
		}()
	}

	// self-test of the supervisor: RACEDRV_TEST_CRASH_AFTER=<seconds> makes the first
	// segment die of a panic in a bare goroutine, like a library goroutine would
	if v := os.Getenv("RACEDRV_TEST_CRASH_AFTER"); v != "" && os.Getenv(segmentEnv) == "0" {
		if secs, err := strconv.Atoi(v); err == nil {
			go func() {
				time.Sleep(time.Duration(secs) * time.Second)
				panic("racedrv self-test: deliberate panic outside any recover")
			}()
		}
	}

	// peak goroutine sampler
	go func() {
		for {
			n := int64(runtime.NumGoroutine())
			if n > st.peakGoroutines.Load() {
				st.peakGoroutines.Store(n)
			}
			time.Sleep(200 * time.Millisecond)
		}
	}()

	hub.VerifSetDialDelayRanges([][2]int{{0, 1}})

	rng := vh.NewRng(*flagSeed)
	startCounters = newOpCounters()
	mainCounters := newOpCounters()

	// setup: certificates, directory, nodes
	if err := setupGhost(); err != nil {
		fmt.Println("phase setup: ghost certificate error:", err)
	}
	peers := make([]*peerInfo, nHubs)
	nodes := make([]*node, nHubs)
	for i := 0; i < nHubs; i++ {
		c, err := cert.CreateCertificate("racedrv", "verif", "DE", fmt.Sprintf("racedrv-%d", i))
		if err != nil {
			fmt.Println("phase setup: certificate error:", err)
			finish(false)
		}
		ski, err := skiOf(c)
		if err != nil {
			fmt.Println("phase setup: ski error:", err)
			finish(false)
		}
		peers[i] = &peerInfo{idx: i, ski: ski, shipID: fmt.Sprintf("racedrv-ship-%d", i)}
		nodes[i] = &node{idx: i, cert: c, peers: peers, app: newApp(i)}
	}
	theNodes.Store(&nodes)
	for _, n := range nodes {
		n.startGeneration(rng)
	}
	fmt.Printf("phase setup: %d hubs started on ports", nHubs)
	for _, p := range peers {
		fmt.Printf(" %d", p.port.Load())
	}
	fmt.Printf(", seed %d, %d s\n", *flagSeed, seconds)

	// goroutines that are not tied to a hub generation
	globalStop := make(chan struct{})
	globalWg := &sync.WaitGroup{}
	pr := rng.Fork()
	spawn(globalWg, "phase-controller", func() { phaseController(pr, globalStop) })
	cr := rng.Fork()
	spawn(globalWg, "closer", func() { closer(nodes, cr, globalStop) })
	for g := 0; g < 2; g++ {
		g := g
		gr := rng.Fork()
		spawn(globalWg, fmt.Sprintf("ghost-%d", g), func() { ghostClient(peers, gr, globalStop, g) })
	}
	rm := startRealMdns(peers[0].ski, int(peers[0].port.Load()), rng.Fork(), globalStop, globalWg)
	theRealMdns.Store(rm)
	theAvahiPart.Store(startAvahiPart(rng.Fork(), globalStop, globalWg))

	// stress with churn, driven from the main goroutine
	for {
		next := time.Now().Add(time.Duration(8000+rng.Intn(4001)) * time.Millisecond)
		if next.After(deadline) {
			time.Sleep(time.Until(deadline))
			break
		}
		time.Sleep(time.Until(next))
		n := vh.Pick(rng, nodes)
		oldPort := n.peers[n.idx].port.Load()
		shutdownHub(n, n.hub, mainCounters, rng.Fork(), 3*time.Second)
		// the workers keep calling into the hub that was shut down for a while
		time.Sleep(time.Duration(100+rng.Intn(400)) * time.Millisecond)
		n.stopGeneration(3 * time.Second)
		if rng.Chance(30) {
			// sometimes the others do not see the node at all while it is down
			n.peers[n.idx].port.Store(0)
			time.Sleep(time.Duration(50+rng.Intn(200)) * time.Millisecond)
		}
		n.startGeneration(rng)
		st.churns.Add(1)
		fmt.Printf("phase churn: t=%.1fs hub %d restarted (generation %d), port %d -> %d\n",
			time.Since(startTime).Seconds(), n.idx, n.gen, oldPort, n.peers[n.idx].port.Load())
	}
	fmt.Printf("phase stress: t=%.1fs done, %d churns\n", time.Since(startTime).Seconds(), st.churns.Load())

	// final: Shutdown on all hubs concurrently with ongoing traffic
	var sdWg sync.WaitGroup
	for _, n := range nodes {
		n, h := n, n.hub
		c := newOpCounters()
		sr := rng.Fork()
		spawn(&sdWg, "final-shutdown", func() { shutdownHub(n, h, c, sr, 1500*time.Millisecond) })
	}
	spawn(&sdWg, "mdns-finish", func() { rm.finish() })
	if !waitTimeout(&sdWg, 3*time.Second) {
		st.shutdownTimeouts.Add(1)
	}
	time.Sleep(200 * time.Millisecond)
	close(globalStop)
	for _, n := range nodes {
		close(n.stop)
	}
	all := make(chan struct{})
	go func() {
		globalWg.Wait()
		for _, n := range nodes {
			n.wg.Wait()
		}
		close(all)
	}()
	select {
	case <-all:
	case <-time.After(3 * time.Second):
		st.stuck.Add(1)
	}
	fmt.Printf("phase final-shutdown: t=%.1fs all hubs shut down, driver goroutines stopped (stuck waits %d, shutdown timeouts %d)\n",
		time.Since(startTime).Seconds(), st.stuck.Load(), st.shutdownTimeouts.Load())
	finish(false)
}

func main() {
	flag.Parse()
	if *flagMode != "stress" {
		otherMode(*flagMode)
		return
	}
	if *flagNoSupervise || os.Getenv(childEnv) != "" {
		stress()
		return
	}
	supervise()
}
