package main

import (
	"flag"
	"fmt"
	"os"
	"strings"

	"verif/harness/internal/lockset"
	"verif/harness/internal/vh"
)

// -mode facts: the C20 case stream.  Runs the lockset translator on the repository
// (VERIF_REPO, default /repo) and writes one case per access fact; bin/check evaluates
// LocksetSpec.check_c20 on each of them inside Coq.  -n is accepted and ignored: the
// stream is the complete set of facts.
var (
	flagN   = flag.Int("n", 0, "ignored in facts mode (all facts are emitted)")
	flagOut = flag.String("out", "", "facts mode: JSONL case file")
)

func otherMode(mode string) {
	if mode != "facts" {
		fmt.Fprintln(os.Stderr, "unknown mode", mode)
		os.Exit(2)
	}
	repo := os.Getenv("VERIF_REPO")
	if repo == "" {
		repo = "/repo"
	}
	if *flagOut == "" {
		fmt.Fprintln(os.Stderr, "facts mode needs -out")
		os.Exit(2)
	}
	res, err := lockset.Analyze(repo)
	if err != nil {
		fmt.Fprintln(os.Stderr, "lockset analysis failed:", err)
		os.Exit(3)
	}
	w := vh.NewWriter(*flagOut)
	for _, f := range res.Facts {
		kind := "read"
		if f.Write {
			kind = "write"
		}
		switch {
		case strings.HasPrefix(f.Fn, "New") && !strings.Contains(f.Fn, "."):
			kind = "constructor-" + kind
		case strings.Contains(f.Fn, "$go"):
			kind = "goroutine-" + kind
		case len(f.Locks) > 0:
			kind = "locked-" + kind
		default:
			kind = "unlocked-" + kind
		}
		locks := f.Locks
		if locks == nil {
			locks = []string{}
		}
		w.Put(vh.Case{
			Coq: lockset.CoqFact(f),
			// non-trivial: an access outside the constructors, i.e. one that needs a guard,
			// immutability or confinement to be safe
			Nontrivial: !(strings.HasPrefix(f.Fn, "New") && !strings.Contains(f.Fn, ".")),
			Key:        lockset.CoqFact(f),
			Kind:       kind,
			Sample: map[string]any{"struct": f.Struct, "field": f.Field, "write": f.Write, "function": f.Fn,
				"locks_held": locks, "after_escape": f.Escaped},
		})
	}
	w.Close()
	fmt.Printf("facts=%d functions=%d contexts=%d goroutine_entries=%d unresolved=%d\n",
		len(res.Facts), res.Funcs, res.Contexts, res.GoBodies, len(res.Unresolved))
	os.Exit(0)
}
