package main

import (
	"crypto/tls"
	"fmt"
	"net/http"
	"sync/atomic"
	"time"

	"github.com/enbility/ship-go/api"
	"github.com/enbility/ship-go/cert"
	"github.com/gorilla/websocket"

	"verif/harness/internal/vh"
)

// The ghost is a plain websocket client with a SHIP certificate of its own that
// connects to a hub and then says nothing. It is what makes the 10 s SHIP init
// timer of a server-side connection fire (between real hubs the handshake never
// stalls), while workers address the same SKI through the API (the 3 % of calls
// "without peer" use the ghost's SKI).

var ghostSki = "00112233445566778899aabbccddeeff00112233" // replaced by the real one in setupGhost

type ghostStats struct {
	dials, dialErrors, heldToTimeout, closedEarly, messagesRead atomic.Int64
}

var ghost ghostStats

var ghostCert tls.Certificate

// called from main before any goroutine exists
func setupGhost() error {
	c, err := cert.CreateCertificate("racedrv", "verif", "DE", "racedrv-ghost")
	if err != nil {
		return err
	}
	ski, err := skiOf(c)
	if err != nil {
		return err
	}
	ghostCert = c
	ghostSki = ski
	return nil
}

func ghostClient(peers []*peerInfo, r *vh.Rng, stop <-chan struct{}, id int) {
	dialer := &websocket.Dialer{
		Proxy:            http.ProxyFromEnvironment,
		HandshakeTimeout: 3 * time.Second,
		TLSClientConfig: &tls.Config{
			Certificates:       []tls.Certificate{ghostCert},
			InsecureSkipVerify: true, // #nosec G402 -- SHIP certificates are self signed
			CipherSuites:       cert.CipherSuites,
		},
		Subprotocols: []string{api.ShipWebsocketSubProtocol},
	}
	for !stopped(stop) {
		if sleepOrStop(stop, time.Duration(200+r.Intn(1500))*time.Millisecond) {
			return
		}
		// the two ghosts keep to different hubs, otherwise they would mostly replace each other
		p := vh.Pick(r, peers)
		for p.idx%2 != id%2 {
			p = vh.Pick(r, peers)
		}
		port := p.port.Load()
		if port == 0 {
			continue
		}
		ghost.dials.Add(1)
		conn, resp, err := dialer.Dial(fmt.Sprintf("wss://127.0.0.1:%d/ship/", port), nil)
		if err != nil {
			ghost.dialErrors.Add(1)
			continue
		}
		if resp != nil && resp.Body != nil {
			_ = resp.Body.Close()
		}
		// stay silent: either until the hub gives up (cmi timeout after 10 s) or
		// until a random earlier moment at which the ghost just drops the connection
		hold := 12500 * time.Millisecond
		early := r.Chance(40)
		if early {
			hold = time.Duration(r.Intn(9000)) * time.Millisecond
		}
		closed := make(chan struct{})
		spawn(nil, "ghost-closer", func() {
			select {
			case <-stop:
			case <-closed:
			}
			_ = conn.Close()
		})
		_ = conn.SetReadDeadline(time.Now().Add(hold))
		begin := time.Now()
		for {
			if _, _, err := conn.ReadMessage(); err != nil {
				break
			}
			ghost.messagesRead.Add(1)
		}
		close(closed)
		if !early && time.Since(begin) > 9*time.Second {
			ghost.heldToTimeout.Add(1)
		} else {
			ghost.closedEarly.Add(1)
		}
	}
}

func (g *ghostStats) summary() map[string]int64 {
	return map[string]int64{
		"dials":                            g.dials.Load(),
		"dial_errors":                      g.dialErrors.Load(),
		"held_until_hub_closed_after_9s":   g.heldToTimeout.Load(),
		"dropped_or_closed_before_timeout": g.closedEarly.Load(),
		"messages_read":                    g.messagesRead.Load(),
	}
}
