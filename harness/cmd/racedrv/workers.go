package main

import (
	"fmt"
	"strings"
	"sync/atomic"
	"time"

	"github.com/enbility/ship-go/hub"

	"verif/harness/internal/vh"
)

// ---- API operations ----

const (
	opRegister = iota
	opUnregister
	opDisconnect
	opCancelPairing
	opPairingDetail
	opServiceForSKI
	opSetAutoAccept
	opIsAutoAccept
	opIsPaired
	opShutdown
	opStart
	nOps
)

var opNames = [nOps]string{
	"RegisterRemoteSKI", "UnregisterRemoteSKI", "DisconnectSKI", "CancelPairingWithSKI",
	"PairingDetailForSki", "ServiceForSKI", "SetAutoAccept", "IsAutoAcceptEnabled",
	"IsRemoteServiceForSKIPaired", "Shutdown", "Start",
}

// opCounters belongs to exactly one goroutine (the only writer); the summary reads it.
type opCounters struct {
	n        [nOps]atomic.Int64
	written  atomic.Int64 // SPINE payloads handed to WriteShipMessageWithPayload
	detailed [8]atomic.Int64
}

const (
	dServiceGetters = iota
	dServiceSetters
	dSkiVariant
	dUnknownSki
)

func newOpCounters() *opCounters {
	c := &opCounters{}
	st.mu.Lock()
	st.ops = append(st.ops, c)
	st.mu.Unlock()
	return c
}

// weights (per mille) of the worker operations in the two phases: in the friendly
// phase connections must survive long enough to finish the handshake and carry data
type opWeight struct {
	op int
	w  int
}

var friendlyMix = []opWeight{
	{opRegister, 250}, {opPairingDetail, 160}, {opServiceForSKI, 250}, {opIsPaired, 150},
	{opIsAutoAccept, 125}, {opSetAutoAccept, 60}, {opDisconnect, 3}, {opCancelPairing, 2},
}

var hostileMix = []opWeight{
	{opUnregister, 180}, {opDisconnect, 180}, {opCancelPairing, 180}, {opRegister, 200},
	{opServiceForSKI, 100}, {opPairingDetail, 80}, {opSetAutoAccept, 40}, {opIsPaired, 20},
	{opIsAutoAccept, 20},
}

func pickOp(r *vh.Rng, mix []opWeight) int {
	total := 0
	for _, m := range mix {
		total += m.w
	}
	x := r.Intn(total)
	for _, m := range mix {
		if x < m.w {
			return m.op
		}
		x -= m.w
	}
	return mix[0].op
}

// the API normalises SKIs: sometimes hand them over upper-cased or with dashes
func skiVariant(r *vh.Rng, ski string, c *opCounters) string {
	switch r.Intn(10) {
	case 0:
		c.detailed[dSkiVariant].Add(1)
		return strings.ToUpper(ski)
	case 1:
		c.detailed[dSkiVariant].Add(1)
		var b strings.Builder
		for i := 0; i < len(ski); i += 4 {
			if i > 0 {
				b.WriteByte('-')
			}
			end := i + 4
			if end > len(ski) {
				end = len(ski)
			}
			b.WriteString(ski[i:end])
		}
		return b.String()
	case 2:
		c.detailed[dSkiVariant].Add(1)
		return strings.ToUpper(ski[:20]) + " " + ski[20:]
	}
	return ski
}

// one API call; a panic inside the library is recorded and the worker goes on
func doOp(name string, c *opCounters, op int, f func()) {
	defer catch(name + "/" + opNames[op])
	c.n[op].Add(1)
	f()
}

func runOp(h *hub.Hub, r *vh.Rng, c *opCounters, who string, op int, peer *peerInfo, hostile bool) {
	// no peer: the SKI of the ghost client (see ghost.go), which no mDNS entry announces
	ski := ghostSki
	if peer != nil {
		ski = skiVariant(r, peer.ski, c)
	} else {
		ski = skiVariant(r, ski, c)
		c.detailed[dUnknownSki].Add(1)
	}
	switch op {
	case opRegister:
		doOp(who, c, op, func() { h.RegisterRemoteSKI(ski) })
	case opUnregister:
		doOp(who, c, op, func() { h.UnregisterRemoteSKI(ski) })
	case opDisconnect:
		doOp(who, c, op, func() { h.DisconnectSKI(ski, "racedrv reason") })
	case opCancelPairing:
		doOp(who, c, op, func() { h.CancelPairingWithSKI(ski) })
	case opPairingDetail:
		doOp(who, c, op, func() {
			d := h.PairingDetailForSki(ski)
			if d != nil {
				_ = d.State()
				_ = d.Error()
			}
		})
	case opServiceForSKI:
		doOp(who, c, op, func() {
			s := h.ServiceForSKI(ski)
			if s == nil {
				return
			}
			c.detailed[dServiceGetters].Add(1)
			trusted := s.Trusted()
			_ = s.AutoAccept()
			shipID := s.ShipID()
			_ = s.IPv4()
			_ = s.SKI()
			_ = s.DeviceType()
			_ = s.ConnectionStateDetail().State()
			_ = s.ConnectionStateDetail().Error()
			if hostile {
				c.detailed[dServiceSetters].Add(1)
				switch r.Intn(5) {
				case 0:
					s.SetTrusted(r.Bool())
				case 1:
					s.SetShipID("wrong-ship-id")
				case 2:
					s.SetShipID("")
				case 3:
					s.SetIPv4("127.0.0.1")
				case 4:
					s.SetAutoAccept(r.Bool())
				}
				return
			}
			if r.Chance(35) {
				c.detailed[dServiceSetters].Add(1)
				switch r.Intn(5) {
				case 0:
					s.SetTrusted(trusted)
				case 1:
					s.SetShipID(shipID)
				case 2:
					// an empty remote ship id makes the hub report the id learned in the handshake
					s.SetShipID("")
				case 3:
					if peer != nil {
						s.SetShipID(peer.shipID)
					}
				case 4:
					if r.Bool() {
						s.SetIPv4("127.0.0.1")
					} else {
						s.SetIPv4("")
					}
				}
			}
		})
	case opSetAutoAccept:
		v := r.Chance(30)
		doOp(who, c, op, func() { h.SetAutoAccept(v) })
	case opIsAutoAccept:
		doOp(who, c, op, func() { _ = h.IsAutoAcceptEnabled() })
	case opIsPaired:
		// this one does not normalise
		if peer != nil {
			ski = peer.ski
		} else {
			ski = ghostSki
		}
		doOp(who, c, op, func() { _ = h.IsRemoteServiceForSKIPaired(ski) })
	}
}

func stopped(stop <-chan struct{}) bool {
	select {
	case <-stop:
		return true
	default:
		return false
	}
}

func sleepOrStop(stop <-chan struct{}, d time.Duration) bool {
	if d <= 0 {
		return stopped(stop)
	}
	t := time.NewTimer(d)
	defer t.Stop()
	select {
	case <-stop:
		return true
	case <-t.C:
		return false
	}
}

func otherPeer(r *vh.Rng, peers []*peerInfo, self int) *peerInfo {
	for {
		p := vh.Pick(r, peers)
		if p.idx != self {
			return p
		}
	}
}

// ---- worker: random API calls on one hub ----

func worker(n *node, h *hub.Hub, r *vh.Rng, stop <-chan struct{}, id int) {
	c := newOpCounters()
	who := fmt.Sprintf("worker-%d.%d", n.idx, id)
	for !stopped(stop) {
		hostile := st.hostile.Load()
		mix := friendlyMix
		if hostile {
			mix = hostileMix
		}
		var peer *peerInfo
		if !r.Chance(3) {
			peer = otherPeer(r, n.peers, n.idx)
		}
		op := pickOp(r, mix)
		if peer == nil && (op == opUnregister || op == opDisconnect || op == opCancelPairing) && !r.Chance(4) {
			// let the silent ghost connection live long enough for its timer to fire
			op = opPairingDetail
		}
		runOp(h, r, c, who, op, peer, hostile)
		if sleepOrStop(stop, time.Duration(r.Intn(21))*time.Millisecond) {
			return
		}
	}
}

// ---- SPINE writer: one per hub, uses current and stale writers ----

func spinePayload(n int64) []byte {
	return []byte(fmt.Sprintf(`{"datagram":{"header":{"n":%d},"payload":{"x":[1,2,3]}}}`, n))
}

func writeOne(who string, c *opCounters, w interface{ WriteShipMessageWithPayload([]byte) }, n int64) {
	defer catch(who + "/WriteShipMessageWithPayload")
	c.written.Add(1)
	w.WriteShipMessageWithPayload(spinePayload(n))
}

func spineWriter(n *node, r *vh.Rng, stop <-chan struct{}) {
	c := newOpCounters()
	who := fmt.Sprintf("writer-%d", n.idx)
	var counter int64
	ws, newest := n.app.writerSnapshot()
	refresh := time.Now()
	for !stopped(stop) {
		if time.Since(refresh) > 40*time.Millisecond {
			ws, newest = n.app.writerSnapshot()
			refresh = time.Now()
		}
		if len(ws) > 0 {
			// mostly the newest writer of some peer, otherwise any one, stale ones included
			w := vh.Pick(r, ws)
			if r.Chance(65) {
				w = vh.Pick(r, newest)
			}
			burst := 1
			if r.Chance(10) {
				burst = 2 + r.Intn(6)
			}
			for i := 0; i < burst; i++ {
				counter++
				writeOne(who, c, w, counter)
			}
		}
		if sleepOrStop(stop, time.Duration(r.Intn(6))*time.Millisecond) {
			return
		}
	}
}

// ---- mDNS toggler: one per fake mdns ----

func mdnsToggler(n *node, m *fakeMdns, r *vh.Rng, stop <-chan struct{}) {
	for !stopped(stop) {
		if sleepOrStop(stop, time.Duration(50+r.Intn(251))*time.Millisecond) {
			return
		}
		p := otherPeer(r, n.peers, n.idx)
		m.visible[p.idx].Store(r.Chance(85))
		m.publish(r.Chance(15))
	}
}

// ---- phase controller: friendly about 70 % of the time ----

func phaseController(r *vh.Rng, stop <-chan struct{}) {
	for !stopped(stop) {
		st.hostile.Store(false)
		if sleepOrStop(stop, time.Duration(1200+r.Intn(1600))*time.Millisecond) {
			return
		}
		st.hostile.Store(true)
		st.hostilePhases.Add(1)
		if sleepOrStop(stop, time.Duration(500+r.Intn(700))*time.Millisecond) {
			return
		}
	}
}

// ---- closer: closes connections from either side, or both, while data flows ----

func closer(nodes []*node, r *vh.Rng, stop <-chan struct{}) {
	c := newOpCounters()
	for !stopped(stop) {
		if sleepOrStop(stop, time.Duration(400+r.Intn(1100))*time.Millisecond) {
			return
		}
		a := vh.Pick(r, nodes)
		var b *node
		for b == nil || b == a {
			b = vh.Pick(r, nodes)
		}
		ha, hb := a.cur.Load(), b.cur.Load()
		if ha == nil || hb == nil {
			continue
		}
		pa, pb := a.peers[a.idx], a.peers[b.idx]
		st.closerRounds.Add(1)
		switch r.Intn(4) {
		case 0:
			// one side disconnects while the other side writes
			burstWrite(b, pa.ski, r.Fork(), 30)
			runOp(ha, r, c, "closer", opDisconnect, pb, false)
		case 1:
			burstWrite(b, pa.ski, r.Fork(), 30)
			runOp(ha, r, c, "closer", opUnregister, pb, false)
			if sleepOrStop(stop, time.Duration(30+r.Intn(120))*time.Millisecond) {
				return
			}
			runOp(ha, r, c, "closer", opRegister, pb, false)
		case 2:
			// both sides at once
			opA, opB := opDisconnect, opDisconnect
			if r.Bool() {
				opA = opUnregister
			}
			if r.Bool() {
				opB = opUnregister
			}
			burstWrite(a, pb.ski, r.Fork(), 20)
			burstWrite(b, pa.ski, r.Fork(), 20)
			release := make(chan struct{})
			ra, rb := r.Fork(), r.Fork()
			ca, cb := newOpCounters(), newOpCounters()
			done := make(chan struct{}, 2)
			spawn(nil, "closer-a", func() {
				defer func() { done <- struct{}{} }()
				<-release
				runOp(ha, ra, ca, "closer-a", opA, pb, false)
			})
			spawn(nil, "closer-b", func() {
				defer func() { done <- struct{}{} }()
				<-release
				runOp(hb, rb, cb, "closer-b", opB, pa, false)
			})
			close(release)
			waitN(done, 2, 3*time.Second)
			if sleepOrStop(stop, time.Duration(30+r.Intn(120))*time.Millisecond) {
				return
			}
			runOp(ha, r, c, "closer", opRegister, pb, false)
			runOp(hb, r, c, "closer", opRegister, pa, false)
		case 3:
			// cancel pairing on one side, disconnect on the other
			burstWrite(a, pb.ski, r.Fork(), 20)
			runOp(ha, r, c, "closer", opCancelPairing, pb, false)
			runOp(hb, r, c, "closer", opDisconnect, pa, false)
			if sleepOrStop(stop, time.Duration(30+r.Intn(120))*time.Millisecond) {
				return
			}
			runOp(ha, r, c, "closer", opRegister, pb, false)
		}
	}
}

func waitN(done <-chan struct{}, n int, d time.Duration) {
	t := time.NewTimer(d)
	defer t.Stop()
	for i := 0; i < n; i++ {
		select {
		case <-done:
		case <-t.C:
			st.stuck.Add(1)
			return
		}
	}
}

// write a burst to the connection(s) node n has with remote ski, in its own goroutine,
// so that the writes overlap with the close that follows
func burstWrite(n *node, ski string, r *vh.Rng, count int) {
	ws := n.app.writersFor(ski)
	if len(ws) == 0 {
		return
	}
	c := newOpCounters()
	who := fmt.Sprintf("burst-%d", n.idx)
	spawn(nil, who, func() {
		for i := 0; i < count; i++ {
			writeOne(who, c, vh.Pick(r, ws), int64(1000000+i))
			if r.Chance(50) {
				time.Sleep(time.Duration(r.Intn(4)) * time.Millisecond)
			}
		}
	})
}
