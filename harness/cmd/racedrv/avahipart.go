package main

// The Avahi part of the stress: mdns.AvahiProvider objects over a fake avahi server
// (the fake is adapted from cmd/avahidrv/fake.go), used the way MdnsManager uses a
// provider - Start once, Announce/Unannounce from several goroutines, browse results
// arriving, the daemon going away and coming back (reconnect loop), Shutdown at the end -
// with providers being replaced every second or so, so that many Shutdowns run against
// live listener goroutines.

import (
	"errors"
	"fmt"
	"net"
	"sync"
	"sync/atomic"
	"time"

	"github.com/enbility/go-avahi"
	"github.com/enbility/ship-go/mdns"
	dbus "github.com/godbus/dbus/v5"

	"verif/harness/internal/vh"
)

// failure mode of a provider Start while the daemon is unreachable
const (
	avFailSetup   = 0
	avFailVersion = 1
	avFailBrowser = 2
)

var errAvDown = errors.New("fake avahi: daemon not reachable")

// avFakeServer mirrors the life-cycle semantics of go-avahi's Server: objects live on the
// daemon as long as the daemon runs and the client connection is open; closing the
// connection (daemon loss or Shutdown) frees them all and spawns `go eventCB(Disconnected)`.
type avFakeServer struct {
	avahi.ServerInterface // unimplemented methods are never called by the provider

	mu       sync.Mutex
	daemonUp bool
	failMode int
	conn     bool
	cb       avahi.EventCB
	browsers map[*avFakeBrowser]bool
	groups   map[*avFakeGroup]bool
	last     time.Time
	seq      int

	browsersCreated, browsersFreed int
	groupsCreated, groupsCommitted int
	groupsFreed                    int
	setups, disconnects            int
	panics                         []string
}

type avFakeBrowser struct {
	avahi.ServiceBrowserInterface
	id       int
	add, rem chan avahi.Service
}

func (b *avFakeBrowser) GetObjectPath() dbus.ObjectPath {
	return dbus.ObjectPath(fmt.Sprintf("/Client0/ServiceBrowser%d", b.id))
}
func (b *avFakeBrowser) Free() {}

type avFakeGroup struct {
	avahi.EntryGroupInterface
	s         *avFakeServer
	id        int
	txt       string
	services  int
	committed bool
}

func (g *avFakeGroup) GetObjectPath() dbus.ObjectPath {
	return dbus.ObjectPath(fmt.Sprintf("/Client0/EntryGroup%d", g.id))
}
func (g *avFakeGroup) Free() {}

func (g *avFakeGroup) AddService(iface, protocol int32, flags uint32, name, serviceType, domain, host string, port uint16, txt [][]byte) error {
	g.s.mu.Lock()
	defer g.s.mu.Unlock()
	g.s.last = time.Now()
	if !g.s.groups[g] {
		return errAvDown
	}
	t := ""
	for _, e := range txt {
		t += string(e) + ";"
	}
	g.txt = t
	g.services++
	return nil
}

func (g *avFakeGroup) Commit() error {
	g.s.mu.Lock()
	defer g.s.mu.Unlock()
	g.s.last = time.Now()
	if !g.s.groups[g] {
		return errAvDown
	}
	g.committed = true
	g.s.groupsCommitted++
	return nil
}

func newAvFakeServer() *avFakeServer {
	return &avFakeServer{daemonUp: true, browsers: map[*avFakeBrowser]bool{}, groups: map[*avFakeGroup]bool{}, last: time.Now()}
}

func (s *avFakeServer) touch() { s.last = time.Now() }

func (s *avFakeServer) Setup(cb avahi.EventCB) error {
	s.mu.Lock()
	defer s.mu.Unlock()
	s.touch()
	if !s.daemonUp && s.failMode == avFailSetup {
		return errAvDown
	}
	s.setups++
	s.conn = true
	s.cb = cb
	return nil
}

func (s *avFakeServer) Start() {
	s.mu.Lock()
	s.touch()
	s.mu.Unlock()
}

func (s *avFakeServer) GetAPIVersion() (int32, error) {
	s.mu.Lock()
	defer s.mu.Unlock()
	s.touch()
	if !s.conn || (!s.daemonUp && s.failMode != avFailBrowser) {
		return 0, errAvDown
	}
	return 516, nil
}

func (s *avFakeServer) ServiceBrowserNew(addChan, removeChan chan avahi.Service, iface, protocol int32, serviceType string, domain string, flags uint32) (avahi.ServiceBrowserInterface, error) {
	s.mu.Lock()
	defer s.mu.Unlock()
	s.touch()
	if !s.conn || !s.daemonUp {
		return nil, errAvDown
	}
	s.seq++
	b := &avFakeBrowser{id: s.seq, add: addChan, rem: removeChan}
	s.browsers[b] = true
	s.browsersCreated++
	return b, nil
}

func (s *avFakeServer) ServiceBrowserFree(r avahi.ServiceBrowserInterface) {
	s.mu.Lock()
	defer s.mu.Unlock()
	s.touch()
	if b, ok := r.(*avFakeBrowser); ok && s.browsers[b] {
		delete(s.browsers, b)
		s.browsersFreed++
	}
}

func (s *avFakeServer) EntryGroupNew() (avahi.EntryGroupInterface, error) {
	s.mu.Lock()
	defer s.mu.Unlock()
	s.touch()
	if !s.conn || !s.daemonUp {
		return nil, errAvDown
	}
	s.seq++
	g := &avFakeGroup{s: s, id: s.seq}
	s.groups[g] = true
	s.groupsCreated++
	return g, nil
}

func (s *avFakeServer) EntryGroupFree(r avahi.EntryGroupInterface) {
	s.mu.Lock()
	defer s.mu.Unlock()
	s.touch()
	if g, ok := r.(*avFakeGroup); ok && s.groups[g] {
		delete(s.groups, g)
		s.groupsFreed++
	}
}

func (s *avFakeServer) ResolveService(iface, protocol int32, name, serviceType, domain string, aprotocol int32, flags uint32) (avahi.Service, error) {
	s.mu.Lock()
	defer s.mu.Unlock()
	s.touch()
	if !s.conn || !s.daemonUp {
		return avahi.Service{}, errAvDown
	}
	return avahi.Service{Interface: iface, Protocol: protocol, Name: name, Type: serviceType, Domain: domain,
		Host: "peer.local", Address: "192.0.2.7", Port: 4712, Txt: [][]byte{[]byte("ski=0123456789abcdef0123456789abcdef01234567")}}, nil
}

// closeConnLocked is go-avahi's Server.shutdown(): free everything, close, notify once.
func (s *avFakeServer) closeConnLocked() {
	if !s.conn {
		return
	}
	s.conn = false
	s.browsers = map[*avFakeBrowser]bool{}
	s.groups = map[*avFakeGroup]bool{}
	s.disconnects++
	if cb := s.cb; cb != nil {
		go cb(avahi.Disconnected)
	}
}

func (s *avFakeServer) Shutdown() {
	s.mu.Lock()
	defer s.mu.Unlock()
	s.touch()
	s.closeConnLocked()
}

// ---- the environment's side ----

func (s *avFakeServer) daemonDown(mode int) {
	s.mu.Lock()
	defer s.mu.Unlock()
	s.touch()
	s.daemonUp = false
	s.failMode = mode
	s.browsers = map[*avFakeBrowser]bool{}
	s.groups = map[*avFakeGroup]bool{}
	s.closeConnLocked()
}

func (s *avFakeServer) daemonBack() {
	s.mu.Lock()
	defer s.mu.Unlock()
	s.touch()
	s.daemonUp = true
}

func (s *avFakeServer) liveBrowsers() []*avFakeBrowser {
	s.mu.Lock()
	defer s.mu.Unlock()
	var l []*avFakeBrowser
	for b := range s.browsers {
		l = append(l, b)
	}
	return l
}

// deliver one browse result through a browser the way go-avahi's dispatcher does: under
// the server mutex (ServiceBrowserFree takes the same mutex, so nothing is sent to a
// browser once it has been freed), a blocking send on the channel the browser was created
// with; false = browser gone or nobody received in time.
func (s *avFakeServer) deliver(b *avFakeBrowser, name string, wait time.Duration) (sent bool) {
	return s.dispatch(b, b.add, name, wait)
}

func (s *avFakeServer) dispatch(b *avFakeBrowser, ch chan avahi.Service, name string, wait time.Duration) (sent bool) {
	defer func() {
		if r := recover(); r != nil {
			s.panics = append(s.panics, fmt.Sprint(r)) // s.mu is held
			sent = false
		}
	}()
	s.mu.Lock()
	defer s.mu.Unlock()
	if !s.browsers[b] {
		return false
	}
	svc := avahi.Service{Interface: 1, Protocol: 0, Name: name, Type: "_ship._tcp", Domain: "local"}
	select {
	case ch <- svc:
		return true
	case <-time.After(wait):
		return false
	}
}

func (s *avFakeServer) idleFor() (time.Duration, bool) {
	s.mu.Lock()
	defer s.mu.Unlock()
	return time.Since(s.last), s.daemonUp
}

// deliverRemove: a browse "remove" result through the browser's remove channel
func (s *avFakeServer) deliverRemove(b *avFakeBrowser, name string, wait time.Duration) (sent bool) {
	return s.dispatch(b, b.rem, name, wait)
}

type avahiPart struct {
	providers, starts, startOK, shutdowns, announces, unannounces atomic.Int64
	delivered, removed, resolved, daemonCycles                    atomic.Int64
	mu                                                            sync.Mutex
	fakePanics                                                    []string
}

var theAvahiPart atomic.Pointer[avahiPart]

// one provider generation: Start from this goroutine, then concurrent use, then Shutdown
// while the feeder and the announcer are still running
func (ap *avahiPart) generation(r *vh.Rng, stop <-chan struct{}) {
	srv := newAvFakeServer()
	prov := mdns.VerifNewAvahiProvider(srv, []int32{avahi.InterfaceUnspec})
	ap.providers.Add(1)
	cb := func(elements map[string]string, name, host string, addresses []net.IP, port int, remove bool) {
		ap.resolved.Add(1)
	}
	ap.starts.Add(1)
	if prov.Start(true, cb) {
		ap.startOK.Add(1)
	}
	genStop := make(chan struct{})
	var wg sync.WaitGroup
	either := func() bool { return stopped(stop) || stopped(genStop) }
	fr, ar, dr := r.Fork(), r.Fork(), r.Fork()
	spawn(&wg, "avahi-feeder", func() {
		n := 0
		for !either() {
			for _, b := range srv.liveBrowsers() {
				n++
				name := fmt.Sprintf("svc-%d", n%7)
				if fr.Chance(30) {
					if srv.deliverRemove(b, name, 15*time.Millisecond) {
						ap.removed.Add(1)
					}
				} else if srv.deliver(b, name, 15*time.Millisecond) {
					ap.delivered.Add(1)
				}
			}
			time.Sleep(time.Duration(fr.Intn(4)) * time.Millisecond)
		}
	})
	spawn(&wg, "avahi-announcer", func() {
		for !either() {
			if ar.Chance(65) {
				func() {
					defer catch("avahi/Announce")
					_ = prov.Announce("name", 4711, []string{"txtvers=1", "id=x", "ski=00"})
				}()
				ap.announces.Add(1)
			} else {
				func() { defer catch("avahi/Unannounce"); prov.Unannounce() }()
				ap.unannounces.Add(1)
			}
			time.Sleep(time.Duration(ar.Intn(6)) * time.Millisecond)
		}
	})
	// the daemon goes away once in a while; the provider's reconnect loop (1 s period)
	// brings it back
	life := time.Duration(700+dr.Intn(1800)) * time.Millisecond
	if dr.Chance(50) {
		sleepOrStop(stop, life/3)
		srv.daemonDown(dr.Intn(3))
		ap.daemonCycles.Add(1)
		sleepOrStop(stop, time.Duration(100+dr.Intn(400))*time.Millisecond)
		srv.daemonBack()
		sleepOrStop(stop, life)
	} else {
		sleepOrStop(stop, life)
	}
	// Shutdown while feeder and announcer are still at it
	func() { defer catch("avahi/Shutdown"); prov.Shutdown() }()
	ap.shutdowns.Add(1)
	time.Sleep(time.Duration(dr.Intn(30)) * time.Millisecond)
	close(genStop)
	waitTimeout(&wg, 2*time.Second)
	srv.mu.Lock()
	ps := append([]string(nil), srv.panics...)
	srv.mu.Unlock()
	if len(ps) > 0 {
		ap.mu.Lock()
		if len(ap.fakePanics) < 10 {
			ap.fakePanics = append(ap.fakePanics, ps...)
		}
		ap.mu.Unlock()
	}
}

func startAvahiPart(r *vh.Rng, stop <-chan struct{}, wg *sync.WaitGroup) *avahiPart {
	ap := &avahiPart{}
	for g := 0; g < 2; g++ {
		gr := r.Fork()
		spawn(wg, fmt.Sprintf("avahi-generations-%d", g), func() {
			for !stopped(stop) {
				ap.generation(gr, stop)
			}
		})
	}
	return ap
}

func (ap *avahiPart) summary() map[string]any {
	ap.mu.Lock()
	ps := append([]string(nil), ap.fakePanics...)
	ap.mu.Unlock()
	return map[string]any{
		"providers": ap.providers.Load(), "starts": ap.starts.Load(), "starts_ok": ap.startOK.Load(),
		"shutdowns": ap.shutdowns.Load(), "announces": ap.announces.Load(), "unannounces": ap.unannounces.Load(),
		"browse_adds_delivered": ap.delivered.Load(), "browse_removes_delivered": ap.removed.Load(),
		"resolver_callbacks": ap.resolved.Load(), "daemon_outages": ap.daemonCycles.Load(),
		"send_on_closed_browser_channel": ps,
	}
}
