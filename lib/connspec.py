"""Shared SPEC pieces of the properties decided on the connection model (C01 C04 C06 C08 C09 C11)."""

RULE = ("shipdrv: real ship.ShipConnection objects between a recording info provider and a recording, fault-injecting data "
        "writer. 20 directed scenarios (the witnesses of the defects repaired on the pinned tree and corner cases) run first, "
        "then random scenarios of 3-14 events chosen from the seeded PRNG with knowledge of the implementation's current "
        "state: the cooperative peer's next message (52%), variants and out-of-phase messages (hello/protocol/pin/access/close/"
        "data, field missing/null/ill-typed/wrong enum, waiting values around the 1 s / 30 s thresholds and 2^63, whitespace "
        "variants, byte-level mutation, raw bytes), SPINE data frames, timer expiry, transport error, silent transport close, "
        "approve, abort, CloseConnection(safe/unsafe), SPINE writes, 1.25 s waits for the time.After goroutines; environment "
        "answers (paired/auto-accept/allow-waiting) random per event; in 14% of the events of non-cooperative scenarios the "
        "transport closes before the k-th data-writer call (k<6). Compared per event: state reports with error flag, every "
        "written frame decoded back (kind, waiting, prolongation, SHIP id, payload id) and its result, info-provider queries "
        "with answers, setup, SHIP id report, payload deliveries, CloseDataConnection(code, reason?), HandleConnectionClosed, "
        "panic/hang, and the hook snapshot (state, error, timer running, timer type, reader set, buffer length). "
        "distinct = hash of (role, ids, event list); non-trivial = the scenario got past the init phase (state >= 8).")

TRUSTED = [
    "view computation of received frames (encoding/json on the repository's model structs + ship.JsonFromEEBUSJson) and frame classification of written frames in harness/cmd/shipdrv",
    "fake info provider / data writer of shipdrv; ship/verif_hooks.go (snapshot, timeout delivery)",
    "environment assumptions written into ConnEvents.v: Run() is called once; SPINE writes only after SetupRemoteDevice; the websocket layer sets its closed flag before it reports an error",
    "handshake timers are ideal in this model (armed/stopped flags, expiry only when armed): the real stop mechanism is C14's model",
    "encoding/json, go-ordered-json: modelled, not verified (a frame is the view the decoders have of it)",
]

def spec(pid, check_fn, codes, manifest_text, technique="certified closure (kernel-checked inductive invariant) of the control model x property monitor, lifted to all concrete runs; differential correspondence"):
    return dict(
        imports="From Ship Require Import Base Conn ConnData ConnMon ConnCheck.",
        case_type="conn_case", check_fn=check_fn,
        drivers=[dict(bin="shipdrv", args=["-prop", "conn"], n_quick=1500, n_thorough=30000, timeout=2400)],
        codes=codes, rule=RULE, trusted=TRUSTED,
        search=dict(driver=0, variants=True, max_seeds=8, more=4000),
        assumptions=["setState's arm/stop table and the waiting thresholds are regenerated from ship/handshake.go and ship/types.go (gen/ConnTable.v)"],
        manifest=dict(
            text=manifest_text,
            note="Trusted: Coq kernel + vm_compute (closure certificates: 4 tables of 170-420 product states, closed under ~120-900 "
                 "events per state); the Go-AST table extractor; shipdrv (views, fakes); the environment assumptions listed in "
                 "coq/theories/ConnEvents.v; ideal timers (C14 covers the real ones); encoding/json modelled not verified. "
                 "No axioms (Print Assumptions: closed under the global context).",
            technique=technique, ref="DESIGN.md §6.0 (Conn) and §6 " + pid),
    )
