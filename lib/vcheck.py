"""Common machinery of bin/check: regenerate tables, build proofs, build and run the
drivers against /repo's working tree, evaluate model and monitors inside Coq on the
implementation's observations, match known findings, write evidence."""
import fcntl, hashlib, json, os, re, shutil, subprocess, sys, time, importlib.util
from concurrent.futures import ThreadPoolExecutor

ROOT = os.path.dirname(os.path.dirname(os.path.abspath(__file__)))
HARNESS = os.path.join(ROOT, "harness")
REPO = os.path.abspath(os.environ.get("VERIF_REPO", "/repo"))
ALT = REPO != "/repo"
# Normal runs check /repo and build in /verif/coq and /verif/work.  With VERIF_REPO=<dir>
# (used to try a scratch copy of the repository, e.g. a seeded change, without touching
# /repo) everything mutable lives under work/alt-<hash>/: a synced copy of coq/, the
# driver binaries, the case files.  Evidence of such runs goes there too.
_ALTDIR = os.path.join(ROOT, "work", "alt-" + hashlib.sha1(REPO.encode()).hexdigest()[:10])
WORK = _ALTDIR if ALT else os.path.join(ROOT, "work")
COQ = os.path.join(_ALTDIR, "coq") if ALT else os.path.join(ROOT, "coq")
BIN = os.path.join(WORK, "bin") if ALT else os.path.join(HARNESS, "bin")
EVID = os.path.join(WORK, "evidence") if ALT else os.path.join(ROOT, "evidence")
REPLAYS = os.path.join(WORK, "replays") if ALT else os.path.join(ROOT, "replays")
GOENV = dict(os.environ, GOFLAGS="-mod=mod", GOPROXY="off", GOSUMDB="off", GOTOOLCHAIN="local",
             GOCACHE=os.environ.get("GOCACHE", os.path.join(ROOT, "work", "gocache")))
COQ_Q = ["-Q", "theories", "Ship", "-Q", "gen", "ShipGen", "-Q", "props", "ShipProps",
         "-w", "-notation-overridden,-deprecated-hint-without-locality,-deprecated-instance-without-locality"]
SHARD = 120

FIXED_TRUSTED_BASE = [
    "Coq 8.16.1 kernel + vm_compute bytecode VM (no native_compute)",
    "harness/cmd/extract (Go AST -> coq/gen tables)",
    "Go drivers under harness/cmd (observation recording, Gallina literal emitters)",
    "bin/check + lib/vcheck.py (case sharding, result parsing, known-findings matcher)",
]


def log(*a):
    print(*a, flush=True)


def sh(cmd, cwd=None, env=None, timeout=1800, capture=True):
    t0 = time.time()
    try:
        p = subprocess.run(cmd, cwd=cwd, env=env, timeout=timeout, stdout=subprocess.PIPE if capture else None,
                           stderr=subprocess.STDOUT if capture else None, text=True, errors="replace")
        return p.returncode, p.stdout or "", time.time() - t0
    except subprocess.TimeoutExpired as e:
        out = e.stdout if isinstance(e.stdout, str) else (e.stdout or b"").decode("utf8", "replace")
        return 124, (out or "") + "\n[timeout after %ss]" % timeout, time.time() - t0


class Lock:
    def __init__(self, name):
        os.makedirs(WORK, exist_ok=True)
        self.path = os.path.join(WORK, name)

    def __enter__(self):
        self.f = open(self.path, "w")
        fcntl.flock(self.f, fcntl.LOCK_EX)
        return self

    def __exit__(self, *a):
        fcntl.flock(self.f, fcntl.LOCK_UN)
        self.f.close()


def load_spec(pid):
    path = os.path.join(ROOT, "checks", pid + ".py")
    spec = importlib.util.spec_from_file_location("spec_" + pid, path)
    m = importlib.util.module_from_spec(spec)
    spec.loader.exec_module(m)
    return m.SPEC


# ---------------------------------------------------------------- build steps
def go_build(name, tags=True):
    """(Re)build one harness command against the repository's working tree."""
    os.makedirs(BIN, exist_ok=True)
    cmd = ["go", "build"]
    if ALT:
        mod = open(os.path.join(HARNESS, "go.mod")).read().replace("=> /repo", "=> " + REPO)
        modfile = os.path.join(WORK, "go.alt.mod")
        open(modfile, "w").write(mod)
        shutil.copyfile(os.path.join(REPO, "go.sum"), os.path.join(WORK, "go.alt.sum"))
        cmd += ["-modfile", modfile]
    else:
        shutil.copyfile(os.path.join(REPO, "go.sum"), os.path.join(HARNESS, "go.sum"))
    cmd += (["-tags", "verif"] if tags else []) + ["-o", os.path.join(BIN, name), "./cmd/" + name]
    rc, out, dt = sh(cmd, cwd=HARNESS, env=GOENV, timeout=900)
    return rc, out


def sync_alt():
    """Alt mode: start from an exact copy of /verif/coq (sources, regenerated tables and
    compiled files, all mutually consistent); the extractor then overwrites only the tables
    that differ for the alternative tree, and make rebuilds exactly what depends on them."""
    if not ALT:
        return
    os.makedirs(COQ, exist_ok=True)
    sh(["rsync", "-a", "--delete", "--exclude", "Makefile*", "--exclude", ".Makefile.d", "--exclude", "_CoqProject",
        os.path.join(ROOT, "coq") + "/", COQ + "/"])


def write_coqproject():
    """_CoqProject is generated: every .v under gen/, theories/, props/."""
    lines = ["-Q theories Ship", "-Q gen ShipGen", "-Q props ShipProps",
             "-arg -w -arg -notation-overridden,-deprecated-hint-without-locality,-deprecated-instance-without-locality"]
    for d in ("gen", "theories", "props"):
        dd = os.path.join(COQ, d)
        if os.path.isdir(dd):
            lines += sorted(d + "/" + f for f in os.listdir(dd) if f.endswith(".v") and not f.startswith("."))
    new = "\n".join(lines) + "\n"
    p = os.path.join(COQ, "_CoqProject")
    old = open(p).read() if os.path.exists(p) else ""
    if old != new or not os.path.exists(os.path.join(COQ, "Makefile")):
        open(p, "w").write(new)
        sh(["coq_makefile", "-f", "_CoqProject", "-o", "Makefile"], cwd=COQ)


def regen_tables():
    with Lock(".lock_build"):
        rc, out = go_build("extract", tags=False)
        if rc != 0:
            return rc, out
        sync_alt()
        rc, out, _ = sh([os.path.join(BIN, "extract"), "-repo", REPO, "-out", os.path.join(COQ, "gen")],
                        timeout=120)
        return rc, out


def coq_targets(spec, pid):
    """The .vo files this property's check needs: its property file and the modules its case
    files import (each with everything it depends on)."""
    t = [spec.get("props", "props/%s.v" % pid)[:-2] + ".vo"] + [x[:-2] + ".vo" for x in spec.get("props_extra", [])]
    for m in re.findall(r"\b([A-Z]\w*)\b", " ".join(re.findall(r"From Ship Require Import ([^.]*)\.", spec.get("imports", "")))):
        if os.path.exists(os.path.join(COQ, "theories", m + ".v")):
            t.append("theories/%s.vo" % m)
    return sorted(set(t))


def coq_make(targets=None):
    """Full .vo build of what the check depends on (make; never -vos/-vok).  bin/setup builds
    everything with -k; a check only needs its own closure, so that a file of another
    property that is slow or broken cannot block it."""
    with Lock(".lock_build"):
        write_coqproject()
        rc, out, dt = sh(["make", "-k", "-j16"] + list(targets or []), cwd=COQ, timeout=3000)
        os.makedirs(WORK, exist_ok=True)
        open(os.path.join(WORK, "make.log"), "w").write(out)
        return rc, out, dt


def vo_uptodate(vfile):
    rc, out, _ = sh(["make", "-q", vfile[:-2] + ".vo"], cwd=COQ, timeout=120)
    return rc == 0


def check_props(pid, spec, wd):
    """Re-run coqc on the property file(s) (cheap: `exact lemma` + Print Assumptions) to
    collect the assumptions of every theorem; report which theorems exist and whether the
    files and all they depend on compiled this run."""
    files = [spec.get("props", "props/%s.v" % pid)] + list(spec.get("props_extra", []))
    res = dict(ok=True, theorems=[], assumptions={}, log="", deps_ok=True, complete=True)
    for vfile in files:
        src = open(os.path.join(COQ, vfile)).read()
        theorems = re.findall(r"^(?:Theorem|Corollary)\s+(\w+)", src, re.M)
        deps_ok = vo_uptodate(vfile)
        rc, out, _ = sh(["coqc"] + COQ_Q + [vfile, "-o", os.path.join(wd, os.path.basename(vfile)[:-2] + ".vo")], cwd=COQ, timeout=600)
        open(os.path.join(wd, "props_%s.log" % os.path.basename(vfile)[:-2]), "w").write(out)
        blocks = re.split(r"(?=^Closed under the global context|^Axioms:)", out, flags=re.M)
        blocks = [b for b in blocks if b.startswith("Closed") or b.startswith("Axioms:")]
        for th, b in zip(theorems, blocks):
            if b.startswith("Closed"):
                res["assumptions"][th] = []
            else:
                res["assumptions"][th] = re.findall(r"^(\S+)\s*:", b[len("Axioms:"):], re.M)
        res["ok"] = res["ok"] and deps_ok and rc == 0
        res["deps_ok"] = res["deps_ok"] and deps_ok
        res["complete"] = res["complete"] and len(blocks) == len(theorems)
        res["theorems"] += theorems
        res["log"] += out
    return res


# ---------------------------------------------------------------- case evaluation
def eval_cases(pid, spec, cases, wd, tag="cases"):
    """cases: list of dicts with 'coq'.  Returns {index: [codes]} for the bad ones, and
    a list of shard errors (coqc failures)."""
    shards = [cases[i:i + SHARD] for i in range(0, len(cases), SHARD)]
    files = []
    for k, sh_cases in enumerate(shards):
        path = os.path.join(wd, "%s_%s_%d.v" % (tag, pid, k))
        with open(path, "w") as f:
            f.write(spec["imports"] + "\n")
            f.write("Definition cs : list %s := [\n" % spec["case_type"])
            f.write(";\n".join("  (" + c["coq"] + ")" for c in sh_cases))
            f.write("\n].\n")
            f.write("Definition R := Eval vm_compute in bad_cases %s 0 cs.\n" % spec["check_fn"])
            f.write("Set Printing Width 100000.\nSet Printing Depth 1000000.\nPrint R.\n")
        files.append((k, path))

    def run(item):
        k, path = item
        rc, out, dt = sh(["coqc"] + COQ_Q + [path], cwd=COQ, timeout=1500)
        return k, rc, out

    bad, errors = {}, []
    with ThreadPoolExecutor(max_workers=14) as ex:
        for k, rc, out in ex.map(run, files):
            if rc != 0:
                errors.append("shard %d: %s" % (k, out[-2000:]))
                continue
            flat = re.sub(r"\s+", "", out)
            flat = re.sub(r"%(N|nat|Z|positive)", "", flat)   # scope annotations when a scope is closed
            m = re.search(r"R=(.*?):list", flat)
            body = m.group(1) if m else ""
            for idx, codes in re.findall(r"\((\d+),\[([\d;]*)\]\)", body):
                bad[k * SHARD + int(idx)] = [int(x) for x in codes.split(";") if x]
    for k, path in files:
        for ext in (".vo", ".glob", ".vok", ".vos"):
            try:
                os.remove(path[:-2] + ext)
            except OSError:
                pass
        try:
            os.remove(os.path.join(os.path.dirname(path), "." + os.path.basename(path)[:-2] + ".aux"))
        except OSError:
            pass
    return bad, errors


def run_driver(drv, seed, n, outpath, extra=(), timeout=1500):
    cmd = [os.path.join(BIN, drv["bin"])] + list(drv.get("args", [])) + \
          ["-seed", str(seed), "-n", str(n), "-out", outpath] + list(extra)
    env = dict(GOENV)
    rc, out, dt = sh(cmd, cwd=HARNESS, env=env, timeout=timeout)
    return rc, out, dt, cmd


def read_cases(path):
    cases = []
    if not os.path.exists(path):
        return cases
    with open(path) as f:
        for line in f:
            line = line.strip()
            if line:
                cases.append(json.loads(line))
    return cases


# ---------------------------------------------------------------- findings
def load_findings():
    p = os.path.join(ROOT, "known_findings.json")
    if not os.path.exists(p):
        return {"findings": [], "fixed": []}
    return json.load(open(p))


# ---------------------------------------------------------------- main check
def main_check(pid, tier, seed, replay=None):
    t0 = time.time()
    spec = load_spec(pid)
    wd = os.path.join(WORK, pid)
    os.makedirs(wd, exist_ok=True)
    os.makedirs(EVID, exist_ok=True)
    os.makedirs(REPLAYS, exist_ok=True)
    notes, problems = [], []   # problems: broken obligations / correspondence

    # 1. tables from source
    t_ph = time.time()
    rc, out = regen_tables()
    notes.append("extract (incl. waiting for the build lock) %.1fs" % (time.time() - t_ph))
    if rc != 0:
        problems.append(("translator", "harness/cmd/extract failed on the current source:\n" + out[-3000:]))
    # 2. proofs
    rc, out, dt = coq_make(coq_targets(spec, pid))
    notes.append("coq make (property closure) rc=%d %.1fs" % (rc, dt))
    pr = check_props(pid, spec, wd)
    if not pr["ok"]:
        # name the first failing file/lemma from the make log
        mk = open(os.path.join(WORK, "make.log")).read()
        errs = re.findall(r'File "([^"]+)", line (\d+).*?\nError:(.*?)(?:\n\n|\nmake)', mk, re.S)
        detail = "; ".join("%s:%s %s" % (f, l, " ".join(e.split())[:300]) for f, l, e in errs[:6])
        problems.append(("proof", "proof obligations of %s no longer check (props/%s.v or a file it depends on): %s"
                         % (pid, pid, detail or pr["log"][-1500:])))
    # 3. drivers
    cases, dist, driver_failures = [], {}, []
    for c in read_corpus(pid):
        c["_src"] = "corpus"
        cases.append(c)
    built = set()
    for di, drv in enumerate(spec["drivers"]):
        if drv["bin"] not in built:
            with Lock(".lock_build"):
                rc, out = go_build(drv["bin"])
            if rc != 0:
                problems.append(("build", "driver %s does not build against the current tree:\n%s" % (drv["bin"], out[-3000:])))
                continue
            built.add(drv["bin"])
        n = drv["n_thorough"] if tier == "thorough" else drv["n_quick"]
        if replay:
            n = replay.get("n", {}).get(str(di), n)
        outp = os.path.join(wd, "cases_%d.jsonl" % di)
        if os.path.exists(outp):
            os.remove(outp)
        rc, out, dt, cmd = run_driver(drv, seed, n, outp, timeout=drv.get("timeout", 1500))
        notes.append("driver %s n=%d rc=%d %.1fs" % (drv["bin"], n, rc, dt))
        open(os.path.join(wd, "driver_%d.log" % di), "w").write(out)
        got = read_cases(outp)
        for i, c in enumerate(got):
            c["_src"] = "d%d#%d" % (di, i)
            c["_drv"] = di
        cases.extend(got)
        if rc != 0:
            driver_failures.append((drv, rc, out, cmd))
    # 4. model + monitors inside Coq on the implementation's observations
    t_eval = time.time()
    bad, errors = eval_cases(pid, spec, cases, wd) if cases else ({}, [])
    notes.append("coq evaluation of %d cases %.1fs" % (len(cases), time.time() - t_eval))
    for e in errors:
        problems.append(("evaluation", "coqc failed on a case shard: " + e))
    codes_map = dict(spec.get("codes", {}))
    # 4'. further case streams of the same property (another driver / another model file)
    for si, st in enumerate(spec.get("streams", [])):
        sspec = dict(spec); sspec.update(st)
        codes_map.update(st.get("codes", {}))
        rc0, out0, dt0 = coq_make(coq_targets(sspec, pid))
        scases = []
        for di, drv in enumerate(st["drivers"]):
            if drv["bin"] not in built:
                with Lock(".lock_build"):
                    rc, out = go_build(drv["bin"])
                if rc != 0:
                    problems.append(("build", "driver %s does not build against the current tree:\n%s" % (drv["bin"], out[-3000:])))
                    continue
                built.add(drv["bin"])
            n = drv["n_thorough"] if tier == "thorough" else drv["n_quick"]
            outp = os.path.join(wd, "cases_s%d_%d.jsonl" % (si, di))
            if os.path.exists(outp):
                os.remove(outp)
            rc, out, dt, cmd = run_driver(drv, seed, n, outp, timeout=drv.get("timeout", 1500))
            notes.append("stream %d driver %s n=%d rc=%d %.1fs" % (si + 1, drv["bin"], n, rc, dt))
            got = read_cases(outp)
            for i, c in enumerate(got):
                c["_src"] = "s%dd%d#%d" % (si + 1, di, i)
                c["kind"] = "stream%d:%s" % (si + 1, c.get("kind", "?"))
            scases.extend(got)
            if rc != 0:
                driver_failures.append((drv, rc, out, cmd))
        if scases:
            t_eval = time.time()
            sbad, serr = eval_cases(pid, sspec, scases, wd, tag="stream%d" % (si + 1))
            notes.append("coq evaluation of %d cases of stream %d %.1fs" % (len(scases), si + 1, time.time() - t_eval))
            for e in serr:
                problems.append(("evaluation", "coqc failed on a case shard of stream %d: %s" % (si + 1, e)))
            base = len(cases)
            cases.extend(scases)
            for j, cs in sbad.items():
                bad[base + j] = cs
    mismatches = [i for i, cs in bad.items() if 1 in cs]
    failing = {i: [c for c in cs if c >= 10] for i, cs in bad.items() if any(c >= 10 for c in cs)}
    for i in mismatches:
        pass
    if mismatches:
        ex = cases[mismatches[0]]
        problems.append(("correspondence", "model and implementation disagree on %d of %d cases, first: %s"
                         % (len(mismatches), len(cases), json.dumps(ex.get("sample"))[:1500])))
    # 4a. search for a failing input when the tie or a proof broke but no monitor failed yet:
    #     perturbation/fault variants of the disagreeing cases (driver's -variants mode), and a
    #     larger random sample with another seed
    if (mismatches or problems) and not failing and spec.get("search") and not replay:
        sc = spec["search"]
        drv = spec["drivers"][sc.get("driver", 0)]
        extra_cases = []
        if mismatches and sc.get("variants"):
            vin = os.path.join(wd, "search_in.jsonl")
            with open(vin, "w") as f:
                for i in mismatches[:sc.get("max_seeds", 10)]:
                    f.write(json.dumps({k: v for k, v in cases[i].items() if not k.startswith("_")}) + "\n")
            outp = os.path.join(wd, "search_variants.jsonl")
            rc, out, dt, cmd = run_driver(drv, seed, 0, outp, extra=["-variants", vin], timeout=900)
            extra_cases += read_cases(outp)
            notes.append("search: %d variants of %d disagreeing cases rc=%d %.1fs" % (len(extra_cases), min(len(mismatches), sc.get("max_seeds", 10)), rc, dt))
        if sc.get("more"):
            outp = os.path.join(wd, "search_more.jsonl")
            rc, out, dt, cmd = run_driver(drv, seed + 1000003, sc["more"], outp, timeout=1500)
            more = read_cases(outp)
            extra_cases += more
            notes.append("search: %d more random cases rc=%d %.1fs" % (len(more), rc, dt))
        if extra_cases:
            base = len(cases)
            for j, c in enumerate(extra_cases):
                c["_src"] = "search#%d" % j
            bad2, err2 = eval_cases(pid, spec, extra_cases, wd, tag="search")
            cases.extend(extra_cases)
            for j, cs in bad2.items():
                bad[base + j] = cs
                if any(c >= 10 for c in cs):
                    failing[base + j] = [c for c in cs if c >= 10]
    # 4b. property-specific extra steps (e.g. real TLS sessions, race-detector stress)
    extra_cov, extra_viol = {}, []
    for stepf in spec.get("extra_steps", []):
        try:
            r = stepf(dict(pid=pid, tier=tier, seed=seed, wd=wd, repo=REPO, bin=BIN, coq=COQ, sh=sh, goenv=GOENV,
                           go_build=go_build, lock=Lock)) or {}
        except Exception as e:  # a crashing step is a broken check, reported as such
            r = dict(problems=[("extra_step", "%s raised %r" % (getattr(stepf, "__name__", "step"), e))])
        problems.extend(r.get("problems", []))
        extra_viol.extend(r.get("violations", []))
        extra_cov.update(r.get("coverage", {}))
        notes.extend(r.get("notes", []))
    # 4c. thorough tier: independent re-check of the compiled proofs with coqchk
    if tier == "thorough" and pr["ok"] and not os.environ.get("VERIF_NO_COQCHK"):
        mod = "ShipProps." + os.path.basename(spec.get("props", "props/%s.v" % pid))[:-2]
        rc, out, dt = sh(["coqchk", "-silent", "-o"] + COQ_Q[:9] + [mod], cwd=COQ, timeout=9000)
        open(os.path.join(wd, "coqchk.log"), "w").write(out)
        notes.append("coqchk %s rc=%d %.0fs" % (mod, rc, dt))
        extra_cov["coqchk"] = dict(rc=rc, seconds=round(dt), tail=out[-1500:])
        if rc != 0:
            problems.append(("coqchk", "coqchk rejected the compiled proofs: " + out[-1500:]))
    # 5. verdict
    findings = load_findings()
    known = {(f["property"], f["code"]): f for f in findings.get("findings", [])}
    violations, known_hits = [], {}
    for i, cs in sorted(failing.items()):
        for c in cs:
            name = codes_map.get(c, "code%d" % c)
            if (pid, name) in known:
                known_hits.setdefault(name, []).append(i)
            else:
                violations.append((i, name))
    for drv, rc, out, cmd in driver_failures:
        violations.append((-1, "driver_failed:%s rc=%d" % (drv["bin"], rc)))
    extra_bodies = {}
    for name, body in extra_viol:
        if (pid, name) in known:
            known_hits.setdefault(name, []).append(-2)
        else:
            violations.append((-2, name))
            extra_bodies[name] = body
    # expected known findings that the deterministic witnesses must still exhibit are
    # printed whenever listed (the model-level refutation decides, not the sampling)
    for (p, name), f in known.items():
        if p == pid:
            log("KNOWN-FINDING: property=%s %s" % (pid, f["what"]))
    exit_code = 0
    replay_paths = []
    if violations:
        exit_code = 1
        seen = set()
        for i, name in violations:
            if name in seen:
                continue
            seen.add(name)
            rp = os.path.join(REPLAYS, "%s-%s-seed%d.json" % (pid, re.sub(r"\W+", "_", name)[:60], seed))
            body = dict(property=pid, failure=name, seed=seed, tier=tier,
                        how_to_rerun="bin/check %s --replay %s" % (pid, rp))
            if i >= 0:
                c = cases[i]
                body.update(case_source=c.get("_src"), input_and_observed=c.get("sample"), coq_case=c["coq"],
                            codes=bad.get(i), kind=c.get("kind"),
                            n={str(c.get("_drv", 0)): (spec["drivers"][c.get("_drv", 0)]["n_thorough"] if tier == "thorough" else spec["drivers"][c.get("_drv", 0)]["n_quick"])} if "_drv" in c else {})
            elif i == -2:
                body.update(extra_bodies.get(name) or {})
            else:
                drv, rc, out, cmd = driver_failures[0]
                body.update(command=cmd, output_tail=out[-6000:])
            json.dump(body, open(rp, "w"), indent=1)
            replay_paths.append(rp)
            log("VIOLATION property=%s replay=%s" % (pid, rp))
    elif problems:
        exit_code = 1
        rp = os.path.join(REPLAYS, "%s-unproved-seed%d.json" % (pid, seed))
        json.dump(dict(property=pid, seed=seed, tier=tier,
                       broken=[dict(kind=k, detail=d) for k, d in problems],
                       searched=dict(cases=len(cases), monitor_failures=0),
                       note="the theorem or correspondence named above no longer checks; the monitors of the "
                            "property were evaluated on every implementation trace of this run and none failed"),
                  open(rp, "w"), indent=1)
        replay_paths.append(rp)
        log("VIOLATION property=%s replay=%s no-failing-input-found" % (pid, rp))
    # 6. evidence
    for c in cases:
        dist[c.get("kind", "?")] = dist.get(c.get("kind", "?"), 0) + 1
    keys_nt = {c["key"] for c in cases if c.get("nontrivial")}
    tb = list(FIXED_TRUSTED_BASE) + list(spec.get("trusted", []))
    axioms = sorted({a for l in pr["assumptions"].values() for a in l})
    tb.append("Print Assumptions: " + ("every theorem of props/%s.v is closed under the global context" % pid
                                        if not axioms and pr["complete"] else "axioms used: " + ", ".join(axioms)))
    samples = [c.get("sample") for c in cases[:1] + cases[len(cases) // 2:len(cases) // 2 + 1] + cases[-1:]]
    ev = dict(
        property_id=pid, tier=tier, seed=seed, level="proof",
        coverage=dict(
            obligations=len(pr["theorems"]), discharged=len(pr["theorems"]) if pr["ok"] else 0,
            checker_cmd="make -C coq (coqc 8.16.1, full .vo build) + coqc props/%s.v" % pid,
            trusted_base=tb,
            theorems=pr["theorems"], assumptions=pr["assumptions"],
            evaluations=len(cases), distinct_nontrivial=len(keys_nt),
            rule=spec.get("rule", ""), samples=samples,
            traces_validated_against_impl=len(cases) - len(mismatches),
            model_impl_mismatches=len(mismatches), monitor_failures=len(failing),
            known_finding_hits={k: len(v) for k, v in known_hits.items()},
            input_distribution=dist, notes=notes, **extra_cov,
            broken=[dict(kind=k, detail=d[:2000]) for k, d in problems],
        ),
        assumptions=spec.get("assumptions", []),
        wall_s=round(time.time() - t0, 2), violations=len(replay_paths),
    )
    json.dump(ev, open(os.path.join(EVID, pid + ".json"), "w"), indent=1)
    log("%s tier=%s seed=%d cases=%d nontrivial=%d mismatches=%d monitor_failures=%d proofs=%s wall=%.1fs exit=%d"
        % (pid, tier, seed, len(cases), len(keys_nt), len(mismatches), len(failing),
           "ok" if pr["ok"] else "BROKEN", time.time() - t0, exit_code))
    return exit_code


def read_corpus(pid):
    d = os.path.join(ROOT, "corpus", pid)
    res = []
    if os.path.isdir(d):
        for fn in sorted(os.listdir(d)):
            if fn.endswith(".jsonl"):
                res.extend(read_cases(os.path.join(d, fn)))
    return res
